"""C12 support code: structured serializer (counters visible), control of UFL's global counters, form programs that
are a deterministic function of (seed, counter regime), and the conversion of the model's pre-hash data to the
implementation's signature string.  Imported by harness/props/c12.py and run as a script by the hash-seed workers:

    PYTHONHASHSEED=k /venv/bin/python harness/c12lib.py worker <tier-seed> <first-case> <n-cases> <regime-index>
"""
import hashlib
import itertools
import os
import random
import sys

if __name__ == "__main__":
    sys.path.insert(0, os.path.dirname(os.path.abspath(__file__)))
import common  # noqa  (puts the repo under test on sys.path)
import uflio
from uflio import enc, nats, frac


# ---------------------------------------------------------------------------------------------- serializer
def mesh_s(m):
    import ufl
    if not isinstance(m, ufl.Mesh):
        raise TypeError("C12 models plain Mesh domains only, got %r" % type(m).__name__)
    return "(m %d %d %d %s)" % (m.ufl_id(), m.geometric_dimension, m.topological_dimension, enc(repr(m.ufl_coordinate_element())))


def space_s(V):
    import ufl
    if type(V) is not ufl.FunctionSpace:
        raise TypeError("C12 models plain FunctionSpace only, got %r" % type(V).__name__)
    lb = V.label()
    if lb == "":
        return "(fs %s %s)" % (mesh_s(V.ufl_domain()), enc(repr(V.ufl_element())))
    if not isinstance(lb, str):
        raise TypeError("function space labels other than str are outside the model, got %r" % (lb,))
    return "(fs %s %s %s)" % (mesh_s(V.ufl_domain()), enc(repr(V.ufl_element())), enc(lb))


def cser(o, memo=None):
    """UFL expression -> CExpr wire format (Drivers/C12.lean); memo shares work across the DAG and keeps objects alive"""
    if memo is None:
        memo = {}
    k = id(o)
    hit = memo.get(k)
    if hit is not None:
        return hit[1]
    r = _cser(o, memo)
    memo[k] = (o, r)
    return r


def _cser(o, memo):
    from ufl.classes import (IntValue, FloatValue, ComplexValue, Zero, MultiIndex, FixedIndex, Label, Argument, Coefficient,
                             Constant, GeometricQuantity, BaseFormOperator)
    name = o._ufl_class_.__name__
    if o._ufl_is_terminal_:
        if isinstance(o, IntValue):
            return "(I %d)" % int(o._value)
        if isinstance(o, FloatValue):
            # the model prints the exact decimal expansion; literals whose repr is a rounded one travel as plain terminals
            from decimal import Decimal
            d = format(Decimal(o._value), "f")
            if "." not in d:
                d += ".0"
            if repr(o) == "FloatValue(%s)" % d:
                return "(R %d %d)" % frac(o._value)
            return "(TP FloatValue %s ())" % enc(repr(o))
        if isinstance(o, ComplexValue):
            # Model/Order.lean has no rendering of `repr(complex)`: complex literals travel as opaque terminals keyed by their repr
            return "(TP ComplexValue %s ())" % enc(repr(o))
        if isinstance(o, Zero):
            return "(Z %s (%s))" % (nats(o.ufl_shape), " ".join("(%d %d)" % (c, d) for c, d in zip(o.ufl_free_indices, o.ufl_index_dimensions)))
        if isinstance(o, MultiIndex):
            return "(M%s)" % "".join(" (F %d)" % int(i) if isinstance(i, FixedIndex) else " (X %d)" % i.count() for i in o._indices)
        if isinstance(o, Label):
            return "(TL %d)" % o.count()
        if type(o) is Coefficient:
            return "(TC %d %s %s)" % (o.count(), space_s(o.ufl_function_space()), nats(o.ufl_shape))
        if type(o) is Argument:
            return "(TA %d %d %s %s)" % (o.number(), -1 if o.part() is None else o.part(), space_s(o.ufl_function_space()), nats(o.ufl_shape))
        if type(o) is Constant:
            return "(TK %d %s %s)" % (o.count(), mesh_s(o.ufl_domain()), nats(o.ufl_shape))
        if isinstance(o, GeometricQuantity):
            return "(TG %s %s %s)" % (name, mesh_s(o._domain), nats(o.ufl_shape))
        return "(TP %s %s %s)" % (name, enc(repr(o)), nats(o.ufl_shape))
    if isinstance(o, BaseFormOperator):
        # C11: the data of a base form operator that is not an operand.  `aux` carries the derivative multi-index; the function
        # space and the argument slots have no place in the model language (covered by the C11 oracle on the implementation only)
        aux = nats(getattr(o, "derivatives", None) or ())
    elif name in uflio.GRADLIKE:
        aux = nats(o.ufl_shape[-1:])
    elif name in uflio.SHAPE_AUX or name not in uflio.KNOWN_OPS:
        try:
            aux = nats(o.ufl_shape)
        except Exception:
            aux = "()"
    else:
        aux = "()"
    return "(O %s %s%s)" % (name, aux, "".join(" " + cser(c, memo) for c in o.ufl_operands))


def sub_s(s):
    if isinstance(s, int):
        return "(si %d)" % s
    if isinstance(s, str):
        return "(ss %s)" % enc(s)
    if isinstance(s, tuple) and all(isinstance(x, int) for x in s):
        return "(st%s)" % "".join(" %d" % x for x in s)
    raise TypeError("subdomain id %r is outside the C12 model" % (s,))


def meta_s(md):
    """metadata items as `canonicalize_metadata` keeps them, for str/int/float/None values (sorted by key, str(value))"""
    items = []
    for k in sorted(md):
        v = md[k]
        if not (isinstance(v, (int, float, str)) or v is None):
            raise TypeError("metadata value %r is outside the C12 model" % (v,))
        items.append("(%s %s)" % (enc(k), enc(repr(v) if (isinstance(v, str) and _strrepr()) else str(v))))
    return "(" + " ".join(items) + ")"


_STRREPR = []


def _strrepr():
    """which canonicalisation of string leaves the tree under test has (str() or, since the repair of C11/C15, repr()); what the
    canonicalisation does is the subject of C11 / C15, here it only has to be rendered as the tree does"""
    if not _STRREPR:
        from ufl.utils.sorting import canonicalize_metadata
        _STRREPR.append(canonicalize_metadata({"k": "a"}) == (("k", "'a'"),))
    return _STRREPR[0]


def integral_s(itg, memo):
    if itg.extra_domain_integral_type_map():
        raise TypeError("multi-domain integrals are outside the C12 model")
    return "(itg %s %s %s %s %s)" % (enc(itg.integral_type()), mesh_s(itg.ufl_domain()), sub_s(itg.subdomain_id()),
                                    meta_s(itg.metadata()), cser(itg.integrand(), memo))


def form_s(integrals, memo):
    return "(form %s)" % " ".join(integral_s(i, memo) for i in integrals)


# ---------------------------------------------------------------------------------------------- pre-hash data -> signature
class _Raw:
    __slots__ = ("s",)

    def __init__(self, s):
        self.s = s

    def __repr__(self):
        return self.s

    __str__ = __repr__


def _dec(a):
    out, i = bytearray(), 0
    while i < len(a):
        if a[i] == "%":
            out.append(int(a[i + 1:i + 3], 16)); i += 3
        else:
            out += a[i].encode(); i += 1
    return out.decode("utf-8")


def sig_parse(s):
    """reply of the driver -> nested python lists ['t', ...]"""
    toks = s.replace("(", " ( ").replace(")", " ) ").split()
    pos = 0

    def rd():
        nonlocal pos
        t = toks[pos]; pos += 1
        if t == "(":
            xs = []
            while toks[pos] != ")":
                xs.append(rd())
            pos += 1
            return xs
        return t
    return rd()


def sig_obj(x):
    """model pre-hash data -> the Python object whose `str` the implementation hashes"""
    tag = x[0]
    if tag == "s":
        return _dec(x[1]) if len(x) > 1 else ""
    if tag == "r":
        return _Raw(_dec(x[1]) if len(x) > 1 else "")
    if tag == "i":
        return int(x[1])
    if tag == "n":
        return None
    if tag == "t":
        return tuple(sig_obj(y) for y in x[1:])
    if tag == "l":
        return [sig_obj(y) for y in x[1:]]
    if tag == "f":
        return "".join(str(sig_obj(y)) for y in x[1:])
    if tag == "h":
        return hashlib.sha512(str(sig_obj(x[1])).encode("utf-8")).digest()
    raise ValueError(tag)


def model_signature(reply):
    """'(ok (h data))' -> hex signature, computed with Python's own `str` and sha512 from the model's data"""
    assert reply.startswith("(ok ")
    t = sig_parse(reply)[1]
    assert t[0] == "h"
    return hashlib.sha512(str(sig_obj(t[1])).encode("utf-8")).hexdigest()


# ---------------------------------------------------------------------------------------------- the global counters
class Gappy:
    """an `itertools.count` that other objects also draw from: strictly increasing counts with random gaps"""

    def __init__(self, start, rng, pgap, maxgap):
        self.n, self.rng, self.pgap, self.maxgap = start, rng, pgap, maxgap

    def __iter__(self):
        return self

    def __next__(self):
        if self.pgap and self.rng.random() < self.pgap:
            self.n += self.rng.randint(1, self.maxgap)     # objects created by someone else in between
        v = self.n
        self.n += 1
        return v


class Regime:
    """state of the five global counters when the program starts, and how much unrelated creation is interleaved"""

    def __init__(self, starts, gapseed=None, pgap=0.0, maxgap=3):
        self.starts = dict(starts)          # index, coeff, const, label, mesh
        self.gapseed, self.pgap, self.maxgap = gapseed, pgap, maxgap

    def describe(self):
        return dict(starts=self.starts, gapseed=self.gapseed, pgap=self.pgap, maxgap=self.maxgap)

    @staticmethod
    def of(d):
        return Regime(d["starts"], d.get("gapseed"), d.get("pgap", 0.0), d.get("maxgap", 3))


class counters:
    """context manager: run a program under a counter regime; the previous counter state is restored afterwards"""

    def __init__(self, regime):
        self.r = regime

    def __enter__(self):
        from ufl.core.multiindex import Index
        from ufl.coefficient import Coefficient
        from ufl.constant import Constant
        from ufl.variable import Label
        from ufl.domain import Mesh
        self.cls = dict(index=Index, coeff=Coefficient, const=Constant, label=Label)
        self.saved = {k: c.__dict__.get("_counter") for k, c in self.cls.items()}
        self.saved_mesh = Mesh._ufl_global_id
        grng = random.Random(self.r.gapseed) if self.r.gapseed is not None else None
        for k, c in self.cls.items():
            if grng is None or not self.r.pgap:
                c._counter = itertools.count(self.r.starts[k])
            else:
                c._counter = Gappy(self.r.starts[k], random.Random(grng.random()), self.r.pgap, self.r.maxgap)
        Mesh._ufl_global_id = self.r.starts["mesh"]
        self.mesh_rng = random.Random(grng.random()) if grng is not None and self.r.pgap else None
        return self

    def other_meshes(self):
        """somebody else creates meshes between two of ours"""
        if self.mesh_rng is not None and self.mesh_rng.random() < self.r.pgap:
            from ufl.domain import Mesh
            Mesh._ufl_global_id += self.mesh_rng.randint(1, self.r.maxgap)

    def __exit__(self, *a):
        from ufl.domain import Mesh
        for k, c in self.cls.items():
            # never fall back to a counter that restarts at 0 in a process that already owns objects
            c._counter = self.saved[k] if self.saved[k] is not None else itertools.count(10 ** 7)
        Mesh._ufl_global_id = max(self.saved_mesh, 10 ** 7)


BOUNDARIES = [0, 1, 5, 7, 8, 9, 10, 11, 95, 97, 98, 99, 100, 101, 996, 998, 999, 1000, 12345]


def regimes(rng, n, gaps=True):
    """regime 0 is the fresh process (all counters 0); the others start near digit boundaries, independently per counter"""
    out = [Regime(dict(index=0, coeff=0, const=0, label=0, mesh=0))]
    while len(out) < n:
        st = {k: rng.choice(BOUNDARIES) for k in ("index", "coeff", "const", "label", "mesh")}
        if gaps and rng.random() < 0.5:
            out.append(Regime(st, gapseed=rng.randrange(1 << 30), pgap=rng.choice([0.2, 0.5]), maxgap=rng.choice([1, 3, 90])))
        else:
            out.append(Regime(st))
    return out


# ---------------------------------------------------------------------------------------------- form programs
def build_form(seed, regime, knobs=None):
    """A form program: a deterministic function of `seed` whose object creations draw from the global counters.
    Returns (form, info).  Everything random comes from random.Random(seed)."""
    import ufl
    import gen
    from utils import LagrangeElement
    knobs = knobs or {}
    rng = random.Random(seed)
    with counters(regime) as C:
        gdim = rng.choice([2, 2, 3])
        G = gen.Gen(rng, gdim=gdim, with_args=rng.random() < 0.5, math=rng.random() < 0.5, compound=rng.random() < 0.4,
                    derivs=rng.random() < 0.3, reuse=0.7, variables=True)
        cell = G.mesh.ufl_cell()
        meshes = [G.mesh]
        for _ in range(rng.choice([0, 1, 1, 2])):
            C.other_meshes()
            meshes.append(ufl.Mesh(LagrangeElement(cell, rng.choice([1, 1, 2]), (gdim,))))
        # more counted terminals, on any of the meshes
        consts, geos, coeffs = [], [], []
        for m in meshes:
            for _ in range(rng.choice([1, 2, 3])):
                consts.append(ufl.Constant(m))
            geos += [ufl.CellVolume(m), ufl.Circumradius(m), ufl.FacetNormal(m)[0], ufl.SpatialCoordinate(m)[gdim - 1]]
            coeffs.append(ufl.Coefficient(ufl.FunctionSpace(m, LagrangeElement(cell, rng.choice([1, 2]), ()))))
        scal = consts + geos + coeffs

        def factor():
            r = rng.random()
            if r < 0.45:
                return rng.choice(scal)
            if r < 0.6:
                a, b = rng.sample(scal, 2)
                return a * b
            if r < 0.7:
                a, b = rng.sample(scal, 2)
                return a + b
            if r < 0.8 and knobs.get("zero_fi", True):
                # a Zero that keeps a free index, inside a conditional
                i = G.index()
                v = rng.choice(G.coeffs[(G.idxdim[i],)])
                c = ufl.conditional(ufl.lt(rng.choice(scal), rng.choice(scal)), 0 * v[i], v[i] * rng.choice(scal))
                return c * v[i]
            return G.expr((), (), rng.randint(1, 3))

        itgs = None
        for _ in range(rng.randint(1, 4)):
            e = factor()
            for _ in range(rng.randint(0, 3)):
                f = factor()
                e = e * f if rng.random() < 0.6 else e + f
            if rng.random() < 0.3:
                e = ufl.variable(e) * rng.choice(scal)
            m = rng.choice(meshes)
            meas = rng.choice([ufl.dx, ufl.dx, ufl.ds, ufl.dS])
            kw = {}
            r = rng.random()
            if r < 0.3:
                kw["subdomain_id"] = rng.choice([0, 1, 2, 7])
            elif r < 0.4:
                kw["subdomain_id"] = rng.choice([(1, 2), (3,), (2, 5)])
            if rng.random() < 0.4:
                kw["metadata"] = rng.choice([{"quadrature_degree": 2}, {"quadrature_degree": 3, "quadrature_rule": "default"}, {"k": "v"}])
            if meas is ufl.dS:
                e = e("+") if rng.random() < 0.5 else ufl.avg(e)
            term = e * meas(domain=m, **kw)
            itgs = term if itgs is None else itgs + term
        form = itgs
    return form, dict(meshes=len(meshes))


def sigof(form):
    """`form.signature()`, or the fact that it raises (two Arguments with one number on different spaces, ...)"""
    try:
        return form.signature()
    except Exception as e:  # noqa
        return "raises:" + type(e).__name__


def count_sets(form):
    """the counts a form contains, per counter, sorted: creation order is the order of the counts"""
    from ufl.classes import Coefficient, Constant, Label, MultiIndex, Zero, Index, GeometricQuantity, Argument
    from ufl.corealg.traversal import unique_pre_traversal
    s = dict(index=set(), coeff=set(), const=set(), label=set(), mesh=set())
    for itg in form.integrals():
        s["mesh"].add(itg.ufl_domain().ufl_id())
        for o in unique_pre_traversal(itg.integrand()):
            if not o._ufl_is_terminal_:
                continue
            if isinstance(o, MultiIndex):
                s["index"].update(i.count() for i in o._indices if isinstance(i, Index))
            elif isinstance(o, Zero):
                s["index"].update(o.ufl_free_indices)
            elif isinstance(o, Label):
                s["label"].add(o.count())
            elif type(o) is Coefficient:
                s["coeff"].add(o.count()); s["mesh"].add(o.ufl_domain().ufl_id())
            elif type(o) is Constant:
                s["const"].add(o.count()); s["mesh"].add(o.ufl_domain().ufl_id())
            elif type(o) is Argument:
                s["mesh"].add(o.ufl_domain().ufl_id())
            elif isinstance(o, GeometricQuantity):
                s["mesh"].add(o._domain.ufl_id())
    return {k: sorted(v) for k, v in s.items()}


def ren_s(ca, cb):
    """the monotone renaming that takes the counts of one build to those of another (same creation order)"""
    parts = []
    for k in ("index", "coeff", "const", "label", "mesh"):
        if len(ca[k]) != len(cb[k]):
            return None
        parts.append("(%s%s)" % ({"index": "idx"}.get(k, k), "".join(" (%d %d)" % p for p in zip(ca[k], cb[k]))))
    return "(ren %s)" % " ".join(parts)


# ---------------------------------------------------------------------------------------------- hash-seed worker
def worker(argv):
    tierseed, first, n, ridx, nreg = (int(x) for x in argv[:5])
    rs = regimes(random.Random(tierseed * 977 + 5), nreg)
    out = []
    for c in range(first, first + n):
        try:
            f, _ = build_form(tierseed * 1000003 + c, rs[ridx])
            out.append("%d %s" % (c, sigof(f)))
        except Exception as e:  # noqa
            out.append("%d ERR %s" % (c, type(e).__name__))
    print("\n".join(out))


if __name__ == "__main__":
    if sys.argv[1] == "worker":
        worker(sys.argv[2:])


# ---------------------------------------------------------------------------------------------- construction histories
# A history is a list of instructions (Model/Renaming.lean `Instr`) that is independent of the counters; it is generated
# once (typed registers, so that no constructor folds or raises) and executed with the real classes under each regime.
OPCLS = ["Indexed", "IndexSum", "Conditional", "LT", "GT", "Sin", "Cos", "Exp", "Abs", "Division", "Power", "ComponentTensor",
         "ListTensor", "PositiveRestricted", "NegativeRestricted", "Conj", "MaxValue", "MinValue"]


def gen_history(rng, size=25, knobs=None):
    """returns (instrs, spec): instrs = list of tuples, spec = [(expr register, itype, mesh register, sub, metadata)]"""
    knobs = knobs or {}
    I = []            # instructions
    ty = []           # per expression register: (kind, shape, frozenset(index registers), extents dict)
    nmesh = rng.choice([1, 2, 2, 3])
    for _ in range(nmesh):
        I.append(("mesh", rng.choice([1, 1, 2])))
    nidx = rng.choice([2, 3, 4])
    dims = {}
    for r in range(nidx):
        I.append(("index",))
        dims[r] = 2

    def push(ins, kind, shape=(), fi=()):
        I.append(ins)
        ty.append((kind, tuple(shape), frozenset(fi)))
        return len(ty) - 1

    scal, vecs = [], []
    for m in range(nmesh):
        for _ in range(rng.choice([1, 2])):
            scal.append(push(("const", m, ()), "e"))
        scal.append(push(("coeff", m, rng.choice([1, 2]), ()), "e"))
        vecs.append(push(("coeff", m, 1, (2,)), "e", (2,)))
        if rng.random() < 0.7:
            vecs.append(push(("const", m, (2,)), "e", (2,)))
        for cls in rng.sample(["CellVolume", "Circumradius", "FacetArea", "CellDiameter"], 2):
            scal.append(push(("geo", cls, m, ()), "e"))
        if rng.random() < 0.5:
            vecs.append(push(("geo", rng.choice(["SpatialCoordinate", "FacetNormal"]), m, (2,)), "e", (2,)))
        if rng.random() < 0.4:
            scal.append(push(("arg", rng.choice([0, 1]), -1, m, 1, ()), "e"))
    lits = [push(("lit", rng.choice([2, 3, -1, 5])), "e"), push(("flt", rng.choice([(1, 2), (3, 2), (-1, 4)])), "e")]
    mis = {}
    prodparts = {}

    def mi_of(slots):
        key = tuple(slots)
        if key not in mis:
            mis[key] = push(("mi",) + key, "mi")
        return mis[key]

    def scalars_with(fi):
        return [r for r in range(len(ty)) if ty[r][0] == "e" and ty[r][1] == () and ty[r][2] == frozenset(fi)]

    for _ in range(size):
        p = rng.random()
        fis = sorted({ty[r][2] for r in range(len(ty)) if ty[r][0] == "e" and ty[r][1] == ()}, key=lambda s: sorted(s))
        fi = rng.choice(fis)
        cands = [r for r in scalars_with(fi) if r not in lits]
        if p < 0.22 and len(cands) >= 1:
            a, b = rng.choice(cands), rng.choice(cands + (lits if not fi and rng.random() < 0.3 else []))
            if rng.random() < 0.5:
                a, b = b, a
            if a in lits and b in lits:
                continue
            push(("sum", a, b), "e", (), fi)
        elif p < 0.5:
            # product of scalars with disjoint free indices (no implicit summation in the raw constructor)
            a = rng.choice([r for r in range(len(ty)) if ty[r][0] == "e" and ty[r][1] == ()])
            share = rng.random() < 0.4      # the raw constructor merges a repeated index (no implicit sum)
            bs = [r for r in range(len(ty)) if ty[r][0] == "e" and ty[r][1] == () and (share or not (ty[r][2] & ty[a][2]))]
            bs = [b for b in bs if not (a in lits and b in lits)]
            if not bs:
                continue
            b = rng.choice(bs)
            r = push(("product", a, b), "e", (), ty[a][2] | ty[b][2])
            prodparts[r] = (ty[a][2], ty[b][2])
        elif p < 0.62:
            v = rng.choice(vecs)
            slot = ("X", rng.randrange(nidx)) if rng.random() < 0.7 else ("F", rng.randrange(2))
            m = mi_of([slot])
            push(("node", "Indexed", (), v, m), "e", (), [slot[1]] if slot[0] == "X" else [])
        elif p < 0.7:
            withfi = [r for r in range(len(ty)) if ty[r][0] == "e" and ty[r][1] == () and ty[r][2]]
            if not withfi:
                continue
            a = rng.choice(withfi)
            i = rng.choice(sorted(ty[a][2]))
            if a in prodparts and not (i in prodparts[a][0] and i in prodparts[a][1]):
                continue      # IndexSum.__new__ would move the sum inside the product
            push(("node", "IndexSum", (), a, mi_of([("X", i)])), "e", (), ty[a][2] - {i})
        elif p < 0.78 and len(cands) >= 2:
            a, b = rng.sample(cands, 2) if not fi else (rng.choice(scalars_with(())), rng.choice(scalars_with(())))
            if ty[a][2] or ty[b][2] or a in lits or b in lits:
                continue
            c = push(("node", rng.choice(["LT", "GT"]), (), a, b), "c")
            t, f = rng.choice(cands), rng.choice(cands)
            if knobs.get("zero_fi", True) and fi and rng.random() < 0.6:
                t = push(("zero", (), tuple((i, 2) for i in sorted(fi))), "z", (), fi)
            if t == f:
                continue
            push(("node", "Conditional", (), c, t, f), "e", (), fi)
        elif p < 0.86 and not fi and cands:
            a = rng.choice(cands)
            push(("node", rng.choice(["Sin", "Cos", "Exp", "Conj"]), (), a), "e")
        elif p < 0.92 and cands:
            a, b = rng.choice(cands), rng.choice([r for r in scalars_with(()) if r not in lits])
            push(("node", "Division", (), a, b), "e", (), fi)
        elif p < 0.96 and not fi and cands:
            push(("node", "Power", (), rng.choice(cands), lits[0]), "e")
        elif cands and not fi:
            a = rng.choice(cands)
            push(("variable", a), "e", (), fi)
    closed = [r for r in range(len(ty)) if ty[r][0] == "e" and ty[r][1] == () and not ty[r][2] and r not in lits]
    spec = []
    for _ in range(rng.randint(1, 3)):
        sub = rng.choice(["everywhere", "everywhere", 1, 3, (1, 2)])
        md = rng.choice([{}, {}, {"quadrature_degree": 2}])
        spec.append((rng.choice(closed[-max(3, len(closed) // 2):]), rng.choice(["cell", "cell", "exterior_facet"]), rng.randrange(nmesh), sub, md))
    return I, spec


class Diverged(Exception):
    pass


def run_history(instrs, spec, regime):
    """execute a history with the real classes under a counter regime.  Returns (wire instructions, wire nu, registers, form)."""
    import ufl
    from ufl import classes as K
    from utils import LagrangeElement
    meshes, idxs, regs = [], [], []
    nu = dict(idx=[], coeff=[], const=[], label=[], mesh=[])
    wire = []
    cell = ufl.triangle

    def elem(deg, shape):
        return LagrangeElement(cell, deg, tuple(shape))

    with counters(regime) as C:
        for ins in instrs:
            op = ins[0]
            if op == "mesh":
                C.other_meshes()
                ce = elem(ins[1], (2,))
                m = ufl.Mesh(ce)
                meshes.append(m); nu["mesh"].append(m.ufl_id())
                wire.append("(mesh %s 2 2)" % enc(repr(ce)))
            elif op == "index":
                i = ufl.Index()
                idxs.append(i); nu["idx"].append(i.count())
                wire.append("(index)")
            elif op == "coeff":
                el = elem(ins[2], ins[3])
                f = ufl.Coefficient(ufl.FunctionSpace(meshes[ins[1]], el))
                regs.append(f); nu["coeff"].append(f.count())
                wire.append("(coeff %d %s %s)" % (ins[1], enc(repr(el)), nats(ins[3])))
            elif op == "const":
                c = ufl.Constant(meshes[ins[1]], tuple(ins[2]))
                regs.append(c); nu["const"].append(c.count())
                wire.append("(const %d %s)" % (ins[1], nats(ins[2])))
            elif op == "geo":
                g = getattr(K, ins[1])(meshes[ins[2]])
                if tuple(g.ufl_shape) != tuple(ins[3]):
                    raise Diverged("geo shape")
                regs.append(g)
                wire.append("(geo %s %d %s)" % (ins[1], ins[2], nats(ins[3])))
            elif op == "arg":
                el = elem(ins[4], ins[5])
                a = ufl.Argument(ufl.FunctionSpace(meshes[ins[3]], el), ins[1], None if ins[2] < 0 else ins[2])
                regs.append(a)
                wire.append("(arg %d %d %d %s %s)" % (ins[1], ins[2], ins[3], enc(repr(el)), nats(ins[5])))
            elif op == "lit":
                regs.append(K.IntValue(ins[1])); wire.append("(lit %d)" % ins[1])
            elif op == "flt":
                n, d = ins[1]
                regs.append(K.FloatValue(n / d)); wire.append("(flt %d %d)" % (n, d))
            elif op == "mi":
                t = tuple(K.FixedIndex(v) if k == "F" else idxs[v] for k, v in ins[1:])
                regs.append(K.MultiIndex(t))
                wire.append("(mi%s)" % "".join(" (%s %d)" % s for s in ins[1:]))
            elif op == "zero":
                ps = sorted((idxs[r].count(), d) for r, d in ins[2])
                regs.append(K.Zero(tuple(ins[1]), tuple(p[0] for p in ps), tuple(p[1] for p in ps)))
                wire.append("(zero %s (%s))" % (nats(ins[1]), " ".join("(%d %d)" % p for p in ins[2])))
            elif op == "variable":
                v = ufl.variable(regs[ins[1]])
                if not isinstance(v, K.Variable) or v.ufl_operands[0] is not regs[ins[1]]:
                    raise Diverged("variable")
                regs.append(v); nu["label"].append(v.ufl_operands[1].count())
                wire.append("(variable %d)" % ins[1])
            elif op in ("sum", "product"):
                a, b = regs[ins[1]], regs[ins[2]]
                r = (K.Sum if op == "sum" else K.Product)(a, b)
                ops = r.ufl_operands if type(r).__name__ == op.capitalize() else ()
                if not (len(ops) == 2 and ((ops[0] is a and ops[1] is b) or (ops[0] is b and ops[1] is a))):
                    raise Diverged(op + " folded")
                regs.append(r)
                wire.append("(%s %d %d)" % (op, ins[1], ins[2]))
            elif op == "node":
                cls = getattr(K, ins[1])
                args = [regs[r] for r in ins[3:]]
                r = cls(*args)
                if type(r).__name__ != ins[1] or len(r.ufl_operands) != len(args) or any(x is not y for x, y in zip(r.ufl_operands, args)):
                    raise Diverged(ins[1] + " folded")
                regs.append(r)
                wire.append("(node %s %s%s)" % (ins[1], nats(ins[2]), "".join(" %d" % x for x in ins[3:])))
            else:
                raise ValueError(op)
        form = None
        for (r, it, m, sub, md) in spec:
            meas = ufl.Measure({"cell": "dx", "exterior_facet": "ds"}[it], domain=meshes[m], subdomain_id=sub, metadata=md or None)
            term = regs[r] * meas
            form = term if form is None else form + term
    nus = "(nu %s)" % " ".join("(%s%s)" % (k, "".join(" %d" % c for c in nu[k])) for k in ("idx", "coeff", "const", "label", "mesh"))
    return "(prog %s)" % " ".join(wire), nus, regs, form
