"""Seeded, type-directed generators of UFL expressions (DESIGN.md 3.2.2).

`Gen(rng).expr(shape, fi, depth)` returns an expression of exactly the requested shape and set of free
indices, built through the *public* operators.  Leaves come from a small per-case pool (coefficients of
several shapes, constants, literals, spatial coordinate) and free indices from a small pool of Index
objects, so the same Index object is re-used in several scopes by construction."""
from __future__ import annotations

import random
from fractions import Fraction


class Gen:
    def __init__(self, rng: random.Random, gdim=2, with_args=False, math=True, compound=True, derivs=False,
                 cond=True, variables=True, reuse=0.7, division=True, literals=True, restricted=False, powers=True,
                 tensor_cond=False, base_elements=False, minmax=True):
        import ufl
        from utils import LagrangeElement
        if base_elements:      # utils.FiniteElement itself: its repr evaluates back to the same type
            from utils import FiniteElement
            def LagrangeElement(cell, degree, shape=()):
                return FiniteElement("Lagrange", cell, degree, shape, ufl.identity_pullback, ufl.H1)
        self.ufl = ufl
        self.rng = rng
        self.gdim = gdim
        cell = {1: ufl.interval, 2: ufl.triangle, 3: ufl.tetrahedron}[gdim]
        self.mesh = ufl.Mesh(LagrangeElement(cell, 1, (gdim,)))
        self.opts = dict(math=math, compound=compound, derivs=derivs, cond=cond, variables=variables, division=division,
                         literals=literals, restricted=restricted, powers=powers, tensor_cond=tensor_cond, minmax=minmax)
        self.reuse = reuse
        self.spaces = {}
        self.coeffs = {}     # shape -> [Coefficient]
        self.idxpool = [ufl.Index() for _ in range(4)]
        self.idxdim = {i: d for i, d in zip(self.idxpool, [2, 3, 2, 3])}   # every Index object has one extent
        for sh in [(), (), (2,), (3,), (gdim,), (2, 2), (3, 3), (gdim, gdim), (2, 3), (3, 2), (2, 2, 2)]:
            V = ufl.FunctionSpace(self.mesh, LagrangeElement(cell, 2, sh))
            self.coeffs.setdefault(sh, []).append(ufl.Coefficient(V))
        self.consts = {(): [ufl.Constant(self.mesh)], (gdim,): [ufl.VectorConstant(self.mesh)]}
        self.x = ufl.SpatialCoordinate(self.mesh)
        self.args = {}
        if with_args:
            for sh in [(), (gdim,)]:
                V = ufl.FunctionSpace(self.mesh, LagrangeElement(cell, 1, sh))
                self.args[sh] = [ufl.TestFunction(V), ufl.TrialFunction(V)]
        self.stats = {}

    # ---- bookkeeping
    def _count(self, k):
        self.stats[k] = self.stats.get(k, 0) + 1

    def index(self, avoid=(), dim=None):
        """an Index object: mostly from the small pool (re-use across scopes), sometimes fresh"""
        cand = [i for i in self.idxpool if i not in avoid and (dim is None or self.idxdim[i] == dim)]
        if cand and self.rng.random() < self.reuse:
            return self.rng.choice(cand)
        i = self.ufl.Index()
        self.idxdim[i] = dim if dim is not None else self.rng.choice([2, 3])
        return i

    def terminals(self):
        out = [c for cs in self.coeffs.values() for c in cs] + [c for cs in self.consts.values() for c in cs] + [self.x]
        out += [a for as_ in self.args.values() for a in as_]
        return out

    def literal(self):
        r = self.rng.random()
        if r < 0.4:
            return self.ufl.as_ufl(self.rng.choice([2, 3, -1, 1, 0, 5, -2]))
        return self.ufl.as_ufl(self.rng.choice([0.5, 1.5, -0.25, 2.0, 0.75, 4.0]))

    def dim_ok(self, sh):
        return all(d in (2, 3) for d in sh)

    # ---- leaves
    def leaf(self, shape, fi):
        ufl, rng = self.ufl, self.rng
        fi = tuple(fi)
        if fi:
            # tensor leaf indexed by the free indices (in a random order); extents follow the indices
            order = list(fi)
            rng.shuffle(order)
            want = tuple(self.idxdim[i] for i in order) + tuple(shape)
            if want in self.coeffs and rng.random() < 0.7:
                c = rng.choice(self.coeffs[want])
                self._count("leaf_indexed")
                return c[tuple(order) + (slice(None),) * len(shape)] if shape else c[tuple(order)]
            e = None
            for i in order:
                n = self.idxdim[i]
                vs = self.coeffs.get((n,))
                v = rng.choice(vs)[i]
                e = v if e is None else e * v
            if shape:
                e = e * self.leaf(shape, ())
            return e
        if shape == ():
            r = rng.random()
            if r < 0.12 and self.opts["literals"]:
                self._count("leaf_literal")
                return self.literal()
            if r < 0.2:
                return rng.choice(self.consts[()])
            if r < 0.3:
                return self.x[rng.randrange(self.gdim)]
            if r < 0.45:
                sh = rng.choice([s for s in self.coeffs if s])
                c = rng.choice(self.coeffs[sh])
                self._count("leaf_fixed_index")
                return c[tuple(rng.randrange(d) for d in sh)]
            if r < 0.5 and () in self.args:
                return rng.choice(self.args[()])
            return rng.choice(self.coeffs[()])
        if shape in self.coeffs and rng.random() < 0.8:
            if shape == (self.gdim,) and rng.random() < 0.15:
                return self.x
            if shape in self.consts and rng.random() < 0.15:
                return rng.choice(self.consts[shape])
            if shape in self.args and rng.random() < 0.2:
                return rng.choice(self.args[shape])
            return rng.choice(self.coeffs[shape])
        # build from scalars
        self._count("leaf_listtensor")
        if len(shape) == 1:
            return ufl.as_vector([self.leaf((), ()) for _ in range(shape[0])])
        return ufl.as_tensor([self.leaf(shape[1:], ()) for _ in range(shape[0])])

    def nonzero(self, depth):
        """a scalar expression that is >= 1 for all data (safe denominator / log argument)"""
        e = self.expr((), (), depth - 1)
        return e * e + 1

    def condition(self, depth):
        ufl, rng = self.ufl, self.rng
        a = self.expr((), (), depth - 1)
        b = self.expr((), (), depth - 1)
        c = rng.choice([ufl.lt, ufl.gt, ufl.le, ufl.ge])(a, b)
        r = rng.random()
        if r < 0.15:
            c = ufl.And(c, ufl.lt(self.expr((), (), 0), self.expr((), (), 0)))
        elif r < 0.3:
            c = ufl.Or(c, ufl.gt(self.expr((), (), 0), self.expr((), (), 0)))
        elif r < 0.4:
            c = ufl.Not(c)
        return c

    # ---- main entry
    def expr(self, shape, fi=(), depth=3):
        ufl, rng = self.ufl, self.rng
        shape, fi = tuple(shape), tuple(fi)
        if depth <= 0 or rng.random() < 0.08:
            return self.leaf(shape, fi)
        for _ in range(8):
            try:
                e = self._try(shape, fi, depth)
            except (ValueError, IndexError, KeyError, TypeError, AssertionError, ZeroDivisionError):
                self._count("rejected")
                continue
            if e is None:
                continue
            try:
                if not isinstance(e, ufl.core.expr.Expr):
                    e = ufl.as_ufl(e)
                ok = tuple(e.ufl_shape) == shape and set(e.ufl_free_indices) == {i.count() for i in fi}
            except Exception:
                ok = False
            if ok:
                return e
            self._count("wrong_type")
        return self.leaf(shape, fi)

    def _try(self, shape, fi, depth):
        ufl, rng, o = self.ufl, self.rng, self.opts
        d = depth - 1
        E = self.expr
        prods = []
        # productions valid for every (shape, fi)
        prods += [("sum", 3), ("scale", 2), ("neg", 1)]
        if o["cond"] and (shape == () or o["tensor_cond"]):
            prods.append(("conditional", 1))
        if o["variables"]:
            prods.append(("variable", 1))
        if shape == ():
            prods += [("product", 3), ("contract", 2), ("index_tensor", 2), ("shadow", 1), ("own_perm", 1)]
            if o["division"]:
                prods.append(("division", 1))
            if o["powers"]:
                prods.append(("power", 1))
            if not fi:
                prods += [("abs", 1)] + ([("minmax", 1)] if o["minmax"] else [])
                if o["math"]:
                    prods.append(("mathfn", 2))
                if o["compound"]:
                    prods += [("dot", 1), ("inner", 1), ("tr", 1), ("det", 1), ("det4", 0.3)]
                if o["derivs"]:
                    prods += [("div", 1), ("dx", 1)]
        else:
            prods += [("component_tensor", 3), ("list_tensor", 2)]
            if not fi or True:
                prods.append(("slice", 1))
            if o["compound"] and not fi:
                if len(shape) == 1:
                    prods += [("matvec", 2), ("dotmv", 1)]
                    if shape == (3,):
                        prods.append(("cross", 1))
                    if shape == (2,):
                        prods.append(("perp", 1))
                if len(shape) == 2:
                    prods += [("outer", 1), ("transpose", 1), ("matmat", 1)]
                    if shape[0] == shape[1]:
                        prods += [("symskewdev", 1), ("identity", 1)]
                        if o["division"] and shape[0] == 2:
                            prods.append(("inv", 1))
            if o["derivs"] and not fi and shape[-1] == self.gdim:
                prods.append(("grad", 2))
        names, weights = zip(*prods)
        p = rng.choices(names, weights)[0]
        self._count("p_" + p)
        if p == "sum":
            a, b = E(shape, fi, d), E(shape, fi, d)
            return a + b if rng.random() < 0.7 else a - b
        if p == "scale":
            s = E((), (), d)
            a = E(shape, fi, d)
            return s * a if rng.random() < 0.6 else a * s
        if p == "neg":
            return -E(shape, fi, d)
        if p == "conditional":
            return ufl.conditional(self.condition(d), E(shape, fi, d), E(shape, fi, d))
        if p == "variable":
            return ufl.variable(E(shape, fi, d))
        if p == "product":
            k = rng.randint(0, len(fi))
            fs = list(fi)
            rng.shuffle(fs)
            return E((), fs[:k], d) * E((), fs[k:], d)
        if p == "contract":      # implicit summation over a repeated index:  a_{..i} * b_{..i}
            i = self.index(avoid=fi)
            k = rng.randint(0, len(fi))
            fs = list(fi)
            rng.shuffle(fs)
            self._count("implicit_sum")
            return E((), fs[:k] + [i], d) * E((), fs[k:] + [i], d)
        if p == "shadow":
            # the same Index object bound by an inner component tensor *and* used (summed) outside it:
            #   sum_i  as_tensor(b_i, i)[k] * c_i * d_i      (inner tensor read at a fixed component)
            i = self.index(avoid=fi)
            n = self.idxdim[i]
            inner = ufl.as_tensor(E((), tuple(fi) + (i,), d) / self.nonzero(0), (i,))
            self._count("shadowed_index")
            return (inner[rng.randrange(n)] * E((), (i,), d)) * self.leaf((), (i,))
        if p == "own_perm":
            # index a component tensor with its *own* index objects in permuted order, then contract
            i = self.index(avoid=fi)
            j = self.index(avoid=tuple(fi) + (i,), dim=self.idxdim[i])
            body = E((), tuple(fi) + (i, j), d)
            if rng.random() < 0.5:
                body = body + self.leaf((), tuple(fi) + (i, j))
            T = ufl.as_tensor(body, (i, j))
            self._count("own_indices_permuted")
            return T[j, i] * self.leaf((), (i, j))
        if p == "det4":
            rows = [[self.leaf((), ()) for _ in range(4)] for _ in range(4)]
            A = ufl.as_matrix(rows)
            return ufl.det(A) if rng.random() < 0.6 else ufl.inv(A + 40 * ufl.Identity(4))[rng.randrange(4), rng.randrange(4)]
        if p == "index_tensor":  # index a generated tensor with free + fixed indices
            n_fixed = rng.randint(0, 2) if fi else rng.randint(1, 2)
            slots = list(fi) + [None] * n_fixed
            rng.shuffle(slots)
            sh = tuple(rng.choice([2, 3]) if s is None else self.idxdim[s] for s in slots)
            t = E(sh, (), d)
            key = tuple(rng.randrange(sh[k]) if s is None else s for k, s in enumerate(slots))
            return t[key]
        if p == "division":
            return E((), fi, d) / self.nonzero(d)
        if p == "power":
            if fi:
                return None
            return E((), (), d) ** rng.choice([2, 3, 2, 1, 0])
        if p == "abs":
            return abs(E((), (), d))
        if p == "minmax":
            return rng.choice([ufl.max_value, ufl.min_value])(E((), (), d), E((), (), d))
        if p == "mathfn":
            f = rng.choice(["sin", "cos", "exp", "sqrt", "ln", "tanh", "atan", "cosh"])
            if f in ("sqrt", "ln"):
                return getattr(ufl, f)(self.nonzero(d))
            if f in ("exp", "cosh"):
                return getattr(ufl, f)(E((), (), 0))
            return getattr(ufl, f)(E((), (), d))
        if p == "dot":
            n = rng.choice([2, 3])
            return ufl.dot(E((n,), (), d), E((n,), (), d))
        if p == "inner":
            sh = rng.choice([(2,), (3,), (2, 2), (2, 3)])
            return ufl.inner(E(sh, (), d), E(sh, (), d))
        if p == "tr":
            n = rng.choice([2, 3])
            return ufl.tr(E((n, n), (), d))
        if p == "det":
            n = rng.choice([2, 2, 3])
            return ufl.det(E((n, n), (), d))
        if p == "div":
            return ufl.div(E((self.gdim,), (), d))
        if p == "dx":
            return E((), (), d).dx(rng.randrange(self.gdim))
        if p == "component_tensor":
            # as_tensor(e_{i..}, (i..)) with indices from the pool: binds them; fi stay free
            idx = []
            for n in shape:
                idx.append(self.index(avoid=tuple(fi) + tuple(idx), dim=n))
            body = E((), tuple(fi) + tuple(idx), d)
            return ufl.as_tensor(body, tuple(idx))
        if p == "list_tensor":
            rows = [E(shape[1:], fi, d) for _ in range(shape[0])]
            return ufl.as_tensor(rows)
        if p == "slice":
            # take a slice of a higher-rank tensor:  T[k, :]  /  T[:, k] / T[..., k]
            n = rng.choice([2, 3])
            pos = rng.randrange(len(shape) + 1)
            sh = shape[:pos] + (n,) + shape[pos:]
            t = E(sh, fi, d)
            key = (slice(None),) * pos + (rng.randrange(n),) + (slice(None),) * (len(shape) - pos)
            if rng.random() < 0.3 and pos == 0:
                key = (key[0], Ellipsis)
            return t[key]
        if p == "matvec":
            m = rng.choice([2, 3])
            return E((shape[0], m), (), d) * E((m,), (), d)
        if p == "dotmv":
            m = rng.choice([2, 3])
            return ufl.dot(E((shape[0], m), (), d), E((m,), (), d))
        if p == "cross":
            return ufl.cross(E((3,), (), d), E((3,), (), d))
        if p == "perp":
            return ufl.perp(E((2,), (), d))
        if p == "outer":
            return ufl.outer(E((shape[0],), (), d), E((shape[1],), (), d))
        if p == "transpose":
            return E((shape[1], shape[0]), (), d).T
        if p == "matmat":
            m = rng.choice([2, 3])
            return E((shape[0], m), (), d) * E((m, shape[1]), (), d)
        if p == "symskewdev":
            return rng.choice([ufl.sym, ufl.skew, ufl.dev])(E(shape, (), d))
        if p == "identity":
            return ufl.Identity(shape[0]) * E((), (), d) + E(shape, (), d)
        if p == "inv":
            a = E(shape, (), 0)
            return ufl.inv(a + ufl.Identity(2) * 50)
        if p == "grad":
            return ufl.grad(E(shape[:-1], (), d))
        return None

class ValueEnv:
    """Exact random values for the terminals of a Gen pool, as a UFL `mapping` and as wire-format entries."""

    def __init__(self, rng, gen: Gen, callables=False):
        import ufl
        self.rng = rng
        self.gen = gen
        self.point = tuple(Fraction(rng.randint(-4, 4), rng.choice([1, 2, 4])) for _ in range(gen.gdim))
        self.vals = {}      # terminal -> nested tuple of Fractions
        self.jets = {}      # terminal -> {derivs tuple: nested tuple}
        self.callable = set()
        for t in gen.terminals():
            if isinstance(t, ufl.classes.SpatialCoordinate):
                continue
            self.vals[t] = self._rand(t.ufl_shape)
            if callables and rng.random() < 0.7 and not isinstance(t, (ufl.Constant,)):
                self.callable.add(t)
                self.jets[t] = {}
        self.x = gen.x

    def _r(self):
        return Fraction(self.rng.randint(-6, 6), self.rng.choice([1, 1, 2, 4]))

    def _rand(self, shape):
        if not shape:
            return self._r()
        return tuple(self._rand(shape[1:]) for _ in range(shape[0]))

    def jet(self, t, derivs):
        """derivative jets are symmetric in the order of differentiation (smooth fields)"""
        d = self.jets.setdefault(t, {})
        derivs = tuple(sorted(derivs))
        if derivs not in d:
            d[derivs] = self._rand(t.ufl_shape)
        return d[derivs]

    def mapping(self):
        m = {}
        for t, v in self.vals.items():
            if t in self.callable:
                m[t] = (lambda t, v: (lambda x, derivatives=(): v if not derivatives else self.jet(t, tuple(derivatives))))(t, v)
            else:
                m[t] = v
        return m

    @staticmethod
    def _flat(v, prefix=()):
        if isinstance(v, tuple):
            for k, w in enumerate(v):
                yield from ValueEnv._flat(w, prefix + (k,))
        else:
            yield prefix, v

    def wire(self):
        """(V key comp n d) / (J key comp derivs n d) entries; must be called after evaluation so that all jets queried exist"""
        import uflio
        out = []
        for t, v in self.vals.items():
            k = uflio.enc(repr(t))
            for c, q in self._flat(v):
                out.append("(V %s %s %d %d)" % (k, uflio.nats(c), q.numerator, q.denominator))
        for t, d in self.jets.items():
            k = uflio.enc(repr(t))
            import itertools
            for ds0, v in d.items():
                for ds in sorted(set(itertools.permutations(ds0))):
                    for c, q in self._flat(v):
                        out.append("(J %s %s %s %d %d)" % (k, uflio.nats(c), uflio.nats(ds), q.numerator, q.denominator))
        # spatial coordinate: value = the point, first derivative = identity, higher = 0 (ufl_evaluate)
        k = uflio.enc(repr(self.x))
        for i, q in enumerate(self.point):
            out.append("(V %s (%d) %d %d)" % (k, i, q.numerator, q.denominator))
            for j in range(len(self.point)):
                out.append("(J %s (%d) (%d) %d 1)" % (k, i, j, 1 if i == j else 0))
        return "(" + " ".join(out) + ")"
