"""UFL expression  ->  S-expression wire format (DESIGN.md 3.2.1).  The only place that touches UFL object internals."""
import re
from fractions import Fraction

_SAFE = re.compile(r"[A-Za-z0-9_.\-]")


def enc(s: str) -> str:
    out = []
    for ch in s:
        if _SAFE.match(ch):
            out.append(ch)
        else:
            b = ch.encode("utf-8")
            out.append("".join("%%%02x" % x for x in b))
    return "".join(out)


def nats(xs):
    return "(" + " ".join(str(int(x)) for x in xs) + ")"


GRADLIKE = {"Grad", "ReferenceGrad", "NablaGrad"}
SHAPE_AUX = {"ReferenceValue", "Curl", "ReferenceCurl", "NablaDiv", "Div", "ReferenceDiv", "CellAvg", "FacetAvg", "ExprList", "ExprMapping",
             "CoefficientDerivative", "CoordinateDerivative", "VariableDerivative", "Cross", "Perp", "Inverse", "Cofactor", "Deviatoric", "Skew", "Sym",
             "Transposed", "Outer", "Dot", "Interpolate", "ExternalOperator", "BaseFormOperator"}


def frac(x):
    f = Fraction(x)   # exact for int/float
    return f.numerator, f.denominator


def key_atoms(k) -> str:
    """a sort key (nested tuples of ints, strs and objects that Python compares with their own `<`) flattened to the
    `KeyAtom` list of Model/Syntax.lean: int -> (N v), str -> (S v), any other object -> (S repr).  Flattening keeps the
    order of two keys of one layout; objects are represented by their repr (equal objects, equal reprs)"""
    out = []
    def go(x):
        if isinstance(x, (tuple, list)):
            for y in x:
                go(y)
        elif isinstance(x, bool) or not isinstance(x, (int, str)):
            out.append("(S %s)" % enc(repr(x)))
        elif isinstance(x, int):
            out.append("(N %d)" % x)
        else:
            out.append("(S %s)" % enc(x))
    go(k)
    return " ".join(out)


def domain_key(o):
    """` (K ...)` suffix of a terminal: the `_ufl_sort_key_()` of the domain of a Constant / geometric quantity (what the
    numeric comparators of ufl/sorting.py compare), empty for every other terminal"""
    from ufl.classes import Constant, GeometricQuantity
    try:
        if isinstance(o, Constant):
            d = o.ufl_domain()
        elif isinstance(o, GeometricQuantity):
            d = o._domain
        else:
            return ""
        atoms = key_atoms(d._ufl_sort_key_())
    except Exception:
        return ""
    return " (K %s)" % atoms if atoms else ""


def ser(o, memo=None) -> str:
    """serialise; memo shares work across the DAG"""
    if memo is None:
        memo = {}
    k = id(o)
    hit = memo.get(k)
    if hit is not None:
        return hit[1]
    r = _ser(o, memo)
    memo[k] = (o, r)       # holding the object keeps its id from being re-used while the memo lives
    return r


def _ser(o, memo):
    from ufl.classes import (IntValue, FloatValue, ComplexValue, Zero, MultiIndex, FixedIndex, Index, Label, Argument)
    name = type(o).__name__ if not hasattr(o, "_ufl_class_") else o._ufl_class_.__name__
    if o._ufl_is_terminal_:
        if isinstance(o, IntValue):
            return "(I %d)" % int(o._value)
        if isinstance(o, FloatValue):
            return "(R %d %d)" % frac(o._value)
        if isinstance(o, ComplexValue):
            a, b = frac(o._value.real), frac(o._value.imag)
            return "(C %d %d %d %d)" % (a + b)
        if isinstance(o, Zero):
            return "(Z %s (%s))" % (nats(o.ufl_shape), " ".join("(%d %d)" % (c, d) for c, d in zip(o.ufl_free_indices, o.ufl_index_dimensions)))
        if isinstance(o, MultiIndex):
            return "(M%s)" % "".join(" (F %d)" % int(i) if isinstance(i, FixedIndex) else " (X %d)" % i.count() for i in o._indices)
        count, part = 0, -1
        if isinstance(o, Argument):
            count = o.number()
            part = -1 if o.part() is None else o.part()
        elif hasattr(o, "count") and callable(o.count):
            try:
                count = o.count()
            except Exception:
                count = 0
        shape = () if isinstance(o, Label) else o.ufl_shape
        return "(T %s %s %s %d %d%s)" % (name, enc(repr(o)), nats(shape), count, part, domain_key(o))
    if name in GRADLIKE:
        aux = nats(o.ufl_shape[-1:])
    elif name in SHAPE_AUX or name not in KNOWN_OPS:
        try:
            aux = nats(o.ufl_shape)
        except Exception:
            aux = "()"
    else:
        aux = "()"
    return "(O %s %s%s)" % (name, aux, "".join(" " + ser(c, memo) for c in o.ufl_operands))


KNOWN_OPS = set("""Indexed ListTensor ComponentTensor Variable Sum Product Division Power Abs Conj Real Imag ExprList ExprMapping
CoefficientDerivative CoordinateDerivative VariableDerivative Grad ReferenceGrad Div ReferenceDiv NablaGrad NablaDiv Curl ReferenceCurl
EQ NE LE GE LT GT AndCondition OrCondition NotCondition Conditional MinValue MaxValue IndexSum PositiveRestricted NegativeRestricted
Transposed Outer Inner Dot Perp Cross Trace Determinant Inverse Cofactor Deviatoric Skew Sym CellAvg FacetAvg
Sqrt Exp Ln Cos Sin Tan Cosh Sinh Tanh Acos Asin Atan Atan2 Erf BesselJ BesselY BesselI BesselK ReferenceValue""".split())


# ---- canonicalisation of replies: alpha-rename index and label counts by first occurrence ----
_TOK = re.compile(r"\(X (\d+)\)|\(T Label Label%28(\d+)%29 \(\) (\d+) -1\)")


def alpha(s: str) -> str:
    """rename free-index counts (and label counts) by order of first occurrence, left to right;
    Zero free-index annotations `(c d)` are renamed consistently when they mention a seen count."""
    imap, lmap = {}, {}
    def rep(m):
        if m.group(1) is not None:
            c = m.group(1)
            if c not in imap:
                imap[c] = str(len(imap))
            return "(X i%s)" % imap[c]
        c = m.group(2)
        if c not in lmap:
            lmap[c] = str(len(lmap))
        return "(T Label Label%%28L%s%%29 () L%s -1)" % (lmap[c], lmap[c])
    return _TOK.sub(rep, s)
