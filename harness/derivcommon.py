"""Shared pieces of the derivative oracles (C02, C03, C04): smooth random fields with exact derivatives as UFL `mapping`
callables, point evaluation of expanded expressions, finite differences with a smoothness guard."""
import itertools, math, random, warnings


def comps(shape):
    return list(itertools.product(*[range(int(n)) for n in shape]))


class Field:
    """a quadratic polynomial per component: a + b.x + x^T C x, with exact derivatives of every order"""

    def __init__(self, rng, shape, gdim, scale=1.0, positive=False):
        self.shape, self.gdim = tuple(shape), gdim
        self.c = {}
        for k in comps(shape):
            a = rng.uniform(0.6, 1.6) if positive else rng.uniform(-1.5, 1.5)
            b = [rng.uniform(-0.4, 0.4) * scale for _ in range(gdim)]
            C = [[rng.uniform(-0.2, 0.2) * scale for _ in range(gdim)] for _ in range(gdim)]
            C = [[(C[i][j] + C[j][i]) / 2 for j in range(gdim)] for i in range(gdim)]
            self.c[k] = (a, b, C)

    def comp(self, k, x, d=()):
        a, b, C = self.c[k]
        g = self.gdim
        if len(d) == 0:
            return a + sum(b[i] * x[i] for i in range(g)) + sum(C[i][j] * x[i] * x[j] for i in range(g) for j in range(g))
        if len(d) == 1:
            i = d[0]
            return b[i] + 2 * sum(C[i][j] * x[j] for j in range(g))
        if len(d) == 2:
            return 2 * C[d[0]][d[1]]
        return 0.0

    def __call__(self, x, derivatives=()):
        d = tuple(derivatives)
        def nest(sh, pre=()):
            if not sh:
                return self.comp(pre, x, d)
            return tuple(nest(sh[1:], pre + (i,)) for i in range(sh[0]))
        return nest(self.shape)


class Combo:
    """a + s*b for two callables (perturbed field)"""
    def __init__(self, a, b, s):
        self.a, self.b, self.s = a, b, s
    def __call__(self, x, derivatives=()):
        va, vb = self.a(x, derivatives), self.b(x, derivatives)
        def add(p, q):
            if isinstance(p, tuple):
                return tuple(add(u, v) for u, v in zip(p, q))
            return p + self.s * q
        return add(va, vb)


def complete(mapping, e, rng, gdim):
    """give every coefficient / constant of e that has no data yet a random smooth field / value (UFL's point evaluation
    does not terminate on an unmapped coefficient)"""
    import ufl
    from ufl.algorithms.analysis import extract_type
    for t in extract_type(e, ufl.classes.Coefficient):
        if t not in mapping:
            mapping[t] = Field(rng, t.ufl_shape, gdim)
    for t in extract_type(e, ufl.classes.Constant):
        if t not in mapping:
            def nest(sh):
                return tuple(nest(sh[1:]) for _ in range(sh[0])) if sh else rng.uniform(0.5, 1.5)
            mapping[t] = nest(tuple(t.ufl_shape))
    return mapping


def evaluate(e, x, mapping):
    """all components of a closed expression as a flat list of floats (derivatives expanded first by UFL itself)"""
    import ufl
    from ufl.algorithms.analysis import extract_type
    for t in list(extract_type(e, ufl.classes.Coefficient)) + list(extract_type(e, ufl.classes.Constant)):
        if t not in mapping:
            raise KeyError("no data for %s" % t)
    with warnings.catch_warnings():
        warnings.simplefilter("ignore")
        return [float(e(x, mapping, c)) for c in comps(e.ufl_shape)]


def close(a, b, tol=2e-5):
    return all(abs(p - q) <= tol * max(1.0, abs(p), abs(q)) for p, q in zip(a, b)) and len(a) == len(b)


def fd(fun, h=1e-4):
    """central difference of a list-valued function of a real parameter, with a smoothness guard:
    returns (derivative, ok) where ok is False when two step sizes disagree (a kink or a pole nearby)"""
    def cd(hh):
        p, m = fun(hh), fun(-hh)
        return [(u - v) / (2 * hh) for u, v in zip(p, m)]
    d1, d2 = cd(h), cd(h / 4)
    ok = all(abs(u - v) <= 1e-5 * max(1.0, abs(u), abs(v)) for u, v in zip(d1, d2)) and all(math.isfinite(u) for u in d1 + d2)
    return d2, ok


def only_terminal_derivatives(e):
    """C03 normal form: Grad / ReferenceGrad act on terminals (or chains of Grad of a terminal) only, no other derivative nodes remain"""
    from ufl.classes import Grad, ReferenceGrad, Derivative, Terminal
    from ufl.corealg.traversal import unique_pre_traversal
    for o in unique_pre_traversal(e):
        if isinstance(o, (Grad, ReferenceGrad)):
            f = o.ufl_operands[0]
            while isinstance(f, (Grad, ReferenceGrad)):
                f = f.ufl_operands[0]
            if not isinstance(f, Terminal):
                return False
        elif isinstance(o, Derivative):
            return False
    return True
