"""C25 Sobolev space comparisons form a consistent partial order.
Tie: translator (names/parents/_order table -> Gen/Sobolev.lean) + exhaustive correspondence of the six operators and
element membership between the Lean model (lean/Drivers/C25.lean) and the live classes over a finite, complete domain."""
import itertools
import common
from common import Prop, Witness, Failure, LEAN, write_if_changed, run_cmd
from translate import leanfmt as L

ORDERS = [0, 1, 2, 3, "inf"]
UNKNOWN = ["HDivDiv", "HEin", "HCurlDiv"]


def named_spaces():
    import ufl.sobolevspace as S
    return [v for k, v in vars(S).items() if isinstance(v, S.SobolevSpace) and not isinstance(v, S.DirectionalSobolevSpace)]


def domain(maxlen=3):
    """All spaces considered: every predefined space and every directional space with orders in {0,1,2,3,inf}^(1..maxlen)."""
    import ufl.sobolevspace as S
    from math import inf
    named = named_spaces()
    out = [("N", s.name, s) for s in named]
    for n in range(1, maxlen + 1):
        for o in itertools.product(ORDERS, repeat=n):
            out.append(("D", o, S.DirectionalSobolevSpace(tuple(inf if x == "inf" else x for x in o))))
    return out


def tag(x):
    return x[1] if x[0] == "N" else "D(" + ",".join(map(str, x[1])) + ")"


def ev(f):
    """evaluate a comparison on the implementation; canonical outcome: T / F / raise / other:<type>"""
    try:
        r = f()
    except Exception as e:   # noqa
        return "raise"
    if r is True:
        return "T"
    if r is False:
        return "F"
    return "other:" + type(r).__name__


class _Elem:
    def __init__(self, sp):
        self.sobolev_space = sp


def impl_table(dom):
    rows = []
    for a in dom:
        for b in dom:
            x, y = a[2], b[2]
            rows.append("%s %s %s %s %s %s %s %s" % (tag(a), tag(b), ev(lambda: x < y), ev(lambda: x > y), ev(lambda: x <= y),
                                                  ev(lambda: x >= y), ev(lambda: x == y), ev(lambda: _Elem(x) in y)))
    return rows


def spec_le(a, b):
    """Independent reading of 'a is a subspace of b' (None: the library declines to compare these).
    Named spaces: the declared inclusion lattice, written out here by hand.  Directional spaces D(o) have o_i weak
    derivatives in direction i: D(o) <= D(o') iff same dimension and o_i >= o'_i; D(k,..,k) is H^k; D(o) <= S iff H^{o_i} <= S
    for every i; S <= D(o) iff S <= H^{o_i} for every i."""
    LAT = {"L2": [], "HDiv": ["L2"], "HCurl": ["L2"], "H1": ["HDiv", "HCurl", "L2"], "H1Div": ["H1", "HDiv", "HCurl", "L2"],
           "H1Curl": ["H1", "HDiv", "HCurl", "L2"], "H2": ["H1Div", "H1Curl", "H1", "HDiv", "HCurl", "L2"],
           "H3": ["H2", "H1Div", "H1Curl", "H1", "HDiv", "HCurl", "L2"],
           "HInf": ["H3", "H2", "H1Div", "H1Curl", "H1", "HDiv", "HCurl", "L2"],
           "HEin": ["L2"], "HDivDiv": ["L2"], "HCurlDiv": ["L2"]}
    H = {0: "L2", 1: "H1", 2: "H2", 3: "H3", "inf": "HInf"}
    def nle(p, q):
        return p == q or q in LAT[p]
    if a[0] == "N" and b[0] == "N":
        return nle(a[1], b[1])
    if a[0] == "D" and b[0] == "D":
        if len(a[1]) != len(b[1]):
            return False
        return all(nle(H[x], H[y]) for x, y in zip(a[1], b[1]))
    if a[0] == "D":
        if b[1] in UNKNOWN:
            return None
        return all(nle(H[x], b[1]) for x in a[1])
    if a[1] in UNKNOWN:
        return None
    return all(nle(a[1], H[y]) for y in b[1])


def python_oracle(dom, rows):
    """The property read literally on the implementation's answers."""
    bad = []
    idx = {tag(d): d for d in dom}
    R = {}
    for r in rows:
        a, b, lt, gt, le, ge, eq, mem = r.split()
        R[a, b] = (lt, gt, le, ge, eq, mem)
    for (a, b), (lt, gt, le, ge, eq, mem) in R.items():
        sab, sba = spec_le(idx[a], idx[b]), spec_le(idx[b], idx[a])
        if sab is None or sba is None:
            for nm, v in zip(("<", ">", "<=", ">="), (lt, gt, le, ge)):
                if v not in ("raise", "F", "T"):
                    bad.append(("%s %s %s returns a non-boolean (%s)" % (a, nm, b, v), dict(a=a, b=b, op=nm, got=v)))
            continue
        want_lt = sab and not sba
        want_eq = sab and sba
        exp = dict(lt=want_lt, gt=(sba and not sab), le=sab, ge=sba, eq=want_eq, mem=sab)
        got = dict(lt=lt, gt=gt, le=le, ge=ge, eq=eq, mem=mem)
        for k in ("lt", "gt", "le", "ge", "eq", "mem"):
            if got[k] != ("T" if exp[k] else "F"):
                bad.append(("%s %s %s is %s but %s" % (a, k, b, got[k], "a is%s a %ssubspace of b" % ("" if sab else " not", "proper " if want_lt else "")),
                            dict(a=a, b=b, op=k, got=got[k], expected=exp[k])))
    # order axioms on what the implementation answers (independent of the spec)
    tags = [tag(d) for d in dom]
    for a in tags:
        if R[a, a][0] == "T":
            bad.append(("%s < %s (not irreflexive)" % (a, a), dict(a=a)))
    for a, b in itertools.product(tags, repeat=2):
        if R[a, b][1] != R[b, a][0]:
            bad.append(("%s > %s is %s but %s < %s is %s" % (a, b, R[a, b][1], b, a, R[b, a][0]), dict(a=a, b=b, op="gt-vs-lt")))
    return bad


def render_gen():
    named = named_spaces()
    names = [s.name for s in named]
    out = [L.header("(harness/props/c25.py)", "ufl/sobolevspace.py: predefined spaces, their transitively-closed parents and _order."),
           "namespace UflVerif.Gen.Sobolev\n",
           "/-- (name, parents (as stored, sorted), _order; none = infinity) -/",
           "def spaces : List (String × List String × Option Nat) := ["]
    rows = []
    for s in named:
        o = s._order
        rows.append("  (%s, %s, %s)" % (L.s(s.name), L.lst(sorted(p.name for p in s.parents), L.s), "none" if o == float("inf") else "(some %d)" % o))
    out.append(",\n".join(rows) + "]\n")
    out.append("end UflVerif.Gen.Sobolev\n")
    return "\n".join(out), names


class C25(Prop):
    pid = "C25"
    lean_modules = ["UflVerif.Props.C25"]
    min_theorems = 6
    trusted = ["translator: harness/props/c25.py reads the predefined SobolevSpace objects (name, parents, _order) into Gen/Sobolev.lean",
               "correspondence: lean/Drivers/C25.lean prints the model's answer for every ordered pair of the finite domain; compared line by line with the implementation",
               "modelled rather than verified: what 'proper subspace' means for the symbolic spaces is the declared inclusion lattice and the componentwise rule stated in Props/C25.lean (Spec section)"]
    assumptions = ["directional spaces: orders in {0,1,2,3,inf} (the only orders DirectionalSobolevSpace.__getitem__ maps to a space), length >= 1; theorems hold for every length, the correspondence enumerates lengths 1..3",
                   "transitivity is claimed within one spatial dimension (all directional spaces in a triple have the same length)",
                   "comparisons between a directional space and HDivDiv/HEin/HCurlDiv raise NotImplementedError ('don't know'); those pairs are outside the relation"]

    def regenerate(self, ctx):
        text, self.names = render_gen()
        p = LEAN / "UflVerif/Gen/Sobolev.lean"
        return [(p.relative_to(LEAN), write_if_changed(p, text))]

    def correspondence(self, ctx, ev):
        maxlen = 2 if ctx.quick else 3
        self.dom = domain(maxlen)
        self.rows = impl_table(self.dom)
        rc, out = run_cmd(["lake", "env", "lean", "--run", "Drivers/C25.lean", str(maxlen)], cwd=LEAN, timeout=1800)
        model = [l for l in out.splitlines() if l.strip()]
        fails = []
        if rc != 0 or len(model) != len(self.rows):
            fails.append(Failure("correspondence", "C25 driver", "driver exit %d, %d lines vs %d expected: %s" % (rc, len(model), len(self.rows), out[-500:])))
        else:
            for m, i in zip(model, self.rows):
                if m != i:
                    fails.append(Failure("correspondence", "sobolev-compare", "model: %s | impl: %s" % (m, i), case=i.split()[:2]))
                    if len(fails) > 20:
                        break
        n = len(self.dom)
        ev.cov["exhaustive"] = True
        ev.cov["evaluations"] = len(self.rows) * 6
        ev.cov["distinct_nontrivial"] = len(self.rows)
        ev.cov["rule"] = ("every ordered pair of the %d spaces (all predefined + directional with orders in {0,1,2,3,inf}, length<=%d): "
                          "<, >, <=, >=, == and element membership, implementation vs Lean model, outcome in {T,F,raise,other}; each ordered pair is one distinct case" % (n, maxlen))
        ev.cov["samples"] = self.rows[:3] + self.rows[len(self.rows) // 2: len(self.rows) // 2 + 3]
        ev.cov["traces_validated_against_impl"] = len(self.rows)
        return fails

    def oracle(self, ctx, ev):
        bad = python_oracle(self.dom, self.rows)
        return [Witness(what=w, key="C25:" + w, data=d) for w, d in bad]

    def replay(self, ctx, data):
        dom = domain(3)
        bad = python_oracle(dom, impl_table(dom))
        for w, d in bad:
            if "C25:" + w == data.get("key"):
                return Witness(w, "C25:" + w, d)
        return None


PROP = C25()
