"""C21 replace substitutes exactly the mapped subexpressions.
Tie: correspondence of `replace(e, mapping)` with the Lean model `replaceE` (tree-exact up to float literal rounding) on generated
expressions and shape-compatible mappings of coefficients/constants/arguments; oracle: value of the result = value of e with the
mapped terminals' values replaced by the images' values (through the denotational eval), rejection of shape-changing mappings,
identity on expressions without mapped terminals."""
import random, itertools
from fractions import Fraction
import common
from common import Prop, Witness, Failure
import uflio, gen, leandrv
from props.c05 import canon, _V
from props.c24 import parse_reply


class C21(Prop):
    pid = "C21"
    lean_modules = ["UflVerif.Props.C21", "UflVerif.Props.C05Rebuild"]
    min_theorems = 8
    trusted = ["correspondence harness/props/c21.py + Drivers/Expr.lean `(replace e (key img)*)`",
               "modelled rather than verified: mappings are keyed by terminals (the Replacer looks every node up); `expand_derivatives` before replacing forms with CoefficientDerivative is not modelled"]
    assumptions = ["images have the shape of the terminal they replace and no free indices (MapOKOn m e, decidable); mapped terminals do not occur under grad (the value of grad(image) is outside the denotational semantics)",
                   "C21_replace_value_partial covers the rebuild through the constructors under the decidable side conditions ReplOK (no list-tensor collapse / component-tensor shortcut / 0**0 at a rebuilt node) and LitSem (literal folding agrees with the valuation's abs, conj, power on literals)"]

    def gen_case(self, rng, k):
        import ufl
        G = gen.Gen(rng, gdim=rng.choice([2, 3]), math=(k % 3 == 0), compound=False, derivs=False, reuse=0.7, restricted=False)
        sh = rng.choice([(), (), (2,), (2, 2)])
        e = G.expr(sh, (), rng.randint(2, 4))
        terms = [t for t in G.terminals() if t is not G.x]
        rng.shuffle(terms)
        m = {}
        for t in terms[: rng.randint(1, 3)]:
            r = rng.random()
            if r < 0.15:
                img = 0 * G.expr(t.ufl_shape, (), 0) if t.ufl_shape else 0          # zero image
            elif r < 0.3:
                img = G.leaf(t.ufl_shape, ())
            elif r < 0.4 and t.ufl_shape == ():
                img = rng.choice([1, 2.0, 0.5])
            else:
                img = G.expr(t.ufl_shape, (), rng.randint(0, 2))
            m[t] = ufl.as_ufl(img)
        bad_shape = None
        if k % 7 == 0:
            t = terms[-1]
            other = (2,) if t.ufl_shape != (2,) else (3,)
            bad_shape = {t: G.leaf(other, ())}
        return G, e, m, bad_shape

    def correspondence(self, ctx, ev):
        import ufl
        from ufl.algorithms import replace
        rng = random.Random(ctx.seed * 7477 + 21)
        n = 200 if ctx.quick else 2500
        reqs, meta, evreqs, evmeta = [], [], [], []
        self.bad, self.keep = [], []
        distinct, touched, rejected_ok = set(), 0, 0
        memo = {}
        for k in range(n):
            G, e, m, bad_shape = self.gen_case(rng, k)
            self.keep.append((G, e, m))
            if bad_shape is not None:
                try:
                    replace(e, bad_shape)
                    self.bad.append(("replace accepted a shape-changing mapping", dict(kind="shape-accept", expr=repr(e)[:300])))
                except ValueError:
                    rejected_ok += 1
                except Exception:
                    rejected_ok += 1
            try:
                r = replace(e, m)
                impl = "(ok %s)" % uflio.ser(r, memo)
            except Exception as ex:  # noqa
                r, impl = None, "(raises)"
            self.keep.append(r)
            rq = "(replace %s %s)" % (uflio.ser(e, memo), " ".join("(%s %s)" % (uflio.enc(repr(t)), uflio.ser(i, memo)) for t, i in m.items()))
            reqs.append(rq); meta.append((k, e, m, r, impl))
            used = any(t in set(ufl.algorithms.analysis.extract_type(e, type(t))) for t in m)
            if used:
                touched += 1
                if rq.count("(O ") >= 3:
                    distinct.add(rq)
            elif r is not None and r is not e and not (r == e):
                self.bad.append(("replace changed an expression that contains no mapped terminal", dict(kind="identity", expr=repr(e)[:300])))
            # value oracle: eval(result) under env  ==  eval(e) under env with mapped terminals' values := eval(image)
            if r is not None:
                venv = gen.ValueEnv(rng, G)
                comps = list(itertools.product(*[range(d) for d in e.ufl_shape]))
                comp = rng.choice(comps) if comps else ()
                w = venv.wire()
                i_r = len(evreqs); evreqs.append("(eval %s %s %s ())" % (uflio.ser(r, memo), uflio.nats(comp), w))
                # images' values per component
                img_reqs = {}
                for t, img in m.items():
                    for c in itertools.product(*[range(d) for d in t.ufl_shape]):
                        img_reqs[(t, c)] = len(evreqs); evreqs.append("(eval %s %s %s ())" % (uflio.ser(img, memo), uflio.nats(c), w))
                evmeta.append((k, e, m, comp, venv, i_r, img_reqs))
        replies = leandrv.run_driver("Expr", reqs)
        fails, unsupported = [], 0
        for (k, e, m, r, impl), rq, rep in zip(meta, reqs, replies):
            if rep == "(unsupported)":
                unsupported += 1
                continue
            if canon(impl) != canon(rep) and len(fails) < 10:
                fails.append(Failure("correspondence", "replace", "case %d: %s with {%s} | impl: %s | model: %s" % (
                    k, str(e)[:150], ", ".join("%s: %s" % (str(t)[:20], str(i)[:40]) for t, i in m.items()), (str(r)[:200] if r is not None else impl), rep[:300]), case=rq[:3000]))
        # second round: evaluate e under the substituted environment
        vals = [parse_reply(x) for x in leandrv.run_driver("Expr", evreqs)]
        ev2, idx2 = [], []
        for (k, e, m, comp, venv, i_r, img_reqs) in evmeta:
            extra = []
            okv = True
            for (t, c), i in img_reqs.items():
                kind, q, fl = vals[i]
                if kind != "ok":
                    okv = False
                    break
                extra.append("(V %s %s %d %d)" % (uflio.enc(repr(t)), uflio.nats(c), q.numerator, q.denominator))
            if not okv or vals[i_r][0] != "ok":
                continue
            w = venv.wire()
            w2 = w[:-1] + " " + " ".join(extra) + ")"      # substituted values last: the driver's lookup finds the last entry first
            idx2.append((k, e, m, comp, i_r)); ev2.append("(eval %s %s %s ())" % (uflio.ser(e, memo), uflio.nats(comp), w2))
        vals2 = [parse_reply(x) for x in leandrv.run_driver("Expr", ev2)]
        nval = 0
        for (k, e, m, comp, i_r), v2 in zip(idx2, vals2):
            if v2[0] != "ok":
                continue
            nval += 1
            if not (_V(vals[i_r][1]) == _V(v2[1])):
                self.bad.append(("value of replace(e, m) is %s but e with the mapped terminals' values replaced is %s (component %s)" % (vals[i_r][1], v2[1], list(comp)),
                                 dict(kind="value", expr=repr(e)[:400], mapping={repr(t)[:80]: repr(i)[:200] for t, i in m.items()})))
        ev.cov["evaluations"] = len(reqs)
        ev.cov["distinct_nontrivial"] = len(distinct)
        ev.cov["cases_with_mapped_terminal_present"] = touched
        ev.cov["value_checks"] = nval
        ev.cov["shape_changing_mappings_rejected"] = rejected_ok
        ev.cov["unsupported_skipped"] = unsupported
        ev.cov["traces_validated_against_impl"] = len(reqs) - unsupported
        ev.cov["rule"] = ("generated expressions (index notation, conditionals, variables, math functions) x mappings of 1-3 pool terminals to zero / literals / leaves / generated expressions "
                          "of the same shape; every 7th case also a shape-changing mapping; non-trivial = distinct request in which a mapped terminal occurs and >= 3 operator nodes")
        ev.cov["samples"] = [dict(expr=str(e)[:120], mapping={str(t): str(i)[:60] for t, i in m.items()}, result=str(r)[:120]) for (k, e, m, r, impl) in meta[:3]]
        return fails

    def deriv_oracle(self, ctx, ev):
        """replace under derivative operators: replace(D(.. f ..), {f: img}) must have the shape of the input and the value of D(.. img ..)
        built directly (both evaluated after derivative expansion, fields given as callables with random jets)."""
        import ufl
        from ufl.algorithms import replace
        rng = random.Random(ctx.seed * 3331 + 2121)
        n = 60 if ctx.quick else 1200
        nchk = 0
        for k in range(n):
            g = rng.choice([2, 3])
            G = gen.Gen(rng, gdim=g, compound=False, math=False)
            sh = rng.choice([(), (2,), (3,), (g,), (2, 2), (2, 3), (3, 2)])
            if sh not in G.coeffs:
                continue
            f = G.coeffs[sh][0]
            kind = rng.choice(["coeff", "coeff", "const", "literal", "expr", "zero"])
            if kind == "coeff":
                others = [c for c in G.coeffs[sh] if c is not f] or [ufl.Coefficient(f.ufl_function_space())]
                img = others[0]
            elif kind == "const":
                img = ufl.Constant(G.mesh, sh) if sh else ufl.Constant(G.mesh)
            elif kind == "literal":
                def lit(s):
                    return [lit(s[1:]) for _ in range(s[0])] if s else rng.choice([1, 2, 0.5, -3])
                img = ufl.as_tensor(lit(sh)) if sh else ufl.as_ufl(rng.choice([2, 0.5]))
            elif kind == "zero":
                img = ufl.zero(*sh) if sh else ufl.as_ufl(0)
            else:
                h = ufl.Coefficient(f.ufl_function_space())
                img = 2 * h + (ufl.Constant(G.mesh, sh) if sh else ufl.Constant(G.mesh))
            ops = [("grad", ufl.grad), ("nabla_grad", ufl.nabla_grad)]
            if sh and sh[-1] == g:
                ops.append(("div", ufl.div))
            if sh and sh[0] == g:
                ops.append(("nabla_div", ufl.nabla_div))
            if sh in ((), (2,)) and g == 2 or sh == (3,) and g == 3:
                ops.append(("curl", ufl.curl))
            ops.append(("dx", lambda a: a.dx(rng.randrange(g))))
            name, D = rng.choice(ops)
            wrap = rng.choice(["plain", "restricted", "variable", "scaled", "twice"])
            def build(a):
                e = D(a)
                if wrap == "restricted":
                    e = e("+")
                elif wrap == "variable":
                    e = ufl.variable(e)
                elif wrap == "scaled":
                    e = 3 * e + e
                elif wrap == "twice" and name in ("grad", "nabla_grad"):
                    e = D(e)
                return e
            st = rng.getstate()
            try:
                e = build(f)
            except Exception:  # noqa
                continue
            rng.setstate(st)
            try:
                direct = build(img)
            except Exception:  # noqa
                continue
            desc = "%s(%s of shape %s) [%s] with image kind %s on a %dD mesh" % (name, "f", list(sh), wrap, kind, g)
            try:
                r = replace(e, {f: img})
            except Exception as ex:  # noqa
                self.bad.append(("replace under a derivative raises %s" % type(ex).__name__, dict(kind="deriv-raise:" + name, expr=desc)))
                continue
            nchk += 1
            if tuple(r.ufl_shape) != tuple(e.ufl_shape):
                self.bad.append(("replace changed the shape from %s to %s" % (tuple(e.ufl_shape), tuple(r.ufl_shape)), dict(kind="deriv-shape:" + name, expr=desc)))
                continue
            # values: every coefficient is a callable with random jets (constants: plain values, zero derivatives)
            jets = {}
            def mk(t):
                def fn(x, derivatives=()):
                    key = (id(t), tuple(sorted(derivatives)))
                    if key not in jets:
                        def rnd(s):
                            return tuple(rnd(s[1:]) for _ in range(s[0])) if s else Fraction(rng.randint(-4, 4), rng.choice([1, 2]))
                        jets[key] = rnd(tuple(t.ufl_shape))
                    return jets[key]
                return fn
            from ufl.algorithms.analysis import extract_type
            m = {}
            for ex_ in (r, direct):
                for t in extract_type(ex_, ufl.classes.Coefficient):
                    m.setdefault(t, mk(t))
                for t in extract_type(ex_, ufl.classes.Constant):
                    def rnd(s):
                        return tuple(rnd(s[1:]) for _ in range(s[0])) if s else Fraction(rng.randint(-4, 4), 1)
                    m.setdefault(t, rnd(tuple(t.ufl_shape)))
            x = tuple(Fraction(1, 3) for _ in range(g))
            try:
                from ufl.algorithms.apply_restrictions import apply_restrictions  # noqa
                strip = lambda z: z
                vr = [strip(r)(x, m, c) for c in itertools.product(*[range(d) for d in r.ufl_shape])]
                vd = [strip(direct)(x, m, c) for c in itertools.product(*[range(d) for d in direct.ufl_shape])]
            except Exception:  # noqa     (restricted expressions cannot be point-evaluated: shape check only)
                continue
            if any(abs(float(a) - float(b)) > 1e-9 * max(1.0, abs(float(b))) for a, b in zip(vr, vd)):
                self.bad.append(("replace(D(f), {f: img}) evaluates to %s, D(img) to %s" % (vr[:3], vd[:3]), dict(kind="deriv-value:" + name, expr=desc)))
        ev.cov["derivative_replace_checks"] = nchk

    def form_oracle(self, ctx, ev):
        """replace on Forms and FormSums: per integral (type, subdomain) the integrand after replace equals replace of the integrand (also when
        an integrand folds to a literal or vanishes); a FormSum keeps each surviving component with ITS weight"""
        import ufl
        from ufl.algorithms import replace
        from utils import LagrangeElement
        rng = random.Random(ctx.seed * 5003 + 21)
        n = 40 if ctx.quick else 600
        nchk = 0
        for k in range(n):
            cell = ufl.triangle
            mesh = ufl.Mesh(LagrangeElement(cell, 1, (2,)))
            V = ufl.FunctionSpace(mesh, LagrangeElement(cell, 1))
            f, g, h = ufl.Coefficient(V), ufl.Coefficient(V), ufl.Coefficient(V)
            x = ufl.SpatialCoordinate(mesh)
            lit = lambda: ufl.as_ufl(rng.choice([2, 3, 2.5, 0.5]))
            integrands = [f * g, f, g * h + f, f * f, ufl.sin(f) * g, f * x[0], g]
            rng.shuffle(integrands)
            meas = [ufl.dx(domain=mesh), ufl.ds(domain=mesh), ufl.dx(domain=mesh, subdomain_id=2), ufl.ds(domain=mesh, subdomain_id=1), ufl.dS(domain=mesh)]
            terms = [(integrands[i], meas[i % len(meas)]) for i in range(rng.randint(2, 4))]
            F = None
            for e, mm in terms:
                e = e("+") if mm.integral_type().startswith("interior") else e
                F = e * mm if F is None else F + e * mm
            mapping = {}
            for c in (f, g, h):
                r = rng.random()
                if r < 0.35:
                    mapping[c] = lit()
                elif r < 0.5:
                    mapping[c] = ufl.as_ufl(0)
                elif r < 0.7:
                    mapping[c] = ufl.Coefficient(V)
            if not mapping:
                mapping[f] = lit()
            try:
                R = replace(F, mapping)
            except Exception as ex:  # noqa
                self.bad.append(("replace on a form raises %s" % type(ex).__name__, dict(kind="form-raise", expr=str(F)[:200])))
                continue

            def table(form_or_pairs):
                t = {}
                for itype, sid, e in form_or_pairs:
                    if isinstance(e, ufl.classes.Zero):
                        continue
                    key = (itype, str(sid))
                    t[key] = e if key not in t else t[key] + e
                return t
            want = table([(I.integral_type(), I.subdomain_id(), replace(I.integrand(), mapping)) for I in F.integrals()])
            got = table([(I.integral_type(), I.subdomain_id(), I.integrand()) for I in (R.integrals() if hasattr(R, "integrals") else [])])
            nchk += 1
            pt = (0.25, 0.5)
            def value(e):
                from ufl.algorithms.analysis import extract_type
                m = {c_: 1.0 + 0.37 * (i + 1) for i, c_ in enumerate(sorted(extract_type(e, ufl.classes.Coefficient), key=lambda c_: c_.count()))}
                import ufl.classes as C
                strip = e
                return float(ufl.algorithms.replace(strip, {})(pt, m)) if not any(isinstance(o, C.Restricted) for o in ufl.corealg.traversal.unique_pre_traversal(e)) else None
            if set(want) != set(got):
                self.bad.append(("replace on a form drops or invents integrals: integrals %s expected, %s found" % (sorted(want), sorted(got)), dict(kind="form-integrals", expr=str(F)[:200], mapping=str({str(a): str(b) for a, b in mapping.items()}))))
                continue
            for key in want:
                try:
                    a, b = value(want[key]), value(got[key])
                except Exception:  # noqa
                    continue
                if a is not None and b is not None and abs(a - b) > 1e-9 * max(1.0, abs(a)):
                    self.bad.append(("replace on a form changes the integrand of integral %s: %s instead of %s" % (key, b, a), dict(kind="form-value", expr=str(F)[:200])))
                    break
            # FormSum with non-uniform weights, one component vanishing under the mapping
            try:
                from ufl.classes import FormSum, Cofunction, Action, Matrix
                c1, c2, c3 = Cofunction(V.dual()), Cofunction(V.dual()), Cofunction(V.dual())
                v = ufl.TestFunction(V)
                if k % 3 == 2:
                    # a component that becomes a ZeroBaseForm (Action of a bilinear form on a coefficient mapped to zero), not last
                    u_ = ufl.TrialFunction(V)
                    comps = [c1, c2, c3]
                    comps.insert(rng.randrange(0, 3), Action(u_ * v * ufl.dx(domain=mesh), f))
                    zero_of = f
                elif k % 2 == 0:
                    comps = [f * v * ufl.dx(domain=mesh), c1, g * v * ufl.dx(domain=mesh), c2, c3]
                    rng.shuffle(comps)
                    zero_of = rng.choice([f, g])
                else:
                    # ONE variational component that vanishes as a whole, not in the last position
                    comps = [c1, c2, c3]
                    comps.insert(rng.randrange(0, 3), f * g * v * ufl.dx(domain=mesh) + f * v * ufl.ds(domain=mesh))
                    zero_of = f
                ws = [2, 3, 5, 7, 11][:len(comps)]
                S = FormSum(*zip(comps, ws))
                RS = replace(S, {zero_of: ufl.as_ufl(0)})
                # reference: FormSum's OWN components (it merges variational forms, folding their weights in) replaced one by one
                want_pairs = []
                for c_, w_ in zip(S.components(), S.weights()):
                    rc = replace(c_, {zero_of: ufl.as_ufl(0)}) if not isinstance(c_, Cofunction) else c_
                    if (hasattr(rc, "integrals") and not rc.integrals()) or isinstance(rc, ufl.classes.ZeroBaseForm) or rc == 0:
                        continue
                    want_pairs.append((rc, w_))
                got_pairs = list(zip(RS.components(), RS.weights())) if isinstance(RS, FormSum) else [(RS, 1)]
                got_pairs = [(a_, w_) for a_, w_ in got_pairs if not ((hasattr(a_, "integrals") and not a_.integrals()) or isinstance(a_, ufl.classes.ZeroBaseForm))]     # an empty Form contributes nothing
                nchk += 1
                if [(repr(a_), w_) for a_, w_ in want_pairs] != [(repr(a_), w_) for a_, w_ in got_pairs]:
                    self.bad.append(("replace on a FormSum with a vanishing component changes the weights of the others: %s instead of %s" % ([w_ for _, w_ in got_pairs], [w_ for _, w_ in want_pairs]),
                                     dict(kind="formsum-weights", expr=str(S)[:200])))
            except Exception:  # noqa
                pass
        ev.cov["form_replace_checks"] = nchk

    def oracle(self, ctx, ev):
        self.deriv_oracle(ctx, ev)
        self.form_oracle(ctx, ev)
        out, seen = [], set()
        for w, d in getattr(self, "bad", []):
            if d["kind"] in seen:
                continue
            seen.add(d["kind"])
            out.append(Witness(what=w + " :: " + d.get("expr", "")[:160], key="C21:" + d["kind"], data=d))
        return out


PROP = C21()
