"""C23 Complex and real mode node handling is sound.

Ties: (T) Gen/Dispatch.lean (regenerated): the handler every registered UFL type resolves to in CheckComparisons / ComplexNodeRemoval
equals the handler the Lean model uses, and the terminal classes typed real are read from the regenerated MRO table;
(C) correspondence of `map_expr_dag(CheckComparisons(), e)` (tree, type of the root, raise / no raise) and of
`map_expr_dag(ComplexNodeRemoval(), e)` with the Lean models `checkE` / `removeE` (Drivers/C23.lean) on generated integrands.
Oracle (the property read literally on the implementation's output): every ordering comparison / min / max the check accepts has
operands that are real-valued for complex coefficient data (an independent complex evaluator); the checked integrand has the value of
the original; in real mode the stripped integrand has the value of the original for real data and imaginary parts / complex literals raise."""
import cmath
import itertools
import math
import random
from fractions import Fraction

import common
from common import Prop, Witness, Failure, LEAN, write_if_changed
from translate import dispatch
import uflio, gen, leandrv
from props.c05 import canon, _V
from props.c24 import parse_reply

leandrv.EXES["C23"] = "c23drv"

PARTIAL_FNS = ("Ln", "Acos", "Asin")          # real only on part of the real line
BESSEL = ("BesselJ", "BesselY", "BesselI", "BesselK")


# ------------------------------------------------------------------------------------------------------------------
# generator: gen.Gen with a knob for the fraction of real-typed leaves and extra productions for the nodes C23 names
# ------------------------------------------------------------------------------------------------------------------
class CGen(gen.Gen):
    def __init__(self, rng, real_bias=0.5, mode="complex", partial=0.0, extra=0.35, **kw):
        kw.setdefault("with_args", True)
        kw.setdefault("derivs", False)
        super().__init__(rng, **kw)
        ufl = self.ufl
        self.real_bias = real_bias
        self.mode = mode            # 'complex': integrands for the comparison check; 'real': integrands for node removal
        self.partial = partial      # probability that a math-function production is an unguarded ln / asin / acos
        self.extra = extra
        self.allow_imag = True
        self.allow_cplx = True
        self.geo = [ufl.CellVolume(self.mesh), ufl.Circumradius(self.mesh), ufl.FacetNormal(self.mesh), ufl.JacobianDeterminant(self.mesh)]

    def terminals(self):
        return super().terminals() + self.geo

    def real_leaf(self):
        """a scalar the `terminal` handler types real"""
        ufl, rng = self.ufl, self.rng
        r = rng.random()
        if r < 0.3:
            return self.x[rng.randrange(self.gdim)]
        if r < 0.45:
            return rng.choice(self.args[()])
        if r < 0.55:
            return rng.choice(self.args[(self.gdim,)])[rng.randrange(self.gdim)]
        if r < 0.7:
            return self.literal()
        if r < 0.8:
            return self.geo[2][rng.randrange(self.gdim)]
        return rng.choice([self.geo[0], self.geo[1], self.geo[3]])

    def leaf(self, shape, fi):
        if shape == () and not fi and self.rng.random() < self.real_bias:
            self._count("leaf_real_typed")
            return self.real_leaf()
        if shape == (self.gdim,) and not fi and self.rng.random() < self.real_bias:
            return self.rng.choice([self.x, self.x, self.geo[2]] + self.args[(self.gdim,)])
        return super().leaf(shape, fi)

    def condition(self, depth):
        ufl, rng = self.ufl, self.rng
        if rng.random() < 0.2:
            a, b = self.expr((), (), depth - 1), self.expr((), (), depth - 1)
            c = rng.choice([ufl.eq, ufl.ne])(a, b)
            if rng.random() < 0.3:
                c = ufl.And(c, ufl.lt(self.expr((), (), 0), self.expr((), (), 0)))
            return c
        return super().condition(depth)

    def _try(self, shape, fi, depth):
        ufl, rng = self.ufl, self.rng
        d = depth - 1
        if rng.random() >= self.extra:
            return super()._try(shape, fi, depth)
        scalar = shape == () and not fi
        prods = [("re", 2), ("conj", 2), ("abs_any", 1 if scalar else 0)]
        if self.allow_imag:
            prods.append(("im", 1.2 if self.mode == "complex" else 0.5))
        if scalar:
            prods += [("intpow", 1.5), ("cmp_real", 2), ("minmax_real", 1.5), ("fn", 1.5), ("fracpow", 0.5), ("geom", 0.5)]
            if self.allow_cplx:
                prods.append(("cplxlit", 0.6 if self.mode == "complex" else 0.25))
        names, weights = zip(*[p for p in prods if p[1] > 0])
        p = rng.choices(names, weights)[0]
        self._count("c_" + p)
        E = self.expr
        if p == "re":
            return ufl.real(E(shape, fi, d))
        if p == "im":
            return ufl.imag(E(shape, fi, d))
        if p == "conj":
            return ufl.conj(E(shape, fi, d))
        if p == "abs_any":
            return abs(E((), (), d))
        if p == "intpow":
            return E((), (), d) ** rng.choice([2, 3, -1, -2, 2.0, 4, 1.0, -3.0])
        if p == "fracpow":
            return E((), (), d) ** rng.choice([0.5, 1.5, -0.5, ufl.as_ufl(1 + 2j), E((), (), 0)])
        if p == "cplxlit":
            z = complex(rng.choice([1, 0.5, -2, 0]), rng.choice([1, -0.5, 2]))
            return ufl.as_ufl(z) * E((), (), d) if rng.random() < 0.7 else ufl.as_ufl(z) + E((), (), d)
        if p == "geom":
            return rng.choice([self.geo[0], self.geo[1], self.geo[3], self.geo[2][rng.randrange(self.gdim)]]) * E((), (), d)
        if p == "cmp_real":
            # a comparison between operands that are real-typed with high probability
            save = self.real_bias
            self.real_bias = max(save, 0.9 if rng.random() < 0.8 else save)
            try:
                c = rng.choice([ufl.lt, ufl.gt, ufl.le, ufl.ge])(E((), (), d), E((), (), d))
            finally:
                self.real_bias = save
            return ufl.conditional(c, E((), (), d), E((), (), d))
        if p == "minmax_real":
            save = self.real_bias
            self.real_bias = max(save, 0.9 if rng.random() < 0.8 else save)
            try:
                return rng.choice([ufl.max_value, ufl.min_value])(E((), (), d), E((), (), d))
            finally:
                self.real_bias = save
        if p == "fn":
            if rng.random() < self.partial:
                f = rng.choice(["ln", "asin", "acos"])
                self._count("partial_fn_unguarded")
                return getattr(ufl, f)(E((), (), d))
            f = rng.choice(["sin", "cos", "exp", "tanh", "atan", "sinh", "erf", "sqrt", "ln", "asin", "acos", "atan2"])
            if f == "sqrt":
                return ufl.sqrt(self.nonzero(d))
            if f == "ln":
                return ufl.ln(self.nonzero(d))
            if f in ("asin", "acos"):
                a = E((), (), d)
                return getattr(ufl, f)(a / (a * a + 1))         # |a/(a²+1)| <= 1/2 for real a
            if f == "atan2":
                return ufl.atan2(E((), (), d), self.nonzero(d))
            if f in ("exp", "sinh"):
                return getattr(ufl, f)(E((), (), 0))
            return getattr(ufl, f)(E((), (), d))
        return None


def nodes(e):
    """distinct nodes of an expression DAG, children before parents"""
    from ufl.corealg.traversal import unique_post_traversal
    return list(unique_post_traversal(e))


def has_type(e, *names):
    return any(type(o).__name__ in names for o in nodes(e))


class WorkBound(BaseException):
    """raised by the instrumented `Terminal.evaluate` when one run of the pass point-evaluates terminals more often than the bound"""


_WORK = [0, None]


def _instrument():
    from ufl.core.terminal import Terminal
    if getattr(Terminal.evaluate, "_c23_counted", False):
        return
    orig = Terminal.evaluate

    def evaluate(self, *a, **k):
        if _WORK[1] is not None:
            _WORK[0] += 1
            if _WORK[0] > _WORK[1]:
                raise WorkBound()
        return orig(self, *a, **k)
    evaluate._c23_counted = True
    Terminal.evaluate = evaluate


def run_check(e, bound=4000):
    """the implementation: ('ok', e', checker) | ('raises', exception class name, None) | ('diverges', .., None) when the pass
    point-evaluates terminals more than `bound` times (a pass over a DAG has no business evaluating a node more than a few times)"""
    import warnings
    from ufl.algorithms.comparison_checker import CheckComparisons, ComplexComparisonError
    from ufl.corealg.map_dag import map_expr_dag
    _instrument()
    cc = CheckComparisons()
    _WORK[0], _WORK[1] = 0, bound
    try:
        with warnings.catch_warnings():
            warnings.simplefilter("ignore")
            r = map_expr_dag(cc, e)
    except ComplexComparisonError:
        return ("raises", "ComplexComparisonError", None)
    except WorkBound:
        return ("diverges", "WorkBound", None)
    except Exception as ex:  # noqa
        return ("raises", type(ex).__name__, None)
    finally:
        _WORK[1] = None
    return ("ok", r, cc)


def run_remove(e):
    from ufl.algorithms.remove_complex_nodes import ComplexNodeRemoval
    from ufl.corealg.map_dag import map_expr_dag
    try:
        return ("ok", map_expr_dag(ComplexNodeRemoval(), e))
    except Exception as ex:  # noqa
        return ("raises", type(ex).__name__)


# ------------------------------------------------------------------------------------------------------------------
# independent complex evaluator (oracle only): Python complex arithmetic and cmath on the UFL tree
# ------------------------------------------------------------------------------------------------------------------
class NotEvaluable(Exception):
    pass


class ComplexOrder(Exception):
    """an ordering comparison / min / max met an operand with a non-zero imaginary part"""


EULER = 0.5772156649015329


def _series(f, nmax=80):
    s, k = 0j, 0
    while k < nmax:
        t = f(k)
        s += t
        if k > 3 and abs(t) <= 1e-17 * max(1.0, abs(s)):
            break
        k += 1
    return s


def bessel(kind, nu, z):
    """J, I for real order; Y, K for order 0 (log series, analytically continued with the principal logarithm)"""
    z = complex(z)
    if z == 0:
        raise NotEvaluable("bessel at 0")
    q = z * z / 4
    if kind in ("J", "I"):
        sg = -1 if kind == "J" else 1
        if float(nu) == int(nu) and nu < 0:
            raise NotEvaluable("negative integer order")
        return _series(lambda k: (sg ** k) * q ** k / (math.factorial(k) * math.gamma(k + nu + 1))) * (z / 2) ** nu
    if nu != 0:
        raise NotEvaluable("Y/K of order != 0")
    H = lambda k: sum(1.0 / j for j in range(1, k + 1))
    if kind == "Y":
        J0 = _series(lambda k: ((-1) ** k) * q ** k / math.factorial(k) ** 2)
        return (2 / math.pi) * (cmath.log(z / 2) + EULER) * J0 + (2 / math.pi) * _series(lambda k: 0 if k == 0 else ((-1) ** (k + 1)) * H(k) * q ** k / math.factorial(k) ** 2)
    I0 = _series(lambda k: q ** k / math.factorial(k) ** 2)
    return -(cmath.log(z / 2) + EULER) * I0 + _series(lambda k: 0 if k == 0 else H(k) * q ** k / math.factorial(k) ** 2)


TOL = 1e-9


def is_real(v):
    return abs(v.imag) <= TOL * max(1.0, abs(v))


class CEval:
    """values: dict terminal -> nested tuple of complex; `rec` collects (operand expression, value) of every ordering comparison /
    min / max operand met (the operand *inside* a Real(..) wrapper, which is what the check typed)"""

    FN = {"Sqrt": cmath.sqrt, "Exp": cmath.exp, "Ln": cmath.log, "Cos": cmath.cos, "Sin": cmath.sin, "Tan": cmath.tan, "Cosh": cmath.cosh,
          "Sinh": cmath.sinh, "Tanh": cmath.tanh, "Acos": cmath.acos, "Asin": cmath.asin, "Atan": cmath.atan}

    def __init__(self, values, strict_order=True):
        self.values = values
        self.rec = []
        self.strict_order = strict_order

    def term(self, o, comp):
        import ufl.classes as C
        if isinstance(o, C.Zero):
            return 0j
        if isinstance(o, C.ScalarValue):
            return complex(o._value)
        if isinstance(o, C.Identity):
            return 1 + 0j if comp[0] == comp[1] else 0j
        if o not in self.values:
            raise NotEvaluable(type(o).__name__)
        v = self.values[o]
        for c in comp:
            v = v[c]
        return complex(v)

    def operand(self, w, idx):
        """operand of a comparison: record the value of what is inside the Real wrapper"""
        inner = w.ufl_operands[0] if type(w).__name__ == "Real" else w
        vi = self.ev(inner, idx, ())
        self.rec.append((inner, vi, dict(idx)))
        v = self.ev(w, idx, ())
        if not is_real(v):
            if self.strict_order:
                raise ComplexOrder(str(w)[:80])
        return v.real

    def ev(self, o, idx, comp):
        import ufl.classes as C
        if o._ufl_is_terminal_:
            return self.term(o, comp)
        n = type(o).__name__
        ops = o.ufl_operands
        E = self.ev
        try:
            if n == "Sum":
                return E(ops[0], idx, comp) + E(ops[1], idx, comp)
            if n == "Product":
                return E(ops[0], idx, ()) * E(ops[1], idx, ())
            if n == "Division":
                return E(ops[0], idx, comp) / E(ops[1], idx, ())
            if n == "Power":
                b, x = E(ops[0], idx, ()), E(ops[1], idx, ())
                if is_real(x) and float(x.real) == int(x.real) and abs(x.real) <= 64:
                    k = int(x.real)
                    r = 1 + 0j
                    for _ in range(abs(k)):
                        r *= b
                    return r if k >= 0 else 1 / r
                return b ** x
            if n == "Abs":
                return complex(abs(E(ops[0], idx, comp)))
            if n == "Conj":
                return E(ops[0], idx, comp).conjugate()
            if n == "Real":
                return complex(E(ops[0], idx, comp).real)
            if n == "Imag":
                return complex(E(ops[0], idx, comp).imag)
            if n == "Indexed":
                c2 = tuple(int(i) if isinstance(i, C.FixedIndex) else idx[i.count()] for i in ops[1]._indices)
                return E(ops[0], idx, c2)
            if n == "IndexSum":
                j = ops[1]._indices[0].count()
                s = 0j
                for k in range(o.dimension()):
                    s += E(ops[0], {**idx, j: k}, comp)
                return s
            if n == "ComponentTensor":
                i2 = dict(idx)
                for i, c in zip(ops[1]._indices, comp):
                    i2[i.count()] = c
                return E(ops[0], i2, ())
            if n == "ListTensor":
                return E(ops[comp[0]], idx, comp[1:])
            if n == "Conditional":
                c = self.cond(ops[0], idx)
                t, f = E(ops[1], idx, comp), E(ops[2], idx, comp)      # both branches: every comparison operand is recorded
                return t if c else f
            if n in ("MinValue", "MaxValue"):
                a, b = self.operand(ops[0], idx), self.operand(ops[1], idx)
                return complex(min(a, b) if n == "MinValue" else max(a, b))
            if n in ("Variable", "PositiveRestricted", "NegativeRestricted"):
                return E(ops[0], idx, comp)
            if n in self.FN:
                return self.FN[n](E(ops[0], idx, ()))
            if n == "Erf":
                v = E(ops[0], idx, ())
                if not is_real(v):
                    raise NotEvaluable("erf of a complex number")
                return complex(math.erf(v.real))
            if n == "Atan2":
                a, b = E(ops[0], idx, ()), E(ops[1], idx, ())
                if not (is_real(a) and is_real(b)):
                    raise NotEvaluable("atan2 of complex numbers")
                return complex(math.atan2(a.real, b.real))
            if n in BESSEL:
                nu = E(ops[0], idx, ())
                return bessel(n[-1], nu.real, E(ops[1], idx, ()))
        except (ZeroDivisionError, OverflowError, ValueError) as ex:
            raise NotEvaluable(type(ex).__name__)
        raise NotEvaluable(n)

    def cond(self, o, idx):
        n = type(o).__name__
        ops = o.ufl_operands
        if n in ("EQ", "NE"):
            a, b = self.ev(ops[0], idx, ()), self.ev(ops[1], idx, ())
            eq = abs(a - b) <= TOL * max(1.0, abs(a), abs(b))
            return eq if n == "EQ" else not eq
        if n in ("LT", "GT", "LE", "GE"):
            a, b = self.operand(ops[0], idx), self.operand(ops[1], idx)
            return {"LT": a < b, "GT": a > b, "LE": a <= b, "GE": a >= b}[n]
        if n == "AndCondition":
            a, b = self.cond(ops[0], idx), self.cond(ops[1], idx)
            return a and b
        if n == "OrCondition":
            a, b = self.cond(ops[0], idx), self.cond(ops[1], idx)
            return a or b
        if n == "NotCondition":
            return not self.cond(ops[0], idx)
        raise NotEvaluable(n)


FIXED_REAL = [-1.5, -0.75, -1.25, 2.0, -3.0, 0.5, 0.25, 0.6, -0.8]
FIXED_CPLX = [1 + 2j, -2 + 0.5j, 0.5 - 1j, -1.5 - 0.25j]


def complex_values(rng, terminals, fixed=False):
    """real values for what the check classifies real (arguments, geometry), complex values for coefficients and constants;
    `fixed`: deterministic data for the directed cases (negative coordinates of modulus > 1, so that ln / asin / acos / Bessel leave the real line)"""
    import ufl.classes as C
    vals = {}
    if fixed:
        def fx(shape, pool, off):
            if shape:
                return tuple(fx(shape[1:], pool, off + k * 3) for k in range(shape[0]))
            return complex(pool[off % len(pool)])
        for t in terminals:
            if isinstance(t, C.SpatialCoordinate):
                vals[t] = tuple(complex(v) for v in FIXED_REAL[:t.ufl_shape[0]])
            elif isinstance(t, C.Argument):
                vals[t] = fx(tuple(t.ufl_shape), FIXED_REAL, 3)
            elif isinstance(t, C.GeometricQuantity):
                vals[t] = fx(tuple(t.ufl_shape), FIXED_REAL, 5 if not t.ufl_shape else 7)
            else:
                vals[t] = fx(tuple(t.ufl_shape), FIXED_CPLX, 0 if isinstance(t, C.Coefficient) else 2)
        return vals

    def rnd(shape, cplx):
        if shape:
            return tuple(rnd(shape[1:], cplx) for _ in range(shape[0]))
        re = rng.randint(-8, 8) / rng.choice([1, 2, 4])
        return complex(re, rng.randint(-8, 8) / rng.choice([1, 2, 4]) if cplx else 0.0)
    for t in terminals:
        real = isinstance(t, (C.Argument, C.GeometricQuantity))
        vals[t] = rnd(tuple(t.ufl_shape), not real)
    return vals


def culprit(ev, cc, o, idx):
    """innermost node below `o` that the check typed real / bool although its value is not real (scalar, binder-free descent)"""
    try:
        if is_real(ev.ev(o, idx, ())):
            return None
    except Exception:  # noqa
        return None
    if cc.nodetype.get(o, "complex") == "complex":
        return None
    if o._ufl_is_terminal_ or o.ufl_shape or type(o).__name__ in ("IndexSum", "ComponentTensor", "Indexed", "ListTensor"):
        return o
    for c in o.ufl_operands:
        if c.ufl_shape or type(c).__name__ == "MultiIndex":
            return o
        r = culprit(ev, cc, c, idx)
        if r is not None:
            return r
    return o


LEAN_EVAL_OPS = set("""Sum Product Division Power Abs Conj Real Imag Indexed IndexSum ComponentTensor ListTensor Conditional EQ NE LT GT LE GE
AndCondition OrCondition NotCondition MinValue MaxValue Variable Sqrt Exp Ln Cos Sin Tan Cosh Sinh Tanh Acos Asin Atan Atan2""".split())


def lean_evaluable(e):
    import ufl.classes as C
    for o in nodes(e):
        if o._ufl_is_terminal_:
            if isinstance(o, C.ComplexValue):
                return False
            continue
        if type(o).__name__ not in LEAN_EVAL_OPS:
            return False
        if type(o).__name__ == "Power":      # the rational driver evaluates integer literal exponents only
            x = o.ufl_operands[1]
            if not (isinstance(x, C.RealValue) and float(x) == int(float(x))):
                return False
    return True


def directed_pool():
    import ufl
    from utils import LagrangeElement
    cell = ufl.triangle
    mesh = ufl.Mesh(LagrangeElement(cell, 1, (2,)))
    V = ufl.FunctionSpace(mesh, LagrangeElement(cell, 1))
    W = ufl.FunctionSpace(mesh, LagrangeElement(cell, 1, (2,)))
    P = dict(mesh=mesh, f=ufl.Coefficient(V), g=ufl.Coefficient(V), w=ufl.Coefficient(W), v=ufl.TestFunction(V), u=ufl.TrialFunction(W),
             c=ufl.Constant(mesh), x=ufl.SpatialCoordinate(mesh), n=ufl.FacetNormal(mesh), vol=ufl.CellVolume(mesh))
    return P


def directed_check_cases():
    """(name, expression): the corner cases the property names, always run"""
    import ufl
    from ufl import conditional, lt, gt, le, ge, eq, ne, ln, asin, acos, sqrt, real, imag, conj, max_value, min_value, as_ufl
    P = directed_pool()
    f, g, w, v, u, c, x, n, vol = (P[k] for k in "f g w v u c x n vol".split())
    i = ufl.Index()
    out = [
        ("ln-of-real<1", conditional(lt(ln(x[0]), 1), f, g)),
        ("asin-of-real<1", conditional(lt(asin(x[0]), 1), f, g)),
        ("acos-of-real>1", conditional(gt(acos(2 * x[1]), 1), f, g)),
        ("min(ln,1)", min_value(ln(x[0]), 1) * f),
        ("max(acos,x1)", max_value(acos(x[0] * v), x[1]) * f),
        ("besselY0<1", conditional(lt(ufl.bessel_Y(0, x[0]), 1), f, g)),
        ("besselK0<1", conditional(lt(ufl.bessel_K(0, x[0]), 1), f, g)),
        ("besselJ.5<1", conditional(lt(ufl.bessel_J(0.5, x[0]), 1), f, g)),
        ("besselI.5<1", conditional(lt(ufl.bessel_I(0.5, x[0]), 1), f, g)),
        ("besselJ1<1", conditional(lt(ufl.bessel_J(1, x[0]), 1), f, g)),
        ("coef<0", conditional(lt(f, 0), f, g)),
        ("const<0", conditional(lt(c, 0), f, g)),
        ("re<im", conditional(lt(real(f), imag(g)), f, g)),
        ("abs<1", conditional(le(abs(f * w[0]), 1), f, g)),
        ("conj-real<1", conditional(lt(conj(x[0]), 1), f, g)),
        ("conj-coef<1", conditional(lt(conj(f), 1), f, g)),
        ("variable<1", conditional(lt(ufl.variable(x[0]), 1), f, g)),
        ("indexsum<1", conditional(lt(x[i] * x[i], 1), f, g)),
        ("dot<1", conditional(lt(ufl.dot(x, x), 1), f, g)),
        ("inner<1", conditional(ge(ufl.inner(x, n), v), f, g)),
        ("sqrt<1", conditional(lt(sqrt(x[0]), 1), f, g)),
        ("x^2<1", conditional(lt(x[0] ** 2, 1), f, g)),
        ("x^2.0<1", conditional(lt(x[0] ** 2.0, 1), f, g)),
        ("x^-2<1", conditional(lt(x[0] ** -2, 1), f, g)),
        ("x^.5<1", conditional(lt(x[0] ** 0.5, 1), f, g)),
        ("x^x<1", conditional(lt(x[0] ** x[1], 1), f, g)),
        ("x^cplx<1", conditional(lt(x[0] ** as_ufl(2 + 1j), 1), f, g)),
        ("f^2<1", conditional(lt(f ** 2, 1), f, g)),
        ("minmax^2<1", conditional(lt(max_value(x[0], x[1]) ** 2, 1), f, g)),
        ("vol<h", conditional(lt(vol, ufl.Circumradius(P["mesh"])), f, g)),
        ("grad-arg<1", conditional(lt(ufl.grad(v)[0], 1), f, g)),
        ("grad-coef<1", conditional(lt(ufl.grad(f)[0], 1), f, g)),
        ("and-or", conditional(ufl.And(gt(x[0], 1), ufl.Or(le(x[1], v), ufl.Not(lt(v, 0)))), f, g)),
        ("and-complex", conditional(ufl.And(gt(x[0], 1), le(x[1], f)), f, g)),
        ("eq-coef", conditional(eq(f, 0), f, g)),
        ("eq-cond-branch", conditional(lt(conditional(eq(f, 0), 1.0, 2.0), 1.5), f, g)),
        ("sign", ufl.sign(x[0]) * f),
        ("sign-coef", ufl.sign(f) * g),
        ("nested-re", conditional(lt(real(x[0]), real(real(f))), f, g)),
        ("lit<lit", conditional(lt(as_ufl(1), as_ufl(2)), f, g)),
        ("zero<x", conditional(lt(0 * f, x[0]), f, g)),
        ("cond-real-branches<", conditional(lt(conditional(lt(x[0], 0), x[1], 2.0), v), f, g)),
        ("min-of-min", min_value(min_value(x[0], x[1]), max_value(v, 1)) * f),
        ("min-complex", min_value(f, 1) * g),
        ("max-sqrt", max_value(sqrt(x[0] * x[0] + 1), 1) * g),
        ("restricted<", conditional(lt(x[0]("+"), v("-")), f("+"), g("-"))),
        ("under-indexsum", conditional(lt(x[0], 0), w[i], 2 * w[i]) * w[i]),
        ("tensor-cond", conditional(lt(x[0], x[1]), w, 2 * w)),
        ("no-comparison", f * g + w[0] * imag(c)),
        ("pow-coef-exponent", x[0] ** g * f),
        ("pow-const-exponent", f ** c * g),
        ("pow-arg-exponent", f ** v),
        ("pow-sum-exponent", f ** (g + 1)),
        ("pow-geometry-exponent", f ** vol),
        ("pow-abs-exponent", x[1] ** abs(g) * f),
        ("pow-indexed-exponent", f ** w[0]),
    ]
    return P, out


def directed_remove_cases():
    import ufl
    from ufl import conditional, lt, real, imag, conj, as_ufl
    P = directed_pool()
    f, g, w, v, u, c, x, n, vol = (P[k] for k in "f g w v u c x n vol".split())
    i = ufl.Index()
    out = [
        ("conj", conj(f) * g), ("re", real(f) + g), ("im", imag(f) * g), ("cplx-lit", as_ufl(1 + 2j) * f), ("cplx-exponent", f ** as_ufl(2j)),
        ("inner-lowered", ufl.algorithms.apply_algebra_lowering.apply_algebra_lowering(ufl.inner(w, w))),
        ("conj-tensor", conj(w)[0] * f), ("re-re", real(real(f * g))), ("conj-sum-folds", conj(f) + 0 * g + real(f)),
        ("conj-under-cond", conditional(lt(real(f), conj(g)), conj(f) * f, g)), ("conj-under-sum", conj(w[i]) * w[i]),
        ("im-deep", conditional(lt(f, g), f, imag(g) * f)), ("plain", f * g + x[0]),
        ("literal-appears", ufl.cos(real(ufl.as_vector([-0.25, x[0]]))[0]) * f), ("zero-appears", ufl.sin(conj(ufl.as_vector([0 * f, g]))[0] + g)),
        ("conj-in-division", f / (conj(g) * g + 1)), ("conj-product-resort", conj(g) * f + real(f) * g),
    ]
    return P, out


class C23(Prop):
    pid = "C23"
    lean_modules = ["UflVerif.Props.C23", "UflVerif.Props.C23Complex"]
    min_theorems = 16
    trusted = ["correspondence harness/props/c23.py + Drivers/C23.lean `(check e)` / `(checkfixed e)` / `(remove e)` / `(handlers C)` / `(realcls)`",
               "the independent complex evaluator in harness/props/c23.py (oracle only: Python complex arithmetic, cmath, power series for Bessel functions)",
               "modelled rather than verified: `float(exponent)` is modelled for literal exponents only (a closed non-literal exponent such as min_value(2, 3) is point-evaluated by the code; "
               "the model types the power complex); DAG sharing / the `nodetype` dict keyed by `==` are modelled by a function of the tree",
               "the value theorems are about the passes without the constructor simplifications `_ufl_expr_reconstruct_` applies (`wrapE`, `stripE`); that those preserve values is C05, "
               "and the passes with them (`checkE`, `removeE`) are what is compared with the implementation"]
    assumptions = ["domain of the value theorems: well-formed expressions of the core fragment (WF: algebra, index notation, conditionals, min/max, math functions, variables, restrictions, grad of terminals)",
                   "arguments and geometric quantities are real-valued (what `CheckComparisons.terminal` assumes); exp, cos, sin, tan, cosh, sinh, tanh, atan, erf, atan2 map reals to reals",
                   "code as it stands: the theorems carry the side condition `SafeFns false e` (no ln / acos / asin node); full statements hold for the repaired typing (C23_fixed_*)"]

    def regenerate(self, ctx):
        text, self.stats = dispatch.render()
        p = LEAN / "UflVerif/Gen/Dispatch.lean"
        return [(p.relative_to(LEAN), write_if_changed(p, text))]

    # ------------------------------------------------------------------------------------------------
    def case_rng(self, ctx_seed, stream, k):
        return random.Random((ctx_seed * 9973 + 23) * 1000003 + stream * 500009 + k)

    def gen_check_case(self, seed, k):
        """an integrand for the comparison check"""
        rng = self.case_rng(seed, 1, k)
        G = CGen(rng, gdim=rng.choice([2, 3]), real_bias=rng.choice([0.2, 0.5, 0.8, 0.95, 1.0]), mode="complex",
                 partial=(0.5 if k % 6 == 5 else 0.0), math=(k % 2 == 0), compound=(k % 3 == 0), derivs=(k % 5 == 0), reuse=0.7,
                 variables=(k % 4 == 0), restricted=False, extra=rng.choice([0.3, 0.45, 0.6]))
        sh = rng.choice([(), (), (), (2,), (2, 2)])
        e = G.expr(sh, (), rng.randint(2, 4))
        return G, e

    def gen_remove_case(self, seed, k):
        rng = self.case_rng(seed, 2, k)
        G = CGen(rng, gdim=rng.choice([2, 3]), real_bias=rng.choice([0.0, 0.3, 0.6]), mode="real",
                 math=(k % 2 == 0), compound=False, derivs=False, reuse=0.7, variables=(k % 4 == 0), extra=rng.choice([0.3, 0.5]))
        G.allow_imag = (k % 4 == 1)
        G.allow_cplx = (k % 4 == 2)
        sh = rng.choice([(), (), (2,), (2, 2)])
        e = G.expr(sh, (), rng.randint(2, 4))
        return G, e

    # ------------------------------------------------------------------------------------------------
    def table_tie(self, fails, ev):
        """exhaustive: for every registered Expr type the handler body the live classes dispatch to == the handler the model uses;
        the terminal classes typed real; returns the typing variant ('check' | 'checkfixed') the live CheckComparisons implements"""
        import ast, inspect, textwrap
        from ufl.core.expr import Expr
        from ufl.core.terminal import Terminal
        from ufl.corealg.multifunction import MultiFunction
        from ufl.algorithms.comparison_checker import CheckComparisons
        from ufl.algorithms.remove_complex_nodes import ComplexNodeRemoval
        import ufl.classes as C
        CheckComparisons(); ComplexNodeRemoval()
        classes = [c for c in Expr._ufl_all_classes_ if issubclass(c, Expr)]
        ops = [c for c in classes if not issubclass(c, Terminal) and not c._ufl_is_abstract_]      # abstract types have no instances
        body = lambda A, c: getattr(A, MultiFunction._handlers_cache[A][0][c._ufl_typecode_]).__name__
        replies = leandrv.run_driver("C23", ["(handlers %s)" % c.__name__ for c in ops] + ["(realcls)"])
        BODY = dict(lt="compare", gt="compare", le="compare", ge="compare", expr="expr")
        RBODY = dict(expr="reuse_if_untouched")
        match = {"check": True, "checkfixed": True}
        nbad = 0
        for c, rep in zip(ops, replies):
            cur, fixed, rem = rep[4:-1].split()
            live_c, live_r = body(CheckComparisons, c), body(ComplexNodeRemoval, c)
            if BODY.get(cur, cur) != live_c:
                match["check"] = False
            if BODY.get(fixed, fixed) != live_c:
                match["checkfixed"] = False
            if BODY.get(cur, cur) != live_c and BODY.get(fixed, fixed) != live_c:
                nbad += 1
                fails.append(Failure("translator", "dispatch CheckComparisons", "%s is dispatched to `%s`; the model uses `%s` (repaired typing: `%s`)" % (c.__name__, live_c, cur, fixed)))
            if RBODY.get(rem, rem) != live_r:
                nbad += 1
                fails.append(Failure("translator", "dispatch ComplexNodeRemoval", "%s is dispatched to `%s`; the model uses `%s`" % (c.__name__, live_r, rem)))
        for c in classes:
            if issubclass(c, Terminal):
                if body(CheckComparisons, c) != "terminal" or body(ComplexNodeRemoval, c) != "terminal":
                    nbad += 1
                    fails.append(Failure("translator", "dispatch terminal", "%s is not dispatched to `terminal`" % c.__name__))
        variant = "check" if match["check"] else ("checkfixed" if match["checkfixed"] else None)
        if variant is None and not nbad:
            fails.append(Failure("translator", "dispatch CheckComparisons", "the live handler table is neither the modelled table nor the table of the modelled repair"))
        # terminal classes typed real: the model reads the regenerated MRO table; the handler's isinstance tuple is read from its source
        model_real = set(replies[-1][4:-1].split())
        src = textwrap.dedent(inspect.getsource(CheckComparisons.terminal))
        names = None
        for nd in ast.walk(ast.parse(src)):
            if isinstance(nd, ast.Call) and getattr(nd.func, "id", None) == "isinstance" and len(nd.args) == 2:
                def flat(a):
                    if isinstance(a, ast.BinOp) and isinstance(a.op, ast.BitOr):
                        return flat(a.left) + flat(a.right)
                    if isinstance(a, ast.Tuple):
                        return [x for el in a.elts for x in flat(el)]
                    return [getattr(a, "id", getattr(a, "attr", "?"))]
                names = set(flat(nd.args[1]))
        if names != {"RealValue", "Zero", "Argument", "GeometricQuantity"}:
            fails.append(Failure("translator", "CheckComparisons.terminal", "the handler tests isinstance against %s; the model assumes RealValue | Zero | Argument | GeometricQuantity" % names))
        live_real = {c.__name__ for c in classes if issubclass(c, (C.RealValue, C.Zero, C.Argument, C.GeometricQuantity))}
        if live_real != model_real:
            fails.append(Failure("translator", "real terminal classes", "model: %s | live: %s" % (sorted(model_real - live_real), sorted(live_real - model_real))))
        ev.cov["dispatch_table"] = dict(operator_types=len(ops), terminal_types=len([c for c in classes if issubclass(c, Terminal)]), real_terminal_classes=len(live_real), live_typing=variant)
        return variant or "check"

    # ------------------------------------------------------------------------------------------------
    def correspondence(self, ctx, ev):
        n = 300 if ctx.quick else 6000
        memo, self.keep = {}, []
        fails = []
        self.bad = []
        variant = self.table_tie(fails, ev)
        self.variant = variant
        reqs, meta = [], []
        P, dchk = directed_check_cases()
        Pr, drem = directed_remove_cases()
        self.keep += [P, Pr]
        self.check_cases, self.remove_cases = [], []
        hist = {}
        for name, e in dchk:
            self.check_cases.append(("directed:" + name, None, e))
        for k in range(n):
            G, e = self.gen_check_case(ctx.seed, k)
            for key, val in G.stats.items():
                hist[key] = hist.get(key, 0) + val
            self.check_cases.append(("random:%d" % k, G, e))
        for name, e in drem:
            self.remove_cases.append(("directed:" + name, None, e))
        for k in range(n):
            G, e = self.gen_remove_case(ctx.seed, k)
            self.remove_cases.append(("random:%d" % k, G, e))
        self.check_results, self.remove_results = [], []
        for cid, G, e in self.check_cases:
            res = run_check(e)
            self.check_results.append(res)
            if res[0] == "ok":
                impl = "(ok %s %s)" % (uflio.ser(res[1], memo), res[2].nodetype[res[1]])
            elif res[0] == "diverges":
                impl = "(diverges)"
            else:
                impl = "(raises)"
            reqs.append("(%s %s)" % (variant, uflio.ser(e, memo))); meta.append(("check", cid, e, res, impl))
        for cid, G, e in self.remove_cases:
            res = run_remove(e)
            self.remove_results.append(res)
            impl = "(ok %s)" % uflio.ser(res[1], memo) if res[0] == "ok" else "(raises)"
            reqs.append("(remove %s)" % uflio.ser(e, memo)); meta.append(("remove", cid, e, res, impl))
        replies = leandrv.run_driver("C23", reqs)
        stats = dict(check_ok=0, check_raises=0, check_diverges=0, remove_ok=0, remove_raises=0, unsupported=0, other_exceptions={},
                     accepted_with_wrapped_comparison=0, rejected_complex_comparison=0)
        distinct = set()
        for (what, cid, e, res, impl), rq, rep in zip(meta, reqs, replies):
            if rep == "(unsupported)":
                stats["unsupported"] += 1
                continue
            stats["%s_%s" % (what, res[0])] += 1
            if res[0] == "raises" and res[1] not in ("ComplexComparisonError", "ValueError"):
                stats["other_exceptions"][res[1]] = stats["other_exceptions"].get(res[1], 0) + 1
            if res[0] == "diverges":
                continue          # reported by the oracle (the model is a total function; it has the behaviour of the terminating runs)
            if uflio.alpha(canon(impl)) != uflio.alpha(canon(rep)):
                if len(fails) < 12:
                    fails.append(Failure("correspondence", what, "case %s: %s | impl: %s | model: %s" % (cid, str(e)[:200], impl[:300], rep[:300]), case=rq[:4000]))
                continue
            changed = res[0] == "raises" or (res[1] is not e and not (res[1] == e))
            if what == "check" and res[0] == "ok" and changed:
                stats["accepted_with_wrapped_comparison"] += 1
            if what == "check" and res[0] == "raises":
                stats["rejected_complex_comparison"] += 1
            if changed and rq.count("(O ") >= 3:
                distinct.add(rq)
        ev.cov["evaluations"] = len(reqs)
        ev.cov["distinct_nontrivial"] = len(distinct)
        ev.cov["correspondence"] = stats
        ev.cov["generator_histogram"] = dict(sorted(hist.items()))
        ev.cov["traces_validated_against_impl"] = len(reqs) - stats["unsupported"] - stats["check_diverges"]
        ev.cov["rule"] = ("complex mode: %d directed integrands (every comparison kind x operand kinds the property names: ln/asin/acos/Bessel of reals, coefficients, constants, "
                          "Re/Im/conj/abs, variables, index sums, compound operators, integer / fractional / complex / non-literal exponents, restrictions) + type-directed random integrands "
                          "(gen.Gen with a real-typed-leaf bias in {0.2..1.0} and extra productions Re/Im/conj/abs, integer and fractional powers, complex literals, comparisons and min/max "
                          "of mostly-real operands, math functions incl. unguarded ln/asin/acos); real mode: %d directed + random integrands with conj/Re (and Im / complex literals in "
                          "half of them); compared: output tree (alpha-renamed), type of the root, raise / no raise; non-trivial = distinct request with >= 3 operator nodes that was rewritten or rejected"
                          % (len(dchk), len(drem)))
        ev.cov["samples"] = [dict(case=m[1], expr=str(m[2])[:120], impl=(str(m[3][1])[:120] if m[3][0] == "ok" else m[3][0] + ":" + str(m[3][1]))) for m in meta[:4]]
        return fails

    # ------------------------------------------------------------------------------------------------
    def oracle(self, ctx, ev):
        from ufl.algorithms.apply_algebra_lowering import apply_algebra_lowering
        import ufl.classes as C
        rng = random.Random(ctx.seed * 7919 + 2323)
        memo = {}
        wit = {}

        def add(key, what, data):
            if key not in wit:
                wit[key] = Witness(what=what, key=key, data=data)

        # (B) termination of the check
        div = [(cid, e) for (cid, G, e), res in zip(self.check_cases, self.check_results) if res[0] == "diverges"]
        if div:
            kinds = sorted({type(o.ufl_operands[1]).__name__ for cid, e in div for o in nodes(e) if type(o).__name__ == "Power"
                            and not isinstance(o.ufl_operands[1], (C.ScalarValue, C.Zero))})
            cid, e = min(div, key=lambda p: (not p[0].startswith("directed"), len(str(p[1]))))
            add("C23:check-does-not-terminate:float-of-nonliteral-exponent",
                "complex-mode comparison check does not terminate (exponential recursion Expr.__float__ <-> Terminal.evaluate in CheckComparisons.power) on %s [%s]; exponent kinds %s"
                % (str(e)[:100], cid, kinds), dict(kind="diverges", case=cid, seed=ctx.seed, tier=ctx.tier, expr=repr(e)[:400], cases=len(div)))
        # (A) accepted integrands: comparison operands real-valued for complex coefficient data; value unchanged
        evreqs, evmeta = [], []
        n_operands = n_values = n_lean = 0
        culprits, first = {}, {}
        over_rejected = 0
        for (cid, G, e), res in zip(self.check_cases, self.check_results):
            if res[0] == "raises" and res[1] == "ComplexComparisonError":
                # evidence only: was the rejection necessary on this data?
                try:
                    low = apply_algebra_lowering(e)
                    terms = [t for t in nodes(low) if t._ufl_is_terminal_ and not isinstance(t, (C.ConstantValue, C.MultiIndex, C.Label))]
                    allreal = True
                    for _ in range(2):
                        evl = CEval(complex_values(rng, terms), strict_order=False)
                        comp = tuple(rng.randrange(d) for d in low.ufl_shape)
                        evl.ev(low, {}, comp)
                        allreal = allreal and all(is_real(v) for _, v, _ in evl.rec)
                    over_rejected += allreal
                except Exception:  # noqa
                    pass
                continue
            if res[0] != "ok":
                continue
            r, cc = res[1], res[2]
            try:
                low_e, low_r = apply_algebra_lowering(e), apply_algebra_lowering(r)
            except Exception:  # noqa
                continue
            terms = [t for t in nodes(low_e) + nodes(low_r) if t._ufl_is_terminal_ and not isinstance(t, (C.ConstantValue, C.MultiIndex, C.Label))]
            for rep in range(2):
                vals = complex_values(rng, terms, fixed=(rep == 0 and G is None))
                comp = tuple(rng.randrange(d) for d in low_r.ufl_shape)
                ev_r = CEval(vals, strict_order=False)
                try:
                    vr = ev_r.ev(low_r, {}, comp)
                except NotEvaluable:
                    break
                for inner, v, idx in ev_r.rec:
                    n_operands += 1
                    if not is_real(v):
                        cu = culprit(ev_r, cc, inner, idx)
                        cname = type(cu).__name__ if cu is not None else "?"
                        culprits[cname] = culprits.get(cname, 0) + 1
                        rank = (not cid.startswith("directed"), len(str(e)))
                        if cname not in first or rank < first[cname][4]:
                            first[cname] = (cid, str(inner)[:120], str(e)[:300], repr(v), rank)
                ev_e = CEval(vals, strict_order=True)
                try:
                    ve = ev_e.ev(low_e, {}, comp)
                except (NotEvaluable, ComplexOrder):
                    continue
                n_values += 1
                if all(is_real(v) for _, v, _ in ev_r.rec) and abs(ve - vr) > 1e-7 * max(1.0, abs(ve)):
                    add("C23:check-changes-value", "complex-mode check changed the value of an accepted integrand: %s before, %s after :: %s [%s]" % (ve, vr, str(e)[:160], cid),
                        dict(kind="value", case=cid, seed=ctx.seed, tier=ctx.tier, expr=repr(e)[:400]))
            # real data through the denotational semantics (Lean eval driver)
            if G is not None and lean_evaluable(e) and lean_evaluable(r) and not (r is e):
                venv = gen.ValueEnv(rng, G)
                comp = tuple(rng.randrange(d) for d in e.ufl_shape)
                w = venv.wire()
                evmeta.append(("check", cid, e, len(evreqs)))
                evreqs.append("(eval %s %s %s ())" % (uflio.ser(e, memo), uflio.nats(comp), w))
                evreqs.append("(eval %s %s %s ())" % (uflio.ser(r, memo), uflio.nats(comp), w))
        for cname in sorted(culprits):      # one finding per node type that is typed real but complex-valued (stable keys)
            c0 = first[cname]
            add("C23:complex-operand-accepted:" + cname,
                "complex-mode check accepts an ordering comparison / min / max whose operand is not real for real arguments and geometry: operand %s = %s in %s [%s]; node type typed real but complex-valued: %s (%d operands)"
                % (c0[1], c0[3], c0[2][:120], c0[0], cname, culprits[cname]), dict(kind="complex-operand", culprit=cname, count=culprits[cname], seed=ctx.seed, tier=ctx.tier, case=c0[0], examples=first[cname][:3]))
        # (C) real mode
        n_rem = 0
        for (cid, G, e), res in zip(self.remove_cases, self.remove_results):
            must_raise = any(isinstance(o, (C.Imag, C.ComplexValue)) for o in nodes(e))
            n_rem += 1
            if must_raise and res[0] == "ok":
                add("C23:remove-accepts-imag-or-complex-literal", "remove_complex_nodes accepted an integrand with an imaginary part / complex literal: %s [%s]" % (str(e)[:160], cid),
                    dict(kind="remove-accept", case=cid, seed=ctx.seed, tier=ctx.tier, expr=repr(e)[:400]))
            if not must_raise and res[0] != "ok":
                add("C23:remove-raises:" + res[1], "remove_complex_nodes raised %s on an integrand without imaginary parts and complex literals: %s [%s]" % (res[1], str(e)[:160], cid),
                    dict(kind="remove-raise", case=cid, seed=ctx.seed, tier=ctx.tier, expr=repr(e)[:400]))
            if res[0] == "ok":
                r = res[1]
                if any(isinstance(o, (C.Conj, C.Real)) for o in nodes(r)):
                    add("C23:remove-leaves-conj-or-real", "remove_complex_nodes left a conj / Re node: %s [%s]" % (str(r)[:160], cid),
                        dict(kind="remove-left", case=cid, seed=ctx.seed, tier=ctx.tier, expr=repr(e)[:400]))
                if G is not None and lean_evaluable(e) and lean_evaluable(r) and not (r is e):
                    venv = gen.ValueEnv(rng, G)
                    comp = tuple(rng.randrange(d) for d in e.ufl_shape)
                    w = venv.wire()
                    evmeta.append(("remove", cid, e, len(evreqs)))
                    evreqs.append("(eval %s %s %s ())" % (uflio.ser(e, memo), uflio.nats(comp), w))
                    evreqs.append("(eval %s %s %s ())" % (uflio.ser(r, memo), uflio.nats(comp), w))
        vals = [parse_reply(x) for x in leandrv.run_driver("Expr", evreqs)]
        for what, cid, e, i in evmeta:
            a, b = vals[i], vals[i + 1]
            if a[0] not in ("ok", "okf") or b[0] not in ("ok", "okf"):
                continue
            n_lean += 1
            if a[0] == "ok" and b[0] == "ok":
                same = _V(a[1]) == _V(b[1])
            else:
                fa, fb = a[2], b[2]
                same = (math.isnan(fa) and math.isnan(fb)) or fa == fb or abs(fa - fb) <= 1e-9 * max(1.0, abs(fa), abs(fb))
            if not same:
                add("C23:%s-changes-value-real-data" % what, "%s changed the value for real data (denotational eval): %s vs %s :: %s [%s]" % (
                    "complex-mode check" if what == "check" else "remove_complex_nodes", a[1] if a[0] == "ok" else a[2], b[1] if b[0] == "ok" else b[2], str(e)[:160], cid),
                    dict(kind="value-real:" + what, case=cid, seed=ctx.seed, tier=ctx.tier, expr=repr(e)[:400]))
        ev.cov["oracle"] = dict(comparison_operands_evaluated_with_complex_data=n_operands, value_checks_complex_data=n_values, value_checks_denotational_real_data=n_lean,
                                remove_cases=n_rem, check_diverged=len(div), operands_not_real_by_culprit=culprits,
                                rejected_although_operands_real_on_sampled_data=over_rejected)
        return list(wit.values())

    # ------------------------------------------------------------------------------------------------
    def replay(self, ctx, data):
        """re-run the recorded case through the same oracle"""
        d = data.get("data", {})
        cid = d.get("case", "")
        seed = int(d.get("seed", 0))
        ctx2 = common.Ctx(pid="C23", tier=d.get("tier", "quick"), seed=seed)
        ev = common.Evidence(ctx2)
        self.correspondence(ctx2, ev)
        for w in self.oracle(ctx2, ev):
            if w.key == data.get("key"):
                return w
        return None


PROP = C23()
