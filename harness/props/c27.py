"""C27 Algorithms never mutate their inputs.

Ties (DESIGN.md 5, C27):
 (i)  translator  harness/translate/writes.py -> Gen/Writes.lean: every write site of ufl/ with the kind of its target, and every
      class whose __new__ may return an existing object together with the guard status of its __init__; Props/C27Sites.lean
      decides that every site has a harmless kind or is individually reviewed.
 (ii) correspondence: a write monitor (type-level __setattr__ hooks on Expr / BaseForm / Integral / Measure installed from this
      process, dict subclass for metadata — no source change) logs every write to an object that existed before an operation.
      Histories of operations (hash, ==, repr, str, Form accessors, Form.equals, and ~40 algorithms / operators with random
      options) run on generated expressions and forms; the same histories go to Drivers/C27.lean, which predicts the writes of the
      operations the model describes exactly (hash, ==, accessors, equals) and validates every logged write of the opaque
      algorithms as an instance of a model write kind with its guard; the final states are compared node by node.
 oracle: the property read literally — snapshots of repr / str / hash / shape of every pre-existing node, and of repr / hash /
      signature / arguments / coefficients / domains / numbering / integral metadata of every pre-existing form, integral,
      measure and user dictionary, before and after each history; plus directed cases for the corners the property names."""
import hashlib
import os
import random
import sys
import traceback

import common
from common import Prop, Witness, Failure, REPO
import gen
import leandrv

leandrv.EXES["C27"] = "c27drv"

SLOT_ATTRS = ["_arguments", "_coefficients", "_geometric_quantities", "_integration_domains", "_domain_numbering",
              "_subdomain_data", "_coefficient_numbering", "_constant_numbering", "_terminal_numbering",
              "_base_form_operators", "_hash", "_signature"]          # order of FField.all in Model/Writes.lean
SLOT_ACC = ["arguments", "coefficients", "geometric_quantities", "ufl_domains", "domain_numbering", "subdomain_data",
            "coefficient_numbering", "constant_numbering", "terminal_numbering", "base_form_operators", "__hash__", "signature"]
MISSING = object()


# ---------------------------------------------------------------------------------------------------------------
# the write monitor

class Monitor:
    """type-level __setattr__/__delattr__ hooks; a write is logged when the monitor is active and the target is registered
    as pre-existing"""
    inst = None

    def __init__(self):
        import ufl  # noqa
        from ufl.core.expr import Expr
        from ufl.form import BaseForm
        from ufl.integral import Integral
        from ufl.measure import Measure
        self.active = False
        self.pre = {}          # id -> object (kept alive)
        self.log = []
        self.total = 0         # all writes seen while active (fresh targets included)
        self.bases = (Expr, BaseForm, Integral, Measure)
        for b in self.bases:
            self._hook(b)

    def _hook(self, base):
        orig_set, orig_del = base.__setattr__, base.__delattr__
        mon = self

        def hook_set(obj, name, value):
            if mon.active:
                mon.total += 1
                if id(obj) in mon.pre:
                    try:
                        old = object.__getattribute__(obj, name)
                    except AttributeError:
                        old = MISSING
                    f = sys._getframe(1)
                    mon.log.append((obj, name, old, value, f.f_code.co_name, os.path.basename(f.f_code.co_filename), f.f_lineno))
            orig_set(obj, name, value)

        def hook_del(obj, name):
            if mon.active and id(obj) in mon.pre:
                f = sys._getframe(1)
                mon.log.append((obj, name, MISSING, MISSING, "del:" + f.f_code.co_name, os.path.basename(f.f_code.co_filename), f.f_lineno))
            orig_del(obj, name)
        base.__setattr__ = hook_set
        base.__delattr__ = hook_del

    @classmethod
    def get(cls):
        if cls.inst is None:
            cls.inst = Monitor()
        return cls.inst

    def run(self, fn):
        """run fn with the monitor active; returns (result | None, exception | None, log entries)"""
        self.log = []
        self.active = True
        try:
            try:
                r, exc = fn(), None
            except RecursionError as e:
                r, exc = None, e
            except (KeyboardInterrupt, SystemExit):
                raise
            except BaseException as e:  # noqa: an algorithm may reject its input (ArityMismatch is a BaseException); the property still applies
                r, exc = None, e
        finally:
            self.active = False
        log, self.log = self.log, []
        return r, exc, log


class WatchDict(dict):
    """metadata dictionary that reports in-place changes (Measure / Integral store the object they are given)"""
    writes = []

    def _w(self, what):
        if Monitor.inst is not None and Monitor.inst.active:
            f = sys._getframe(2)
            WatchDict.writes.append((id(self), what, f.f_code.co_name, os.path.basename(f.f_code.co_filename), f.f_lineno))

    def __setitem__(self, k, v):
        self._w("setitem"); dict.__setitem__(self, k, v)

    def __delitem__(self, k):
        self._w("delitem"); dict.__delitem__(self, k)

    def update(self, *a, **k):
        self._w("update"); dict.update(self, *a, **k)

    def pop(self, *a):
        self._w("pop"); return dict.pop(self, *a)

    def popitem(self):
        self._w("popitem"); return dict.popitem(self)

    def clear(self):
        self._w("clear"); dict.clear(self)

    def setdefault(self, *a):
        self._w("setdefault"); return dict.setdefault(self, *a)

    def __ior__(self, o):
        self._w("ior"); return dict.__ior__(self, o)


# ---------------------------------------------------------------------------------------------------------------
# the world of pre-existing objects of one history, and its wire format

class World:
    def __init__(self, mon):
        self.mon = mon
        self.tags = {}        # id(obj) -> tag
        self.objs = {}        # tag -> obj
        self.otags = {}       # id(tuple) -> (tuple, otag)
        self.intern = {}
        self.next = 1
        self.roots, self.forms, self.others, self.dicts = [], [], [], []
        self.sent = set()     # node tags already described to the driver

    def i(self, s):
        return self.intern.setdefault(s, len(self.intern) + 1)

    def tag(self, o):
        t = self.tags.get(id(o))
        if t is None:
            t = self.next
            self.next += 1
            self.tags[id(o)] = t
            self.objs[t] = o
            self.mon.pre[id(o)] = o
        return t

    def otag(self, tup):
        if len(tup) == 0:
            return 0
        e = self.otags.get(id(tup))
        if e is None:
            e = (tup, len(self.otags) + 1)
            self.otags[id(tup)] = e
        return e[1]

    @staticmethod
    def nodes_of(e):
        """all nodes below e (unique by identity), children first"""
        out, seen, stack = [], set(), [(e, False)]
        while stack:
            o, done = stack.pop()
            if done:
                out.append(o)
                continue
            if id(o) in seen:
                continue
            seen.add(id(o))
            stack.append((o, True))
            for c in o.ufl_operands:
                stack.append((c, False))
        return out

    def register_expr(self, e, root=True):
        for n in self.nodes_of(e):
            self.tag(n)
        if root:
            self.roots.append(e)

    def register_form(self, F):
        self.tag(F)
        for itg in F.integrals():
            self.tag(itg)
            self.register_expr(itg.integrand(), root=False)
            md = itg.metadata()
            if not any(md is d for d in self.dicts):
                self.dicts.append(md)
        self.forms.append(F)

    def node_line(self, n):
        from ufl.core.expr import Expr
        payload = "(%d)" % self.i(repr(n)) if n._ufl_is_terminal_ else "()"
        kids = " ".join(str(self.tag(c)) for c in n.ufl_operands)
        memo = 1 if object.__getattribute__(n, "_hash") is not None else 0
        return "(n %d %d %s %d %d (%s))" % (self.tag(n), n._ufl_typecode_, payload, self.otag(n.ufl_operands), memo, kids)

    def all_nodes(self):
        from ufl.core.expr import Expr
        return [o for o in self.objs.values() if isinstance(o, Expr)]

    def form_line(self, F):
        from ufl.protocols import id_or_none
        filled = [k for k, a in enumerate(SLOT_ATTRS) if getattr(F, a, None) is not None]
        its = []
        for itg in F.integrals():
            pre = [self.i(itg.integral_type()), self.i(repr(itg.ufl_domain())), self.i(repr(itg.subdomain_id()))]
            post = [self.i(str(id_or_none(itg.subdomain_data()))), self.i(repr(itg.extra_domain_integral_type_map()))]
            md = sorted((self.i(repr(k)), self.i(repr(v))) for k, v in itg.metadata().items())
            its.append("(i %d %d (%s) (%s) (%s))" % (self.tag(itg), self.tag(itg.integrand()), " ".join(map(str, pre)),
                                                     " ".join(map(str, post)), " ".join("(%d %d)" % kv for kv in md)))
        return "(f %d (%s) %s)" % (self.tag(F), " ".join(map(str, filled)), " ".join(its))

    def state(self, head):
        # register nodes that became reachable through operand sharing
        for e in list(self.all_nodes()):
            for c in e.ufl_operands:
                if id(c) not in self.tags:
                    self.register_expr(c, root=False)
        nodes = self.all_nodes()
        self.sent.update(self.tag(n) for n in nodes)
        return "(%s (nodes %s) (forms %s))" % (head, " ".join(self.node_line(n) for n in nodes), " ".join(self.form_line(F) for F in self.forms))

    # ---- the log of one operation as model writes
    def writes(self, log, collapse):
        """-> (list of W strings, list of new node lines, list of unclassified entries)"""
        from ufl.core.expr import Expr
        from ufl.form import Form
        ws, new_nodes, bad = [], [], []
        seen_args = set()
        for (obj, name, old, value, fn, fil, line) in log:
            if isinstance(obj, Expr) and name == "_hash" and fn == "compute_expr_hash":
                ws.append(("h", self.tag(obj), "(h %d)" % self.tag(obj)))
                if old is not None and old is not MISSING:
                    bad.append((obj, name, fn, fil, line, "rewrite of a filled _hash slot"))
            elif isinstance(obj, Expr) and name == "_hash" and fn == "__init__" and value is None and fil == "expr.py":
                # Expr.__init__ re-run on an existing node (Sum(s, 0) returns s, ...): the slot is emptied.  Harmless only if the
                # same constructor call writes nothing else to the node (checked below: any other __init__ write is unclassified)
                if old is not None and old is not MISSING:
                    ws.append(("z", self.tag(obj), "(z %d)" % self.tag(obj)))
            elif isinstance(obj, Expr) and name == "ufl_operands" and fn == "expr_equals":
                for c in value:
                    if id(c) not in self.tags:
                        self.register_expr(c, root=False)
                for c in value:
                    for n in self.nodes_of(c):
                        if self.tag(n) not in self.sent:
                            self.sent.add(self.tag(n))
                            new_nodes.append(self.node_line(n))
                ws.append(("s", self.tag(obj), "(s %d %d (%s))" % (self.tag(obj), self.otag(value), " ".join(str(self.tag(c)) for c in value))))
            elif type(obj) is Form and name in SLOT_ATTRS and fn in ("__hash__", "_compute_signature", "_analyze_form_arguments",
                                                                     "_analyze_domains", "_analyze_subdomain_data", "_analyze_base_form_operators",
                                                                     "coefficient_numbering", "constant_numbering", "terminal_numbering"):
                k = SLOT_ATTRS.index(name)
                if collapse and fn == "_analyze_form_arguments":
                    if (id(obj), "args") in seen_args:
                        continue
                    seen_args.add((id(obj), "args"))
                    k = 0
                ws.append(("m", self.tag(obj) * 64 + k, "(m %d %d)" % (self.tag(obj), k)))
            else:
                bad.append((obj, name, fn, fil, line, "no model write kind"))
        return ws, new_nodes, bad


def wsort(ws):
    key = {"h": lambda t: t * 64, "s": lambda t: t * 64 + 1, "m": lambda t: t + 2, "z": lambda t: t * 64 + 63}
    uniq = {}
    for kind, t, s in ws:
        uniq.setdefault((key[kind](t), s), s)
    return "(w" + "".join(" " + s for (_, s) in sorted(uniq)) + ")"


# ---------------------------------------------------------------------------------------------------------------
# snapshots: the property read literally

def sha(s):
    return hashlib.sha1(s.encode("utf-8", "replace")).hexdigest()[:16]


def safe(fn):
    try:
        return fn()
    except RecursionError:
        return "raises:RecursionError"
    except Exception as e:  # noqa
        return "raises:" + type(e).__name__


def snap_node(n):
    return (safe(lambda: sha(repr(n))), safe(lambda: sha(str(n))), safe(lambda: tuple(n.ufl_shape)), safe(lambda: tuple(n.ufl_free_indices)),
            safe(lambda: tuple(n.ufl_index_dimensions)), type(n).__name__, len(n.ufl_operands))


def snap_integral(itg):
    return (safe(lambda: sha(repr(itg))), itg.integral_type(), repr(itg.subdomain_id()), repr(sorted(itg.metadata().items(), key=repr)),
            id(itg.metadata()), id(itg.subdomain_data()), safe(lambda: sha(repr(itg.ufl_domain()))), id(itg.integrand()),
            repr(itg.extra_domain_integral_type_map()))


def snap_form_cold(F):
    """observers that have no side effect on F (repr and plain field reads)"""
    return (safe(lambda: sha(repr(F))), tuple(snap_integral(i) for i in F.integrals()), tuple(id(i) for i in F.integrals()))


def snap_form_warm(F):
    """observers that fill memo slots: hash, signature, arguments, coefficients, …"""
    def names(xs):
        return tuple(sha(repr(x)) for x in xs)
    return dict(hash=safe(lambda: hash(F)), signature=safe(F.signature), arguments=safe(lambda: names(F.arguments())),
                coefficients=safe(lambda: names(F.coefficients())), constants=safe(lambda: names(F.constants())),
                domains=safe(lambda: names(F.ufl_domains())),
                coefficient_numbering=safe(lambda: tuple(sorted((sha(repr(k)), v) for k, v in F.coefficient_numbering().items()))),
                terminal_numbering=safe(lambda: tuple(sorted((sha(repr(k)), v) for k, v in F.terminal_numbering().items()))),
                domain_numbering=safe(lambda: tuple(sorted((sha(repr(k)), v) for k, v in F.domain_numbering().items()))),
                subdomain_data=safe(lambda: sha(repr(F.subdomain_data()))), str=safe(lambda: sha(str(F))),
                base_form_operators=safe(lambda: names(F.base_form_operators())))


def clone_expr(e, memo):
    k = id(e)
    if k in memo:
        return memo[k][1]
    if e._ufl_is_terminal_:
        r = e
    else:
        r = e._ufl_expr_reconstruct_(*[clone_expr(c, memo) for c in e.ufl_operands])
    memo[k] = (e, r)
    return r


def clone_form(F):
    from ufl import Form
    memo = {}
    return Form([itg.reconstruct(integrand=clone_expr(itg.integrand(), memo)) for itg in F.integrals()])


# ---------------------------------------------------------------------------------------------------------------
# generation of objects and operations

class Case:
    """one history: a pool of terminals, a few expressions and forms, a list of operations"""

    def __init__(self, seed, k, tier):
        self.seed, self.k, self.tier = seed, k, tier
        self.rng = random.Random(seed * 9973 + 27 * 1000003 + k)
        self.stats = {}
        self.witnesses, self.failures = [], []
        self.lines, self.expect, self.opdesc = [], [], []

    def count(self, key, n=1):
        self.stats[key] = self.stats.get(key, 0) + n

    # ---- objects
    def build(self):
        import ufl
        from utils import LagrangeElement
        rng = self.rng
        deep = self.tier != "quick"
        gdim = rng.choice([2, 2, 3]) if deep else 2
        G = gen.Gen(rng, gdim=gdim, with_args=False, derivs=True, restricted=False, reuse=0.7, variables=True,
                    tensor_cond=False, compound=True)
        self.G, self.ufl = G, ufl
        cell = G.mesh.ufl_cell()
        self.V = ufl.FunctionSpace(G.mesh, LagrangeElement(cell, 1))
        self.W = ufl.FunctionSpace(G.mesh, LagrangeElement(cell, 1, (gdim,)))
        self.u, self.v = ufl.TrialFunction(self.V), ufl.TestFunction(self.V)
        self.ut, self.vt = ufl.TrialFunction(self.W), ufl.TestFunction(self.W)
        self.cV, self.cW = ufl.Coefficient(self.V), ufl.Coefficient(self.W)
        d = rng.randint(1, 3) if not deep else rng.randint(2, 4)
        self.exprs = []
        for _ in range(rng.randint(2, 3)):
            sh = rng.choice([(), (), (), (2,), (gdim,), (2, 2)])
            self.exprs.append(G.expr(sh, (), d))
        # a structurally equal twin of the first expression, built from the same terminals through the constructors
        self.twin = clone_expr(self.exprs[0], {})
        # near misses: the same expressions with one coefficient exchanged for another one of the same shape (equal type codes
        # everywhere, untouched sub-expressions shared with the original): `==` must say no and must not touch either side
        self.near = []
        from ufl.algorithms.replace import replace
        for e in self.exprs:
            cands = [t for t in G.terminals() if t is not G.x and len(G.coeffs.get(t.ufl_shape, [])) + len(G.consts.get(t.ufl_shape, [])) > 1]
            rng.shuffle(cands)
            nm = e
            for t in cands:
                others = [x for x in G.coeffs.get(t.ufl_shape, []) + G.consts.get(t.ufl_shape, []) if x is not t and type(x) is type(t)]
                if others:
                    try:
                        nm = replace(e, {t: rng.choice(others)})
                    except Exception:  # noqa
                        nm = e
                    if nm is not e and repr(nm) != repr(e):
                        break
            self.near.append(nm)
        self.user_dicts = []
        self.measures = []
        self.vec = rng.random() < 0.3
        self.forms = [self.gen_form(rng.choice([1, 2, 2])) for _ in range(2)]
        if rng.random() < 0.5:       # a twin of the first form (other Form / Integral / integrand objects, equal structure)
            self.forms.append(clone_form(self.forms[0]))
        else:
            self.forms.append(self.gen_form(1) if rng.random() < 0.5 else self.gen_form(0))

    def measure(self):
        ufl, rng = self.ufl, self.rng
        base = rng.choice([ufl.dx, ufl.dx, ufl.dx, ufl.ds, ufl.dx, ufl.dS])
        r = rng.random()
        if r < 0.3:
            m = base
        elif r < 0.45:
            m = base(rng.choice([1, 2, (1, 2)]))
        elif r < 0.65:
            md = WatchDict({"quadrature_degree": rng.choice([1, 2, 3])})
            if rng.random() < 0.3:
                md["quadrature_rule"] = "default"
            self.user_dicts.append(md)
            m = base(metadata=md)
        elif r < 0.8:
            m = base(degree=rng.choice([1, 2, 4]))
        elif r < 0.9:
            md = WatchDict({"custom": (1, 2)})
            self.user_dicts.append(md)
            m = base(rng.choice([1, 3]), metadata=md, degree=2)
        else:
            m = base(domain=self.G.mesh)
        self.measures.append(m)
        return m

    def gen_form(self, rank):
        ufl, rng, G = self.ufl, self.rng, self.G
        u, v, ut, vt = self.u, self.v, self.ut, self.vt
        d = rng.randint(1, 2) if self.tier == "quick" else rng.randint(1, 3)
        vec = self.vec                     # all arguments of the forms of a case come from one space
        terms = []
        for _ in range(rng.randint(1, 3)):
            m = self.measure()
            c = G.expr((), (), d)
            r = rng.random()
            try:
                if rank == 0:
                    it = c if r < 0.7 else ufl.inner(G.expr((2,), (), d), G.expr((2,), (), d))
                elif rank == 1 and vec:
                    it = ufl.inner(G.expr((G.gdim,), (), d), vt) if r < 0.6 else c * ufl.div(vt)
                elif rank == 1:
                    it = c * v if r < 0.5 else ufl.dot(ufl.grad(c), ufl.grad(v)) if r < 0.8 else c * v.dx(0)
                elif vec:
                    it = ufl.inner(ut, vt) * c if r < 0.6 else c * ufl.inner(ufl.grad(ut), ufl.grad(vt))
                else:
                    it = (c * u * v if r < 0.4 else c * ufl.inner(ufl.grad(u), ufl.grad(v)) if r < 0.75 else
                          ufl.dot(ufl.grad(u), G.expr((G.gdim,), (), d)) * v)
            except ValueError:       # e.g. grad of an expression without a domain (literals only)
                c = c + G.coeffs[()][0]
                it = c if rank == 0 else (c * (vt[0] if vec else v) if rank == 1 else c * ((ut[0] * vt[0]) if vec else u * v))
            if m.integral_type().startswith("interior_facet"):
                a1, a2 = (vt[0], ut[0]) if vec else (v, u)
                it = ufl.avg(it) if rank == 0 else (ufl.avg(c) * ufl.jump(a1) if rank == 1 else ufl.avg(c) * ufl.jump(a2) * ufl.jump(a1))
            try:
                terms.append(it * m)
            except ValueError:          # an integrand without any domain (literals only)
                terms.append((it + G.coeffs[()][0]) * m)
        F = terms[0]
        for t in terms[1:]:
            F = F + t
        return F

    # ---- operations.  Each returns (kind, thunk, description, extra) with kind in hash|eq|facc|fequals|alg
    def subexpr(self, e):
        nodes = World.nodes_of(e)
        return self.rng.choice(nodes)

    def pick_ops(self):
        rng = self.rng
        n = rng.randint(6, 10) if self.tier == "quick" else rng.randint(10, 18)
        ops = []
        for _ in range(n):
            r = rng.random()
            if r < 0.10:
                ops.append(("hash", rng.randrange(len(self.exprs) + 1), rng.random() < 0.4))
            elif r < 0.24:
                ops.append(("eq", rng.choice(["twin", "twin", "self", "other", "sub", "twinsub", "rev", "near", "near", "nearrev"]), rng.randrange(len(self.exprs))))
            elif r < 0.30:
                ops.append(("pure", rng.choice(["repr", "str", "shape"]), rng.randrange(len(self.exprs))))
            elif r < 0.45:
                ops.append(("facc", rng.randrange(len(self.forms)), rng.randrange(12)))
            elif r < 0.53:
                ops.append(("fequals", rng.randrange(len(self.forms)), rng.randrange(len(self.forms)), rng.choice(["equals", "eq", "ne"])))
            elif r < 0.75:
                ops.append(("ealg", rng.choice(EXPR_ALGS), rng.randrange(len(self.exprs))))
            else:
                ops.append(("falg", rng.choice(FORM_ALGS), rng.randrange(len(self.forms))))
        return ops


EXPR_ALGS = ["lower", "expand_derivatives", "renumber", "replace", "degree", "extract", "remove_complex", "strip_variables",
             "add", "scale", "neg", "abs", "pow", "conditional", "variable_diff", "dx", "grad", "index", "as_tensor", "Abs", "Conj", "Real",
             "Imag", "cond_same", "set", "dict", "map_dag", "sorted", "unicode", "apply_derivatives", "expand_indices", "inner_self",
             "restrict", "reconstruct", "Indexed", "ComponentTensor", "ListTensor"]
FORM_ALGS = ["cfd", "cfd", "cfd", "expand_derivatives", "replace", "action", "adjoint", "lhs", "rhs", "system", "derivative", "renumber", "lower",
             "pullbacks", "scaling", "geometry", "attach", "group", "add", "neg", "scale", "cscale", "str", "repr", "unicode",
             "degree", "validate", "energy_norm", "set", "integrals_by", "sig_twice", "restrictions", "apply_derivatives",
             "split_measure", "remeasure", "sensitivity", "functional", "extract_blocks", "coordinate_derivative", "formdata_str"]



def _algs():
    """the public algorithm functions, imported from their modules (ufl.algorithms re-exports only some of them)"""
    import types
    from ufl.algorithms.apply_algebra_lowering import apply_algebra_lowering
    from ufl.algorithms.apply_derivatives import apply_derivatives
    from ufl.algorithms.ad import expand_derivatives
    from ufl.algorithms.expand_indices import expand_indices
    from ufl.algorithms.renumbering import renumber_indices
    from ufl.algorithms.replace import replace
    from ufl.algorithms.estimate_degrees import estimate_total_polynomial_degree
    from ufl.algorithms.analysis import extract_coefficients, extract_type, extract_constants, has_type
    from ufl.algorithms.remove_complex_nodes import remove_complex_nodes
    from ufl.algorithms.transformer import strip_variables
    from ufl.algorithms.compute_form_data import compute_form_data, attach_estimated_degrees
    from ufl.algorithms.apply_function_pullbacks import apply_function_pullbacks
    from ufl.algorithms.apply_integral_scaling import apply_integral_scaling
    from ufl.algorithms.apply_geometry_lowering import apply_geometry_lowering
    from ufl.algorithms.apply_restrictions import apply_restrictions
    from ufl.algorithms.domain_analysis import group_form_integrals
    from ufl.algorithms.checks import validate_form
    from ufl.algorithms.signature import compute_form_signature
    from ufl.algorithms.formsplitter import extract_blocks
    return types.SimpleNamespace(**locals())


def run_expr_alg(c, name, e):
    """returns a thunk applying a public algorithm / operator to the pre-existing expression e"""
    import ufl
    A = _algs()
    from ufl import classes as C
    G, rng = c.G, c.rng
    other = c.exprs[(c.exprs.index(e) + 1) % len(c.exprs)] if any(e is x for x in c.exprs) else c.exprs[0]
    sc = [x for x in c.exprs if x.ufl_shape == ()] or [G.coeffs[()][0]]
    s0 = sc[0]
    if name == "lower":
        return lambda: A.apply_algebra_lowering(e)
    if name == "expand_derivatives":
        return lambda: A.expand_derivatives(e)
    if name == "apply_derivatives":
        return lambda: A.apply_derivatives(A.apply_algebra_lowering(e))
    if name == "expand_indices":
        return lambda: A.expand_indices(A.expand_derivatives(e if e.ufl_shape == () else s0))
    if name == "renumber":
        return lambda: A.renumber_indices(e)
    if name == "replace":
        terms = [t for t in G.terminals() if t is not G.x]
        t = rng.choice(terms)
        img = rng.choice([x for x in terms if x.ufl_shape == t.ufl_shape])
        m = {t: img}
        c.plain_dicts.append(m)
        return lambda: A.replace(e, m)
    if name == "degree":
        return lambda: A.estimate_total_polynomial_degree(e)
    if name == "extract":
        return lambda: (A.extract_coefficients(e), A.extract_type(e, C.Coefficient), A.extract_constants(e), A.has_type(e, C.Sum))
    if name == "remove_complex":
        return lambda: A.remove_complex_nodes(e)
    if name == "strip_variables":
        return lambda: A.strip_variables(e)
    if name == "add":
        return lambda: (e + e, e + other if other.ufl_shape == e.ufl_shape else e - e, 0 + e)
    if name == "scale":
        return lambda: (2 * e, e * s0, e / 3, s0 * e)
    if name == "neg":
        return lambda: -e
    if name == "abs":
        return lambda: abs(abs(s0))
    if name == "pow":
        return lambda: (s0 ** 2, s0 ** 0, s0 ** 1, 2 ** s0)
    if name == "conditional":
        return lambda: ufl.conditional(ufl.lt(s0, 1), e, 2 * e)
    if name == "cond_same":
        t = ufl.conditional(ufl.lt(s0, 1), e, 2 * e)
        c.late.append(t)
        return lambda: (ufl.conditional(ufl.gt(s0, 0), t, t), ufl.conditional(ufl.gt(s0, 0), e, e))
    if name == "variable_diff":
        def f():
            w = ufl.variable(s0)
            return A.expand_derivatives(ufl.diff(w * w * ufl.sin(w), w))
        return f
    if name == "dx":
        return lambda: (e.dx(0), A.expand_derivatives(e.dx(0)))
    if name == "grad":
        return lambda: A.expand_derivatives(ufl.grad(e))
    if name == "index":
        if e.ufl_shape:
            i = G.idxpool[0]
            return lambda: (e[(0,) * len(e.ufl_shape)], e[(i,) + (0,) * (len(e.ufl_shape) - 1)], e[..., 0])
        return lambda: e * ufl.as_vector([e, e])[0]
    if name == "as_tensor":
        def f():
            if e.ufl_shape == ():
                T = ufl.as_vector([e, 2 * e, e])
                return (T, T[1], ufl.as_matrix([[e, e], [e, e]])[1, 0])
            i = ufl.Index()
            return (ufl.as_tensor(e[(i,) + (0,) * (len(e.ufl_shape) - 1)], (i,)), ufl.as_tensor([e[k] for k in range(e.ufl_shape[0])]))
        return f
    if name == "Indexed":
        if e.ufl_shape:
            mi = C.MultiIndex(tuple(C.FixedIndex(0) for _ in e.ufl_shape))
            return lambda: (C.Indexed(e, mi), C.Indexed(e, mi))
        return lambda: None
    if name == "ComponentTensor":
        if len(e.ufl_shape) == 1:
            def f():
                i = ufl.Index()
                ct = C.ComponentTensor(C.Indexed(e, C.MultiIndex((i,))), C.MultiIndex((i,)))
                return (ct, C.ComponentTensor(C.Indexed(ct, C.MultiIndex((i,))), C.MultiIndex((i,))))
            return f
        return lambda: None
    if name == "ListTensor":
        if len(e.ufl_shape) == 1:
            n = e.ufl_shape[0]
            return lambda: (C.ListTensor(*[e[k] for k in range(n)]), C.ListTensor(*[C.ListTensor(*[e[k] for k in range(n)])[k] for k in range(n)]))
        return lambda: C.ListTensor(e, e)
    if name == "Abs":
        a = abs(s0)
        c.late.append(a)
        return lambda: (C.Abs(a), C.Abs(C.Conj(a)), abs(a))
    if name == "Conj":
        a = C.Conj(s0) if not isinstance(s0, (C.Real, C.Imag, C.Abs, C.Zero, C.Conj)) else s0
        c.late.append(a)
        return lambda: (C.Conj(a), C.Conj(e), ufl.conj(a), C.Conj(C.Real(s0)))
    if name == "Real":
        a = C.Real(s0)
        c.late.append(a)
        return lambda: (C.Real(a), C.Real(e), C.Imag(a), C.Real(C.Conj(s0)))
    if name == "Imag":
        a = C.Imag(s0)
        c.late.append(a)
        return lambda: (C.Imag(a), C.Imag(e), C.Real(a), C.Conj(a))
    if name == "set":
        nm = c.near[c.exprs.index(e)] if any(e is x for x in c.exprs) else c.near[0]
        return lambda: (len({e, other, c.twin, nm}), e in {c.twin: 1}, c.twin in [e], nm in {e}, e in {nm: 1}, {nm: 1, e: 2}.get(nm))
    if name == "dict":
        return lambda: {c.twin: 1}.get(e)
    if name == "map_dag":
        from ufl.corealg.map_dag import map_expr_dag
        from ufl.corealg.multifunction import MultiFunction

        class Ident(MultiFunction):
            expr = MultiFunction.reuse_if_untouched
        return lambda: map_expr_dag(Ident(), e)
    if name == "sorted":
        from ufl.sorting import sorted_expr
        return lambda: sorted_expr([e, other, c.twin])
    if name == "unicode":
        from ufl.formatting.ufl2unicode import ufl2unicode
        return lambda: ufl2unicode(e)
    if name == "inner_self":
        return lambda: (ufl.inner(e, e), ufl.inner(e, c.twin) if e is c.exprs[0] else ufl.inner(e, e))
    if name == "restrict":
        return lambda: (e("+"), ufl.avg(e), ufl.jump(s0))
    if name == "reconstruct":
        return lambda: e._ufl_expr_reconstruct_(*e.ufl_operands) if not e._ufl_is_terminal_ else e
    raise KeyError(name)


def run_form_alg(c, name, F):
    import ufl
    A = _algs()
    from ufl import classes as C
    G, rng = c.G, c.rng
    rank = None
    coeffs = [x for cs in G.coeffs.values() for x in cs]
    f0 = G.coeffs[()][0]
    other = c.forms[(c.forms.index(F) + 1) % len(c.forms)]
    if name == "cfd":
        opts = dict(do_apply_function_pullbacks=rng.random() < 0.5, do_apply_integral_scaling=rng.random() < 0.5,
                    do_apply_geometry_lowering=rng.random() < 0.4, do_estimate_degrees=rng.random() < 0.8,
                    do_append_everywhere_integrals=rng.random() < 0.7, do_replace_functions=rng.random() < 0.3,
                    do_apply_default_restrictions=rng.random() < 0.8, do_apply_restrictions=rng.random() < 0.8,
                    do_remove_component_tensors=rng.random() < 0.2, complex_mode=False)
        if opts["do_apply_geometry_lowering"] and rng.random() < 0.3:
            opts["preserve_geometry_types"] = (C.Jacobian,)
        if opts["do_apply_geometry_lowering"] and opts["do_apply_function_pullbacks"] and rng.random() < 0.3:
            opts["do_cancel_jacobian_products"] = True
        c.count("cfd_opts_" + "".join("1" if opts[k] else "0" for k in ("do_apply_function_pullbacks", "do_apply_integral_scaling", "do_apply_geometry_lowering", "do_estimate_degrees")))
        return lambda: A.compute_form_data(F, **opts)
    if name == "formdata_str":
        return lambda: str(A.compute_form_data(F))
    if name == "expand_derivatives":
        return lambda: A.expand_derivatives(F)
    if name == "apply_derivatives":
        return lambda: A.apply_derivatives(A.apply_algebra_lowering(F))
    if name == "replace":
        t = rng.choice(coeffs)
        img = rng.choice([x for x in coeffs if x.ufl_shape == t.ufl_shape])
        m = {t: img}
        c.plain_dicts.append(m)
        return lambda: A.replace(F, m)
    if name == "action":
        return lambda: ufl.action(F, c.cW if c.vec else c.cV) if F.arguments() else ufl.action(F)
    if name == "adjoint":
        return lambda: ufl.adjoint(F)
    if name == "lhs":
        return lambda: ufl.lhs(F + other)
    if name == "rhs":
        return lambda: ufl.rhs(F - other)
    if name == "system":
        return lambda: ufl.system(F + other)
    if name == "derivative":
        t = rng.choice(G.coeffs[()])
        cd = {}
        if rng.random() < 0.3:
            cd = {G.coeffs[()][1]: 2 * t}
            c.plain_dicts.append(cd)
        return lambda: A.expand_derivatives(ufl.derivative(F, t, coefficient_derivatives=cd) if cd else ufl.derivative(F, t))
    if name == "sensitivity":
        return lambda: ufl.derivative(ufl.derivative(F, f0), f0)
    if name == "coordinate_derivative":
        du = G.coeffs[()][2 % len(G.coeffs[()])]
        return lambda: A.expand_derivatives(ufl.derivative(F, f0, du))
    if name == "renumber":
        return lambda: A.renumber_indices(F)
    if name == "lower":
        return lambda: A.apply_algebra_lowering(F)
    if name == "pullbacks":
        return lambda: A.apply_function_pullbacks(A.apply_algebra_lowering(F))
    if name == "scaling":
        return lambda: A.apply_integral_scaling(F)
    if name == "geometry":
        return lambda: A.apply_geometry_lowering(A.apply_algebra_lowering(F))
    if name == "attach":
        return lambda: A.attach_estimated_degrees(F)
    if name == "group":
        return lambda: A.group_form_integrals(F, F.ufl_domains())
    if name == "add":
        return lambda: (F + other, F + F, F + 0, sum([F, other]))
    if name == "neg":
        return lambda: (-F, F - other)
    if name == "scale":
        return lambda: (2 * F, 0.5 * F)
    if name == "cscale":
        k = G.consts[()][0]
        return lambda: k * F
    if name == "str":
        return lambda: str(F)
    if name == "repr":
        return lambda: repr(F)
    if name == "unicode":
        from ufl.formatting.ufl2unicode import ufl2unicode
        return lambda: ufl2unicode(F)
    if name == "degree":
        return lambda: A.estimate_total_polynomial_degree(F)
    if name == "validate":
        return lambda: A.validate_form(F)
    if name == "energy_norm":
        return lambda: ufl.energy_norm(F, c.cW if c.vec else c.cV)
    if name == "functional":
        return lambda: ufl.functional(F)
    if name == "set":
        return lambda: (len({F, other}), F in {other: 1})
    if name == "integrals_by":
        return lambda: (F.integrals_by_type("cell"), F.integrals_by_domain(G.mesh), F.ufl_domain(), F.geometric_dimension(), F.empty(),
                        F.constants(), F.ufl_cell())
    if name == "sig_twice":
        return lambda: (F.signature(), A.compute_form_signature(F, F._compute_renumbering()), F.signature())
    if name == "restrictions":
        return lambda: A.apply_restrictions(A.apply_algebra_lowering(F))
    if name == "split_measure":
        return lambda: [i.reconstruct(metadata={"quadrature_degree": 9}) for i in F.integrals()] + [2 * i for i in F.integrals()] + [-i for i in F.integrals()]
    if name == "remeasure":
        def f():
            out = []
            for m in c.measures[:4]:
                out += [m(1), m(degree=3), m(metadata=m.metadata(), degree=1, scheme="vertex"), m(subdomain_data=None), m(), f0 * m,
                        m(metadata={"a": 1}), m(2, {"b": 2})]
            return out
        return f
    if name == "extract_blocks":
        return lambda: A.extract_blocks(F)
    raise KeyError(name)


# ---------------------------------------------------------------------------------------------------------------

def describe_bad(b):
    obj, name, fn, fil, line, why = b
    return "%s.%s written in %s (%s:%d): %s" % (type(obj).__name__, name, fn, fil, line, why)


def run_case(seed, k, tier, only_oracle=False):
    """builds the case, runs its history against the implementation; returns the Case with driver lines and expectations"""
    mon = Monitor.get()
    mon.pre = {}
    WatchDict.writes = []
    c = Case(seed, k, tier)
    c.plain_dicts, c.late = [], []
    c.build()
    ops = c.pick_ops()
    # algorithms are chosen (and their auxiliary objects built) before the snapshot, so that everything they get exists already
    w = World(mon)
    thunks = []
    for op in ops:
        try:
            if op[0] == "ealg":
                e = c.exprs[op[2]]
                thunks.append(run_expr_alg(c, op[1], e))
            elif op[0] == "falg":
                thunks.append(run_form_alg(c, op[1], c.forms[op[2]]))
            else:
                thunks.append(None)
        except Exception:  # noqa: generator could not build the auxiliary objects: skip the op
            thunks.append(False)
    for e in c.exprs + [c.twin] + c.near + c.late:
        w.register_expr(e)
    for F in c.forms:
        w.register_form(F)
    for m in c.measures:
        w.tag(m)
        if not any(m.metadata() is d for d in w.dicts):
            w.dicts.append(m.metadata())
    fresh = c.rng.random() < 0.5
    c.count("mode_fresh" if fresh else "mode_warm")
    # ---- before
    before_nodes = {t: snap_node(o) for t, o in w.objs.items() if hasattr(o, "ufl_operands") and hasattr(o, "_ufl_typecode_") and not hasattr(o, "integrals")}
    before_hash_slot = {t: object.__getattribute__(o, "_hash") for t, o in w.objs.items() if t in before_nodes}
    before_cold = [snap_form_cold(F) for F in c.forms]
    before_dicts = [(d, repr(sorted(d.items(), key=repr))) for d in w.dicts + c.plain_dicts]
    before_meas = [(m, repr(m), id(m.metadata())) for m in c.measures]
    if fresh:
        # observers with side effects are taken from structurally equal twins, so the history starts from empty memo slots
        tw_forms = [clone_form(F) for F in c.forms]
        ok = all(snap_form_cold(T)[0] == snap_form_cold(F)[0] for T, F in zip(tw_forms, c.forms))
        before_warm = [snap_form_warm(T) for T in tw_forms] if ok else None
        tw_exprs = [clone_expr(e, {}) for e in w.roots]
        before_roothash = [safe(lambda: hash(t)) if sha(repr(t)) == sha(repr(e)) else None for t, e in zip(tw_exprs, w.roots)]
        if not ok:
            c.count("twin_mismatch")
            before_warm = [snap_form_warm(F) for F in c.forms]
    else:
        before_warm = [snap_form_warm(F) for F in c.forms]
        before_roothash = [safe(lambda: hash(e)) for e in w.roots]
    # ---- history
    c.lines.append(w.state("world")); c.expect.append("(ok)"); c.opdesc.append("world")
    for op, th in zip(ops, thunks):
        desc = " ".join(map(str, op))
        if th is False:
            c.count("op_skipped")
            continue
        c.count("op_" + op[0])
        if op[0] == "hash":
            e = (c.exprs + [c.twin])[op[1]]
            if op[2]:
                e = c.subexpr(e)
            r, exc, log = mon.run(lambda: hash(e))
            ws, new, bad = w.writes(log, False)
            c.lines.append("(hash %d)" % w.tag(e)); c.expect.append(wsort(ws))
            c.count("writes_hash", len(ws))
        elif op[0] == "eq":
            a = c.exprs[op[2]]
            if op[1] in ("twin", "twinsub", "rev"):
                a = c.exprs[0]
            b = {"twin": c.twin, "self": a, "other": c.exprs[(op[2] + 1) % len(c.exprs)], "sub": c.subexpr(a), "twinsub": c.subexpr(c.twin), "rev": c.twin,
                 "near": c.near[op[2]], "nearrev": c.near[op[2]]}[op[1]]
            if op[1] == "twinsub":
                a = c.subexpr(a)
            if op[1] in ("rev", "nearrev"):
                a, b = b, a
            from ufl.exprequals import expr_equals
            if a._ufl_is_terminal_ or b._ufl_is_terminal_ or type(a).__eq__ is not expr_equals:
                c.count("eq_terminal")       # Terminal.__eq__ / Variable.__eq__ are class specific: opaque
                r, exc, log = mon.run(lambda: a == b)
                ws, new, bad = w.writes(log, True)
                c.lines.append("(alg (nodes %s) (log %s))" % (" ".join(new), " ".join(s for _, _, s in ws))); c.expect.append("(ok)")
            else:
                r, exc, log = mon.run(lambda: bool(a == b))
                ws, new, bad = w.writes(log, False)
                c.lines.append("(eq %d %d)" % (w.tag(a), w.tag(b))); c.expect.append("(r %d %s)" % (1 if r else 0, wsort(ws)))
                c.count("eq_true" if r else "eq_false")
                c.count("writes_share", len([1 for x in ws if x[0] == "s"]))
        elif op[0] == "pure":
            e = c.exprs[op[2]]
            fn = {"repr": lambda: repr(e), "str": lambda: str(e), "shape": lambda: (e.ufl_shape, e.ufl_free_indices, e.ufl_index_dimensions, e.ufl_domains())}[op[1]]
            r, exc, log = mon.run(fn)
            ws, new, bad = w.writes(log, True)
            c.lines.append("(alg (nodes %s) (log %s))" % (" ".join(new), " ".join(s for _, _, s in ws))); c.expect.append("(ok)")
        elif op[0] == "facc":
            F = c.forms[op[1]]
            acc = SLOT_ACC[op[2]]
            r, exc, log = mon.run(lambda: hash(F) if acc == "__hash__" else getattr(F, acc)())
            ws, new, bad = w.writes(log, False)
            # the traversals behind the accessors keep visited nodes in sets: probing an equal but distinct node calls expr_equals,
            # which replaces the stored node's operand tuple.  Which pairs meet depends on CPython's set internals, so these writes
            # are not predicted but validated (guard included) as a second step; memo slots and hash fills are predicted exactly.
            shares = [x for x in ws if x[0] == "s"]
            rest = [x for x in ws if x[0] != "s"]
            c.lines.append("(facc %d %d)" % (w.tag(F), op[2])); c.expect.append("(v %d %s)" % (0 if exc is not None else 1, wsort(rest)))
            c.count("writes_slot", len([1 for x in ws if x[0] == "m"]))
            if shares:
                c.opdesc.append(desc)
                c.lines.append("(alg (nodes %s) (log %s))" % (" ".join(new), " ".join(x[2] for x in shares))); c.expect.append("(ok)")
                c.count("writes_share_in_traversal", len(shares))
            if exc is not None:
                c.count("facc_raised_" + type(exc).__name__)
        elif op[0] == "fequals":
            F, Gf = c.forms[op[1]], c.forms[op[2]]
            fn = {"equals": lambda: F.equals(Gf), "eq": lambda: bool(F == Gf), "ne": lambda: not (F != Gf)}[op[3]]
            r, exc, log = mon.run(fn)
            ws, new, bad = w.writes(log, False)
            c.lines.append("(fequals %d %d)" % (w.tag(F), w.tag(Gf))); c.expect.append("(r %d %s)" % (1 if r else 0, wsort(ws)))
            c.count("fequals_true" if r else "fequals_false")
        else:
            r, exc, log = mon.run(th)
            ws, new, bad = w.writes(log, True)
            c.lines.append("(alg (nodes %s) (log %s))" % (" ".join(new), " ".join(s for _, _, s in ws))); c.expect.append("(ok)")
            c.count("alg_" + op[1])
            if exc is not None:
                c.count("alg_raised")
                c.stats.setdefault("raised", {}).setdefault(op[1], type(exc).__name__)
            c.count("writes_alg", len(ws))
        c.opdesc.append(desc)
        c.count("monitored_writes_total", mon.total); mon.total = 0
        cyc = [l for l in log if l[1] == "ufl_operands" and cyclic(l[0])]
        if cyc:
            l = cyc[0]
            c.witnesses.append(Witness("history %d/%d op [%s]: a pre-existing %s node became its own operand (%s.%s written in %s %s:%d)" % (
                seed, k, desc, type(l[0]).__name__, type(l[0]).__name__, l[1], l[4], l[5], l[6]), "C27:reinit:" + type(l[0]).__name__,
                dict(kind="history", seed=seed, k=k, tier=tier, op=desc)))
            c.lines, c.expect, c.opdesc = [], [], []
            c.world, c.nodes = w, len(before_nodes)
            return c
        for b in bad:
            c.witnesses.append(Witness("history %d/%d op [%s]: %s" % (seed, k, desc, describe_bad(b)),
                                       "C27:write:%s.%s:%s" % (type(b[0]).__name__, b[1], b[2]),
                                       dict(kind="history", seed=seed, k=k, tier=tier, op=desc, write=describe_bad(b))))
        for (did, what, fn_, fil, line) in WatchDict.writes:
            if any(id(d) == did for d in w.dicts):
                c.witnesses.append(Witness("history %d/%d op [%s]: metadata dictionary changed in place (%s in %s %s:%d)" % (seed, k, desc, what, fn_, fil, line),
                                           "C27:metadata:%s:%s" % (fn_, what), dict(kind="history", seed=seed, k=k, tier=tier, op=desc)))
        WatchDict.writes = []
    c.lines.append(w.state("check")); c.expect.append("(same)"); c.opdesc.append("check")
    # ---- after: the property read literally
    def differ(what, key, detail):
        c.witnesses.append(Witness("history %d/%d (%s): %s changed: %s" % (seed, k, "; ".join(c.opdesc[1:-1])[:300], what, detail[:300]),
                                   key, dict(kind="history", seed=seed, k=k, tier=tier, what=what)))
    for t, s0 in before_nodes.items():
        o = w.objs[t]
        s1 = snap_node(o)
        if s1 != s0:
            differ("%s node (repr/str/shape/indices)" % type(o).__name__, "C27:node:" + type(o).__name__, "%s -> %s" % (s0, s1))
        h0 = before_hash_slot[t]
        h1 = object.__getattribute__(o, "_hash")
        if h0 is not None and h1 is None:
            h1 = safe(lambda: hash(o))          # the slot was emptied (memoReset): hash() must recompute the same value
        if h0 is not None and h1 != h0:
            differ("hash of a %s node" % type(o).__name__, "C27:hashslot:" + type(o).__name__, "%s -> %s" % (h0, h1))
    for e, h0 in zip(w.roots, before_roothash):
        if h0 is not None and safe(lambda: hash(e)) != h0:
            differ("hash of an expression", "C27:hash:" + type(e).__name__, "%s -> %s" % (h0, safe(lambda: hash(e))))
    for F, s0, w0 in zip(c.forms, before_cold, before_warm):
        s1 = snap_form_cold(F)
        if s1 != s0:
            what = "repr of a form" if s1[0] != s0[0] else "integral data (metadata / subdomain / integrand identity) of a form"
            differ(what, "C27:form:cold", "%s -> %s" % (s0, s1))
        w1 = snap_form_warm(F)
        for key in w0:
            if w0[key] != w1[key]:
                differ("%s of a form" % key, "C27:form:" + key, "%s -> %s" % (w0[key], w1[key]))
    for d, r0 in before_dicts:
        if repr(sorted(d.items(), key=repr)) != r0:
            differ("a dictionary passed in by the caller (metadata / mapping)", "C27:dict", "%s -> %s" % (r0, repr(d)))
    for m, r0, i0 in before_meas:
        if repr(m) != r0 or id(m.metadata()) != i0:
            differ("a measure", "C27:measure", "%s -> %s" % (r0, repr(m)))
    c.world = w
    c.nodes = len(before_nodes)
    return c


# ---------------------------------------------------------------------------------------------------------------
# directed cases (corners the property names)

def directed_cases():
    """(name, thunk) pairs; each thunk returns a list of problems (strings)"""
    import ufl
    A = _algs()
    from ufl import classes as C
    from utils import LagrangeElement
    from ufl import (Mesh, FunctionSpace, Coefficient, TestFunction, TrialFunction, Constant, dx, ds, dS, triangle, inner, grad, sin,
                     Cofunction, Matrix, Coargument, Argument, Action, Adjoint, FormSum)
    cases = []

    def setup():
        mesh = Mesh(LagrangeElement(triangle, 1, (2,)))
        V = FunctionSpace(mesh, LagrangeElement(triangle, 2))
        W = FunctionSpace(mesh, LagrangeElement(triangle, 2, (2,)))
        return mesh, V, W, TrialFunction(V), TestFunction(V), Coefficient(V), Coefficient(V), Coefficient(W)

    observed = _observed

    def add(name, fn):
        cases.append((name, fn))

    # 1. metadata dictionaries handed in by the user survive every pass that annotates integrals
    def md_case():
        mesh, V, W, u, v, f, g, w_ = setup()
        md = WatchDict({"quadrature_degree": 2})
        F = f * v * dx(metadata=md) + g * v * dx(1, metadata=md, degree=5) + f * v * ds(metadata=md)
        probs = observed([F, md], lambda: (A.compute_form_data(F, do_apply_function_pullbacks=True, do_apply_integral_scaling=True,
                                                                do_apply_geometry_lowering=True, do_estimate_degrees=True),
                                           A.attach_estimated_degrees(F), A.apply_integral_scaling(F),
                                           dx(metadata=md, degree=7, scheme="vertex"), dx(metadata=md)(degree=1)))
        if dict(md) != {"quadrature_degree": 2}:
            probs.append("user metadata dict changed: %r" % dict(md))
        return probs
    add("metadata-dict", md_case)

    # 2. eager DAGification in expr_equals: comparing equal expressions built separately
    def dag_case():
        mesh, V, W, u, v, f, g, w_ = setup()
        mk = lambda: sin(f * g + 2) * inner(grad(f), grad(g)) + abs(f) ** 2 / (1 + g * g)
        a, b = mk(), mk()
        return observed([a, b], lambda: (a == b, b == a, a == a, {a: 1}[b], a in {b}, a == mk(), mk() == b))
    add("expr-equals-dagify", dag_case)

    # 3. constructors whose __new__ returns an existing node: __init__ must not run again on it
    def new_case():
        mesh, V, W, u, v, f, g, w_ = setup()
        a = abs(f); cj = C.Conj(f); re = C.Real(f); im = C.Imag(f)
        t = ufl.conditional(ufl.lt(f, g), f, g)
        i = ufl.Index()
        ct = ufl.as_tensor(w_[i] * f, (i,))
        lt = ufl.as_vector([f, g])
        ix = w_[0]
        isum = w_[i] * w_[i]
        objs = [a, cj, re, im, t, ct, lt, ix, isum]
        return observed(objs, lambda: (C.Abs(a), C.Abs(cj), C.Abs(C.Conj(a)), C.Conj(a), C.Conj(cj), C.Conj(re), C.Conj(im), C.Real(re), C.Real(cj), C.Real(im),
                                       C.Imag(re), C.Imag(im), C.Imag(a), ufl.conditional(ufl.gt(f, 0), t, t), C.Conditional(ufl.gt(f, 0), t, t),
                                       ufl.as_tensor(ct[i], (i,)), C.ComponentTensor(C.Indexed(ct, C.MultiIndex((i,))), C.MultiIndex((i,))),
                                       C.ListTensor(lt[0], lt[1]), ufl.as_vector([lt[0], lt[1]]), C.Indexed(lt, C.MultiIndex((C.FixedIndex(0),))),
                                       C.IndexSum(w_[i] * w_[i], C.MultiIndex((i,))) if False else isum + isum,
                                       C.PositiveRestricted(ufl.as_ufl(1.0)), ufl.variable(t), C.Variable(t), +a, a + 0, 1 * a, a * 1, a / 1, a ** 1,
                                       ufl.transpose(ufl.transpose(ufl.outer(w_, w_))), ufl.sqrt(ufl.as_ufl(4.0)), ufl.dot(w_, w_)))
    add("new-returns-existing", new_case)

    # 4. the same for base forms: FormSum / Action / Adjoint simplifications that return one of their arguments
    def baseform_case():
        mesh, V, W, u, v, f, g, w_ = setup()
        c1, c2 = Cofunction(V.dual()), Cofunction(V.dual())
        S = FormSum((c1, 1), (c2, 2))
        M = Matrix(V, V)
        Ad = Adjoint(M)
        objs = [S, M, Ad, c1, c2]
        return observed(objs, lambda: (S + 0, S + c1, -S, 2 * S, Adjoint(Ad), ufl.adjoint(Ad), Adjoint(S), S.arguments(), S.coefficients(), hash(S), hash(Ad),
                                       Ad.arguments(), M.arguments(), S.ufl_domains(), repr(S), str(S), S == S, Ad == Adjoint(M), ufl.action(M, f),
                                       ufl.action(Ad, f), ufl.derivative(ufl.action(M, f), f)))
    add("baseform-operators", baseform_case)

    def outer_reinit():
        mesh, V, W, u, v, f, g, w_ = setup()
        O = ufl.outer(w_, w_)
        return observed([O], lambda: ufl.outer(1, O))
    add("reinit:Outer", outer_reinit)

    def formsum_reinit():
        mesh, V, W, u, v, f, g, w_ = setup()
        c1, c2 = Cofunction(V.dual()), Cofunction(V.dual())
        S = FormSum((c1, 1), (c2, 2))
        hash(S); S.arguments()
        return observed([S, c1, c2], lambda: (1 * S, FormSum((S, 1))))
    add("reinit:FormSum", formsum_reinit)

    def action_reinit_left():
        mesh, V, W, u, v, f, g, w_ = setup()
        M = Matrix(V, V)
        Ac = Action(M, f)
        return observed([Ac, M], lambda: Action(Ac, Argument(V, 0)))
    add("reinit:Action", action_reinit_left)

    def action_reinit_right():
        mesh, V, W, u, v, f, g, w_ = setup()
        M = Matrix(V, V)
        Ac = Action(M, f)
        return observed([Ac, M], lambda: Action(Coargument(V.dual(), 0), Ac))
    add("reinit:Action", action_reinit_right)

    # 5. forms that share integrand / integral objects: operating on one must not show on the other
    def sharing_case():
        mesh, V, W, u, v, f, g, w_ = setup()
        I1 = sin(f) * u * v
        a = I1 * dx + inner(grad(u), grad(v)) * dx(1)
        L = g * v * dx + f * v * ds
        both = a - L
        a2 = ufl.lhs(both)
        return observed([a, L, both, a2], lambda: (ufl.lhs(both), ufl.rhs(both), ufl.system(both), ufl.adjoint(a), ufl.action(a, f), A.expand_derivatives(ufl.derivative(L, f)),
                                                   A.compute_form_data(a), A.compute_form_data(L), A.replace(both, {f: g}), a == a2, a.equals(a2), a2.equals(a), both.signature(),
                                                   ufl.derivative(ufl.action(a, f) - L, f), A.renumber_indices(both), ufl.energy_norm(a, f)))
    add("shared-integrands", sharing_case)

    # 6. interior facet forms through restriction propagation with every combination of the switches
    def dS_case():
        mesh, V, W, u, v, f, g, w_ = setup()
        F = ufl.avg(f) * ufl.jump(u) * ufl.jump(v) * dS + ufl.inner(ufl.jump(grad(u)), ufl.jump(grad(v))) * dS(1) + f * u * v * dx
        return observed([F], lambda: [A.compute_form_data(F, do_apply_default_restrictions=a, do_apply_restrictions=b, do_apply_function_pullbacks=c_, do_apply_geometry_lowering=c_)
                                      for a in (True, False) for b in (True, False) for c_ in (True, False)])
    add("interior-facet-restrictions", dS_case)

    # 7. coefficient splitting / function replacement write into IntegralData, never into the form
    def split_case():
        from utils import MixedElement
        mesh = Mesh(LagrangeElement(triangle, 1, (2,)))
        e1, e2 = LagrangeElement(triangle, 1), LagrangeElement(triangle, 2)
        V = FunctionSpace(mesh, MixedElement([e1, e2]))
        f = Coefficient(V)
        v = TestFunction(V)
        F = inner(f, v) * dx + f[0] * v[1] * ds
        return observed([F], lambda: (A.compute_form_data(F, do_replace_functions=True), A.compute_form_data(F, do_replace_functions=True, do_apply_function_pullbacks=True)))
    add("replace-functions", split_case)

    # 8. exception paths: a pass that rejects its input must leave it as it was
    def reject_case():
        mesh, V, W, u, v, f, g, w_ = setup()
        F = f * u * v * dx + g * v * dx          # mixed arity
        H = u * u * v * dx                        # not multilinear
        def go():
            out = []
            for X in (F, H):
                for fn in (lambda X: A.compute_form_data(X), lambda X: ufl.adjoint(X), lambda X: ufl.action(X, f), lambda X: ufl.lhs(X), lambda X: ufl.system(X)):
                    try:
                        out.append(fn(X))
                    except Exception as e:  # noqa
                        out.append(type(e).__name__)
            return out
        return observed([F, H], go)
    add("rejected-inputs", reject_case)
    return cases


def reinit_sweep():
    """Generic search for constructors that re-initialise an existing object: for every UFL class with its own __new__, call the class on
    argument tuples that contain an instance of the class itself (the case in which Python runs __init__ on whatever __new__ returns).
    Returns problems as (class name, description)."""
    import inspect
    import itertools
    import ufl
    from ufl import classes as C
    from ufl.core.expr import Expr
    from ufl.form import BaseForm
    from utils import LagrangeElement
    from ufl import Mesh, FunctionSpace, Coefficient, triangle, Matrix, Cofunction, Argument, Coargument
    mesh = Mesh(LagrangeElement(triangle, 1, (2,)))
    V = FunctionSpace(mesh, LagrangeElement(triangle, 2))
    W = FunctionSpace(mesh, LagrangeElement(triangle, 2, (2,)))
    T = FunctionSpace(mesh, LagrangeElement(triangle, 2, (2, 2)))
    W3 = FunctionSpace(mesh, LagrangeElement(triangle, 2, (3,)))
    f, g, w, B, w3 = Coefficient(V), Coefficient(V), Coefficient(W), Coefficient(T), Coefficient(W3)
    i, j = ufl.Index(), ufl.Index()
    x = ufl.variable(f)
    zoo = [f, w, B, f + g, f * g, f / g, f ** 2, abs(f), C.Conj(f), C.Real(f), C.Imag(f), ufl.sqrt(f), ufl.sin(f), ufl.cos(f), ufl.exp(f), ufl.ln(f),
           ufl.tan(f), ufl.tanh(f), ufl.sinh(f), ufl.cosh(f), ufl.asin(f), ufl.acos(f), ufl.atan(f), ufl.erf(f), ufl.atan2(f, g),
           ufl.det(B), ufl.tr(B), ufl.inv(B), ufl.transpose(B), ufl.sym(B), ufl.skew(B), ufl.dev(B), ufl.dot(w, w), ufl.inner(B, B), ufl.outer(w, w),
           ufl.cross(w3, w3), ufl.perp(w), ufl.grad(f), ufl.div(w), ufl.curl(w3), ufl.nabla_grad(w), ufl.nabla_div(w), ufl.cell_avg(f), ufl.facet_avg(f),
           f("+"), f("-"), ufl.conditional(ufl.lt(f, g), f, g), w[0], w[i] * w[i], ufl.as_tensor(w[i] * f, (i,)), ufl.as_vector([f, g]), x, ufl.diff(x * x, x),
           C.ReferenceGrad(C.ReferenceValue(f)), C.ReferenceDiv(C.ReferenceValue(w)), ufl.as_ufl(2.0), ufl.as_ufl(3), C.Zero(), C.Zero((2, 2)), C.Zero((2,)),
           C.ComplexValue(1j), C.MultiIndex((i,)), C.MultiIndex((C.FixedIndex(0),)), ufl.lt(f, g), C.IntValue(1), C.FloatValue(1.0), C.IntValue(-1)]
    M = Matrix(V, V)
    c1, c2 = Cofunction(V.dual()), Cofunction(V.dual())
    bzoo = [M, c1, ufl.Action(M, f), ufl.Adjoint(M), ufl.FormSum((c1, 1), (c2, 2)), Argument(V, 0), Coargument(V.dual(), 0), f]
    for o in zoo + bzoo:
        safe(lambda: hash(o))
    problems = []
    todo = [(cls, zoo) for cls in Expr._ufl_all_classes_ if "__new__" in vars(cls) and not issubclass(cls, BaseForm)]
    todo += [(cls, bzoo) for cls in (C.Action, C.Adjoint, C.FormSum)]
    ncalls = 0
    for cls, pool in todo:
        try:
            params = list(inspect.signature(cls.__new__).parameters.values())[1:]
        except (TypeError, ValueError):
            continue
        var = any(p.kind in (p.VAR_POSITIONAL,) for p in params)
        if var and cls is not C.FormSum:
            params = list(inspect.signature(cls.__init__).parameters.values())[1:]
        ar = len([p for p in params if p.kind in (p.POSITIONAL_ONLY, p.POSITIONAL_OR_KEYWORD) and p.default is p.empty])
        own = [o for o in pool if type(o) is cls or isinstance(o, cls)]
        if not own or ar == 0 or ar > 4:
            continue
        combos = []
        if cls is C.FormSum:
            combos = [((o, 1),) for o in own] + [((o, 1), (c1, 0))[:1] for o in own]
        else:
            for o in own:
                if ar == 1:
                    combos.append((o,))
                else:
                    others = pool if ar == 2 else pool[:12]
                    for pos in range(ar):
                        for rest in itertools.product(others, repeat=ar - 1):
                            a = list(rest)
                            a.insert(pos, o)
                            combos.append(tuple(a))
        combos = combos[:400]

        def sweep(cs):
            def go():
                for a in cs:
                    try:
                        cls(*a)
                    except RecursionError:
                        raise
                    except Exception:  # noqa: most combinations are ill-typed
                        pass
            return go
        ncalls += len(combos)
        probs = _observed(pool, sweep(combos))
        if probs:
            # find one offending argument tuple
            culprit = None
            for a in combos:
                if _observed(pool, sweep([a])):
                    culprit = a
                    break
            problems.append((cls.__name__, "%s(%s): %s" % (cls.__name__, ", ".join(type(x).__name__ if not isinstance(x, tuple) else "(%s, %s)" % (type(x[0]).__name__, x[1]) for x in (culprit or ())), probs[0])))
    reinit_sweep.calls = ncalls
    return problems


def cyclic(o):
    """is o reachable from itself through ufl_operands?"""
    state = {}
    stack = [(o, iter(getattr(o, "ufl_operands", ())))]
    state[id(o)] = 1
    while stack:
        n, it = stack[-1]
        adv = False
        for c in it:
            st = state.get(id(c))
            if st == 1:
                return True
            if st is None:
                state[id(c)] = 1
                stack.append((c, iter(getattr(c, "ufl_operands", ()))))
                adv = True
                break
        if not adv:
            state[id(n)] = 2
            stack.pop()
    return False


def _observed(objs, thunk):
    """run thunk with every object of objs (and the nodes below them) registered as pre-existing; returns the list of problems:
    writes that are no model write kind, and observers that changed"""
    from ufl.core.expr import Expr
    from ufl.form import Form, BaseForm
    mon = Monitor.get()
    mon.pre = {}
    w = World(mon)
    for o in objs:
        if isinstance(o, Form):
            w.register_form(o)
        elif isinstance(o, Expr) and not isinstance(o, BaseForm):
            w.register_expr(o)
        else:
            w.tag(o)

    def obs(o):
        if isinstance(o, Form):
            return (snap_form_cold(o), snap_form_warm(o))
        if isinstance(o, dict):
            return repr(sorted(o.items(), key=repr))
        if isinstance(o, BaseForm):
            return (safe(lambda: sha(repr(o))), safe(lambda: hash(o)), safe(lambda: tuple(sha(repr(a)) for a in o.arguments())),
                    safe(lambda: tuple(sha(repr(a)) for a in o.coefficients())), safe(lambda: sha(str(o))))
        if isinstance(o, Expr):
            return tuple(snap_node(n) for n in w.nodes_of(o)) + (safe(lambda: hash(o)),)
        return safe(lambda: repr(o))
    b = [obs(o) for o in objs]
    r, exc, log = mon.run(thunk)
    problems = []
    # a write that makes a node reachable from itself would hang every traversal (hash included): look for it first
    cyc = [o for o in list(w.objs.values()) if hasattr(o, "ufl_operands") and cyclic(o)]
    if cyc:
        for (obj, name, old, value, fn, fil, line) in reversed(log):
            if any(obj is c for c in cyc):
                # undo, so that the remaining objects of the zoo stay usable
                try:
                    object.__setattr__(obj, name, old) if old is not MISSING else None
                except Exception:  # noqa
                    pass
        hits = [l for l in log if any(l[0] is c for c in cyc)]
        hits.sort(key=lambda l: 0 if l[1] in ("ufl_operands", "_left", "_right") else 1)
        return ["%s.%s written in %s (%s:%d), re-run on an object that __new__ returned instead of creating: the pre-existing %s became its own (transitive) operand" % (
            type(l[0]).__name__, l[1], l[4], l[5], l[6], type(l[0]).__name__) for l in hits][:3] or ["a pre-existing node became cyclic"]
    ws, new, bad = w.writes(log, True)
    olds = {(id(l[0]), l[1]): (l[2], l[3]) for l in reversed(log)}     # first old value / (any) new value per (object, attribute)
    finals = {(id(l[0]), l[1]): l[3] for l in log}
    for x in bad:
        obj, name, fn = x[0], x[1], x[2]
        if isinstance(obj, BaseForm) and (type(obj).__name__, name) in MODEL_SLOTS and fn != "__init__":
            continue      # memo slot of a BaseForm class, written by its guarded helper (kind guardedSelf)
        if isinstance(obj, BaseForm) and fn in ("__init__", "_sum_variational_components"):
            # constructor re-run on the object __new__ returned (FormSum((S, 1)) returns S): harmless iff every field ends up
            # with a value equal to the one it had, memo slots may be emptied
            old, new_v = olds[(id(obj), name)][0], finals[(id(obj), name)]
            if new_v is None and (type(obj).__name__, name) in MODEL_SLOTS | {(type(obj).__name__, "_domain_numbering")}:
                _observed.reinit_equal += 1
                continue
            if old is not MISSING and safe(lambda: bool(list(old) == list(new_v))) is True:
                _observed.reinit_equal += 1
                continue
        problems.append(describe_bad(x))
    if isinstance(exc, RecursionError):
        problems.append("RecursionError")
    a = [obs(o) for o in objs]
    for o, x, y in zip(objs, b, a):
        if x != y:
            problems.append("observers (repr / hash / arguments / ...) of a pre-existing %s changed" % type(o).__name__)
    return problems


_observed.reinit_equal = 0
MODEL_SLOTS = set()


def load_model_slots():
    global MODEL_SLOTS
    rep = leandrv.run_driver("C27", ["(slots)"])[0]
    body = rep.strip()[1:-1]
    MODEL_SLOTS = set()
    for part in body.split(") ("):
        p = part.strip("() ").split()
        if len(p) == 2:
            MODEL_SLOTS.add((p[0], p[1]))
    return MODEL_SLOTS


# ---------------------------------------------------------------------------------------------------------------
# metadata correspondence: the three anchored passes against the dictionary-store model

def md_requests(rng, n):
    """-> list of (request line, expected reply, description)"""
    import ufl
    A = _algs()
    from utils import LagrangeElement
    from ufl import Mesh, FunctionSpace, Coefficient, TestFunction, dx, ds, triangle, sin
    from ufl.algorithms.apply_integral_scaling import compute_integrand_scaling_factor
    from ufl.algorithms.estimate_degrees import estimate_total_polynomial_degree
    mesh = Mesh(LagrangeElement(triangle, 1, (2,)))
    V = FunctionSpace(mesh, LagrangeElement(triangle, 2))
    f, g, v = Coefficient(V), Coefficient(V), TestFunction(V)
    KEYS = {"estimated_polynomial_degree": 0, "quadrature_degree": 1, "quadrature_rule": 2}
    vals = {}

    def key(k):
        return KEYS.setdefault(k, len(KEYS))

    def val(x):
        if isinstance(x, int) and not isinstance(x, bool):
            return x
        return vals.setdefault(repr(x), 1000 + len(vals))

    def dump(d):
        return "(" + " ".join("(%d %d)" % (key(k), val(x)) for k, x in d.items()) + ")"

    out = []
    for case in range(n):
        kind = rng.choice(["attach", "scale", "mcall", "mcall"])
        ndicts = rng.randint(1, 3)
        dicts = []
        for _ in range(ndicts):
            d = {}
            if rng.random() < 0.6:
                d["quadrature_degree"] = rng.randint(1, 5)
            if rng.random() < 0.3:
                d["estimated_polynomial_degree"] = rng.randint(1, 4)
            if rng.random() < 0.3:
                d["quadrature_rule"] = rng.choice(["default", "vertex"])
            if rng.random() < 0.2:
                d["opt"] = rng.choice([True, "x"])
            dicts.append(d)
        addr = lambda d, pool: next(i for i, x in enumerate(pool) if x is d)
        store0 = [dict(d) for d in dicts]
        if kind in ("attach", "scale"):
            integrands = [f * v, sin(g) * v, f * g * v, g * g * g * v, (f + g) * v][: rng.randint(1, 4)]
            rng.shuffle(integrands)
            meas = rng.choice([dx, ds])
            itgs = []
            for j, e in enumerate(integrands):
                d = rng.choice(dicts)
                itgs.append((e * meas(j + 1, metadata=d)).integrals()[0] if d else (e * meas(j + 1)).integrals()[0])
            # the measure replaces an empty dictionary by a new one: use the dictionaries the integrals really hold
            pool = list(dicts)
            for it in itgs:
                if not any(it.metadata() is d for d in pool):
                    pool.append(it.metadata())
            store0 = [dict(d) for d in pool]
            if kind == "attach":
                F = ufl.Form(itgs)
                res = A.attach_estimated_degrees(F)
                rows, exp_rows = [], []
                # the model processes integrals in the order of form.integrals()
                new_pool = list(pool)
                for j, it in enumerate(F.integrals()):
                    rows.append("(%d %d %d)" % (j, addr(it.metadata(), pool), estimate_total_polynomial_degree(it.integrand())))
                for j, it in enumerate(F.integrals()):
                    ro = next(o for o in res.integrals() if o.integrand() is it.integrand() and o.subdomain_id() == it.subdomain_id())
                    if not any(ro.metadata() is d for d in new_pool):
                        new_pool.append(ro.metadata())
                    exp_rows.append("(%d %d)" % (j, addr(ro.metadata(), new_pool)))
                req = "(md attach (%s) (%s))" % (" ".join(rows), " ".join(dump(d) for d in store0))
                exp = "((%s) (%s))" % (" ".join(exp_rows), " ".join(dump(d) for d in new_pool))
            else:
                rows, exp_rows = [], []
                new_pool = list(pool)
                for j, it in enumerate(itgs):
                    scale, degree = compute_integrand_scaling_factor(it)
                    ro = A.apply_integral_scaling(it)
                    rows.append("(%d %d %d %d)" % (j, addr(it.metadata(), pool), 100 + j, degree))
                    new_pool.append(ro.metadata())
                    exp_rows.append("(%d %d)" % (100 + j, addr(ro.metadata(), new_pool)))
                req = "(md scale (%s) (%s))" % (" ".join(rows), " ".join(dump(d) for d in store0))
                exp = "((%s) (%s))" % (" ".join(exp_rows), " ".join(dump(d) for d in new_pool))
            same = all(dict(d) == s for d, s in zip(pool, store0))
            out.append((req, exp, "%s over %d integrals" % (kind, len(itgs)), same))
        else:
            own = rng.choice(dicts)
            m = dx(metadata=own)
            pool = list(dicts)
            if not any(m.metadata() is d for d in pool):
                pool.append(m.metadata())
            store0 = [dict(d) for d in pool]
            arg = rng.choice([None, None] + dicts)
            deg = rng.choice([None, None, 2, 7])
            rule = rng.choice([None, None, "vertex"])
            m2 = m(rng.choice([None, 1]) if (arg is not None or deg is not None or rule is not None) else None, metadata=arg, degree=deg, scheme=rule)
            new_pool = list(pool)
            # dictionaries allocated on the way (the copy that receives degree / scheme) are garbage unless they end up in the measure:
            # the model allocates them in the store, so they are appended in allocation order
            interm = None
            if deg is not None or rule is not None:
                interm = dict(arg) if arg is not None else {}
                if deg is not None:
                    interm["quadrature_degree"] = deg
                if rule is not None:
                    interm["quadrature_rule"] = rule
            if m2.metadata() is not None and not any(m2.metadata() is d for d in new_pool):
                if interm is not None and interm != {}:
                    new_pool.append(m2.metadata())
                else:
                    if interm is not None:
                        new_pool.append(interm)
                    new_pool.append(m2.metadata())
            req = "(md mcall %d %s %s %s (%s))" % (addr(m.metadata(), pool), "-" if arg is None else addr(arg, pool), "-" if deg is None else deg,
                                                  "-" if rule is None else val(rule), " ".join(dump(d) for d in store0))
            exp = "(%d (%s))" % (addr(m2.metadata(), new_pool), " ".join(dump(d) for d in new_pool))
            same = all(dict(d) == s for d, s in zip(pool, store0))
            out.append((req, exp, "Measure.__call__(metadata=%s, degree=%s, scheme=%s)" % (arg, deg, rule), same))
    return out


# ---------------------------------------------------------------------------------------------------------------

class C27(Prop):
    pid = "C27"
    lean_modules = ["UflVerif.Props.C27", "UflVerif.Props.C27Sites"]
    min_theorems = 20
    trusted = ["translator harness/translate/writes.py: AST scan of ufl/ with an intra-procedural freshness analysis (static approximation: aliases through "
               "containers and calls are not tracked; 38 sites are individually reviewed and pinned in Props/C27Sites.lean)",
               "write monitor in harness/props/c27.py: type-level __setattr__/__delattr__ hooks on Expr, BaseForm, Integral, Measure and a dict subclass for metadata; "
               "writes that bypass these (object.__setattr__, plain dict / list mutation of memo values) are seen only through the before/after snapshots",
               "modelled rather than verified: CPython hash() is a function of its argument (HashFn); terminal == agrees with repr equality (C13); the analyses cached in "
               "Form slots (extract_terminals_with_domain, compute_form_signature, ...) are functions of the form's structure (Pure)"]
    assumptions = ["memo invariant (Obj.memoOK / FormObj.memoOK): every filled slot holds the value of the object's structure; it holds of every object the "
                   "constructors return and is preserved by every write kind (part of each theorem)",
                   "write kinds are complete only as far as the translator's site classification and the monitored executions show (level: proof for the kinds, "
                   "static approximation + monitored runs for 'all code paths')",
                   "C27_reinit_partial: constructors are not re-run on an object that __new__ returned instead of creating; the classes for which this is not "
                   "guarded are listed in Props/C27Sites.lean (C27_sites_reinit)"]

    def regenerate(self, ctx):
        from translate import writes
        text = writes.render(REPO)
        p = common.LEAN / "UflVerif" / "Gen" / "Writes.lean"
        return [(p, common.write_if_changed(p, text))]

    # ---- correspondence
    def correspondence(self, ctx, ev):
        rng = random.Random(ctx.seed * 7919 + 27)
        n = 120 if ctx.quick else 3000
        load_model_slots()
        cases, lines, fails = [], [], []
        self.witnesses = []
        agg = {}
        for k in range(n):
            try:
                c = run_case(ctx.seed, k, ctx.tier)
            except Exception:  # noqa: generator trouble is not a verdict; count it
                agg["case_crashed"] = agg.get("case_crashed", 0) + 1
                agg.setdefault("crash_sample", traceback.format_exc()[-600:])
                continue
            cases.append((c, len(lines)))
            lines += c.lines
            self.witnesses += c.witnesses
            for key, v in c.stats.items():
                if isinstance(v, int):
                    agg[key] = agg.get(key, 0) + v
                else:
                    agg.setdefault(key, {}).update(v)
        mdreqs = md_requests(rng, 80 if ctx.quick else 1500)
        md_off = len(lines)
        lines += [r for r, _, _, _ in mdreqs]
        replies = leandrv.run_driver("C27", lines)
        distinct = set()
        nops = 0
        for c, off in cases:
            for j, (ln, exp) in enumerate(zip(c.lines, c.expect)):
                rep = replies[off + j]
                nops += 1
                if rep != exp and len(fails) < 10:
                    fails.append(Failure("correspondence", "write-history", "history %d/%d op %d [%s]: implementation %s | model %s" % (
                        ctx.seed, c.k, j, c.opdesc[j] if j < len(c.opdesc) else "?", exp[:400], rep[:400]), case=dict(seed=ctx.seed, k=c.k, tier=ctx.tier, op=j)))
                if j and ln.startswith(("(hash", "(eq", "(facc", "(fequals")) and "(w)" not in exp:
                    distinct.add((c.k, j))
                elif ln.startswith("(alg") and "(log)" not in ln:
                    distinct.add((c.k, j))
        for j, (req, exp, desc, same) in enumerate(mdreqs):
            rep = replies[md_off + j]
            if rep != exp and len(fails) < 12:
                fails.append(Failure("correspondence", "metadata-store", "%s: implementation %s | model %s | request %s" % (desc, exp[:300], rep[:300], req[:300]), case=req))
            if not same:
                self.witnesses.append(Witness("%s changed a metadata dictionary that existed before the call" % desc, "C27:metadata:" + desc.split()[0], dict(kind="md", request=req)))
        ev.cov["evaluations"] = nops + len(mdreqs)
        ev.cov["distinct_nontrivial"] = len(distinct)
        ev.cov["traces_validated_against_impl"] = len(cases)
        ev.cov["metadata_store_cases"] = len(mdreqs)
        ev.cov["nodes_observed"] = sum(c.nodes for c, _ in cases)
        ev.cov["histogram"] = {k: v for k, v in sorted(agg.items()) if not k.startswith("alg_") or k in ("alg_raised",)}
        ev.cov["algorithms_applied"] = {k[4:]: v for k, v in sorted(agg.items()) if k.startswith("alg_") and k != "alg_raised"}
        ev.cov["rule"] = ("histories of %s operations over 2-3 generated expressions (gen.Gen, depth 1-4, derivatives, variables, conditionals, compound algebra, shared Index "
                          "pool), a constructor-built twin, and 3 generated forms (rank 0-2, 1-3 integrals over dx/ds/dS with subdomain ids, user metadata dictionaries, "
                          "degree=); operations: hash, == (twin / self / other / sub-expression), repr/str, 12 Form accessors, Form.equals/==/!=, 37 expression and 40 form "
                          "algorithms (compute_form_data with random switches, expand_derivatives, replace, action, adjoint, lhs/rhs/system, derivative, renumbering, lowering "
                          "passes, operators, constructors whose __new__ may return an operand, sets/dicts); half of the histories start from empty memo slots (observers "
                          "taken from twins).  non-trivial = operation that wrote to a pre-existing object" % ("6-10" if ctx.quick else "10-18"))
        ev.cov["samples"] = [(" ; ".join(c.opdesc[1:-1]))[:300] for c, _ in cases[:3]]
        return fails

    # ---- oracle
    def oracle(self, ctx, ev):
        out = list(getattr(self, "witnesses", []))
        dres = {}
        for name, fn in directed_cases():
            try:
                probs = fn()
            except Exception:  # noqa
                probs = ["directed case crashed: " + traceback.format_exc()[-400:]]
            dres[name] = dres.get(name, 0) + len(probs)
            key = "C27:%s" % name if name.startswith("reinit:") else "C27:directed:%s" % name
            for p in probs[:1]:
                out.append(Witness("directed case %s: %s" % (name, p), key, dict(kind="directed", name=name, problem=p)))
        ev.cov["directed_cases"] = dres
        try:
            sw = reinit_sweep()
        except Exception:  # noqa
            sw = [("crash", "constructor sweep crashed: " + traceback.format_exc()[-400:])]
        ev.cov["constructor_sweep"] = dict(calls=getattr(reinit_sweep, "calls", 0), classes_with_problems=sorted(c for c, _ in sw),
                                           reinit_with_equal_values_accepted=_observed.reinit_equal)
        for cls, p in sw:
            out.append(Witness("constructor sweep: %s" % p, "C27:reinit:%s" % cls, dict(kind="sweep", cls=cls, problem=p)))
        seen, uniq = set(), []
        for w in out:
            if w.key not in seen:
                seen.add(w.key)
                uniq.append(w)
        return uniq[:8]

    def search(self, ctx, fails):
        # a broken tie (new unclassified write site, or a model/implementation difference): look for an input on which an observer changes
        for k in range(60):
            c = run_case(ctx.seed + 1000, k, "thorough")
            if c.witnesses:
                return c.witnesses[0]
        return None

    def replay(self, ctx, data):
        d = data.get("data", {})
        load_model_slots()
        if d.get("kind") == "directed":
            for name, fn in directed_cases():
                if name == d.get("name"):
                    probs = fn()
                    if probs:
                        return Witness("directed case %s: %s" % (name, probs[0]), data.get("key", "C27"), d)
            return None
        if d.get("kind") == "sweep":
            for cls, p in reinit_sweep():
                if cls == d.get("cls"):
                    return Witness("constructor sweep: %s" % p, data.get("key", "C27"), d)
            return None
        if d.get("kind") == "history":
            c = run_case(d["seed"], d["k"], d.get("tier", "quick"))
            return c.witnesses[0] if c.witnesses else None
        if d.get("kind") == "md":
            return None
        return None


PROP = C27()
