"""C28 Base-form algebra has the semantics of the linear maps it denotes.

Ties
(T) Gen/C28Flags.lean = four behavioural observations of the live code (does `Action.__init__` re-initialise an instance returned by
    `Action.__new__`; does `_get_action_form_arguments` renumber the contracted arguments; does it report a Coefficient left operand; does
    `Adjoint` conjugate the weights it distributes over) that select the model variant the `*_current` theorems speak about.
(C) correspondence of the real constructors (`FormSum`, `Action`, `Adjoint`, `ZeroBaseForm`, `+ - *` of BaseForm/Form) with the Lean model
    (Drivers/C28.lean `(build ..)`): the simplified object tree-exact (Forms abstracted to weighted lists of atomic integrals: numeric
    factors peeled off the integrand), `arguments()`, `coefficients()`, raise + exception class, on 38 directed corner cases, on typed
    generated compositions (forms, cofunctions, coarguments, matrices, zero base forms, coefficients, arguments, sums with scalar weights)
    and on an untyped (malformed) stream; of `map_integrands(function, b)` with the model (`(mapz ..)`) for functions that zero some
    atoms / leaves; and of the Lean semantics `denote` with the numpy assembly (`(denote ..)`), on the description and on the simplified
    object of every typed case.
Oracle (the property read on the implementation): every simplified object is *assembled* on a small finite-dimensional model in numpy
(spaces -> dimensions, Form integrals evaluated through UFL's own point evaluation of the real integrand at quadrature points with random
basis tables, cofunctions/coefficients -> vectors, matrices -> matrices, Action -> contraction of the last with the first slot, Adjoint ->
conjugate transpose, FormSum -> weighted sum) and compared with the same assembly of the unsimplified description; the spaces of
`arguments()` must be the signature given by argument contraction; perturbing a coefficient that `coefficients()` does not report must
not change the value.  The oracle also runs in complex mode (complex weights and data), through the function-level API (`action`,
`adjoint`, `form(x)`, `form*x`, which use `compute_form_action/adjoint` on Forms), through `map_integrands` and through
`expand_derivatives(derivative(b, u))` of base-form compositions (against central differences of the assembled description)."""
import itertools
import random
from fractions import Fraction

import common
from common import Prop, Witness, Failure, LEAN, write_if_changed
import leandrv

leandrv.EXES["C28"] = "c28drv"


# ---------------------------------------------------------------------------------------------------------------------
# tiny S-expression reader (replies of the driver)
# ---------------------------------------------------------------------------------------------------------------------
def sx_parse(s):
    toks = s.replace("(", " ( ").replace(")", " ) ").split()
    pos = [0]

    def rd():
        t = toks[pos[0]]
        pos[0] += 1
        if t == "(":
            out = []
            while toks[pos[0]] != ")":
                out.append(rd())
            pos[0] += 1
            return out
        return t
    return rd()


def sx_str(x):
    return x if isinstance(x, str) else "(" + " ".join(sx_str(y) for y in x) + ")"


def wstr(w):
    """weight on the wire: exact rational"""
    if isinstance(w, complex):
        if w.imag != 0:
            raise ValueError("complex weight on the wire")
        w = w.real
    q = Fraction(w)
    return str(q.numerator) if q.denominator == 1 else "%d/%d" % (q.numerator, q.denominator)


ERRKIND = {"AttributeError": "attribute", "TypeError": "type", "ValueError": "value", "IndexError": "index"}


# ---------------------------------------------------------------------------------------------------------------------
# the world of one case: spaces, leaves, numeric data
# ---------------------------------------------------------------------------------------------------------------------
class World:
    def __init__(self, rng, cplx=False):
        import ufl
        from utils import LagrangeElement
        self.ufl, self.rng, self.cplx = ufl, rng, cplx
        self.mesh = ufl.Mesh(LagrangeElement(ufl.triangle, 1, (2,)))
        self.spaces = [ufl.FunctionSpace(self.mesh, LagrangeElement(ufl.triangle, d)) for d in (1, 2, 3)]
        self.duals = [V.dual() for V in self.spaces]
        self.dims = [rng.choice([1, 2, 2, 3]) for _ in self.spaces]
        self.Q = 2
        self.xq = [(0.25, 0.5), (0.5, 0.125)]
        self.wq = [rng.choice([1, 2]), rng.choice([1, 3])]
        self.B = [[[rng.randint(-2, 3) for _ in range(n)] for _ in range(self.Q)] for n in self.dims]   # B[space][q][a]
        self.ncoef = itertools.count(0)
        self.nmat = itertools.count(0)
        self.natom = itertools.count(0)
        self.atoms = []            # dicts: id, integrand, args (wire), coefs (wire), key
        self.coef_vals = {}        # count -> vector
        self.mat_vals = {}         # count -> matrix
        self.keep = []

    # -- numbers
    def scalar(self):
        r = self.rng
        if self.cplx and r.random() < 0.6:
            return complex(r.randint(-2, 3), r.randint(-2, 2))
        return r.randint(-3, 4)

    def sp(self, i, dual):
        return self.duals[i] if dual else self.spaces[i]

    def space_id(self, fs):
        for i, V in enumerate(self.spaces):
            if fs == V:
                return (i, False)
        for i, V in enumerate(self.duals):
            if fs == V:
                return (i, True)
        raise KeyError("unknown space %r" % (fs,))

    def space_wire(self, fs):
        i, d = self.space_id(fs)
        return "(S %d %d)" % (i, 1 if d else 0)

    def arg_wire(self, a):
        return "(A %s %d %s)" % (self.space_wire(a.ufl_function_space()), a.number(), "-" if a.part() is None else str(a.part()))

    def coef_wire(self, c):
        return "(C %d %s)" % (c.count(), self.space_wire(c.ufl_function_space()))

    def dim_of(self, fs):
        return self.dims[self.space_id(fs)[0]]

    # -- leaves
    def coefficient(self, i):
        c = self.ufl.Coefficient(self.spaces[i], count=next(self.ncoef))
        self.coef_vals[c.count()] = [self.scalar() for _ in range(self.dims[i])]
        self.keep.append(c)
        return c

    def cofunction(self, i):
        c = self.ufl.Cofunction(self.duals[i], count=next(self.ncoef))
        self.coef_vals[c.count()] = [self.scalar() for _ in range(self.dims[i])]
        self.keep.append(c)
        return c

    def matrix(self, s0, s1):
        m = self.ufl.Matrix(self.sp(*s0), self.sp(*s1), count=next(self.nmat))
        self.mat_vals[m.count()] = [[self.scalar() for _ in range(self.dims[s1[0]])] for _ in range(self.dims[s0[0]])]
        self.keep.append(m)
        return m

    def argument(self, s, number, part=None):
        return self.ufl.Argument(self.sp(*s), number, part)

    def atom(self, arg_objs, key, shared=None, power=None):
        """an atomic integral: c * [g] * [u**p] * prod(arguments) * dx(key); returns the Integral"""
        ufl = self.ufl
        c = self.coefficient(self.rng.randrange(len(self.spaces)))
        e = c
        coefs = [c]
        if shared is not None:
            e = e * shared
            coefs.append(shared)
        if power is not None:
            u, p = power
            e = e * (u ** p if p != 1 else u)
            coefs.append(u)
        for a in arg_objs:
            e = e * a
        form = e * ufl.dx(key, domain=self.mesh)
        itg = form.integrals()[0]
        ident = next(self.natom)
        cs = sorted({x.count(): x for x in coefs}.values(), key=lambda x: x.count())
        self.atoms.append(dict(id=ident, integrand=itg.integrand(), key=key, itg=itg, argobjs=list(arg_objs), coefs_private=c.count(),
                               args=[self.arg_wire(a) for a in arg_objs], coefs=[self.coef_wire(x) for x in cs]))
        return itg

    def atom_wire(self, at):
        return "(AT %d (%s) (%s))" % (at["id"], " ".join(at["args"]), " ".join(at["coefs"]))

    # -- serialisation of real objects
    def ser_itg(self, itg, full):
        ufl = self.ufl
        from ufl.classes import Product, ScalarValue, Zero
        e = itg.integrand()
        w = 1
        key = itg.subdomain_id()
        while isinstance(e, Product) and isinstance(e.ufl_operands[0], ScalarValue):
            w = w * e.ufl_operands[0]._value
            e = e.ufl_operands[1]
        if isinstance(e, Zero):
            return "(Z %d)" % key
        for at in self.atoms:
            if at["key"] == key and e == at["integrand"]:
                return "(I %s %d %s)" % (wstr(w), key, self.atom_wire(at) if full else str(at["id"]))
        raise KeyError("integrand is not a multiple of a known atom: %s" % e)

    def ser(self, o, full=False):
        ufl = self.ufl
        from ufl.classes import (Form, FormSum, Action, Adjoint, ZeroBaseForm, Cofunction, Coargument, Matrix, Coefficient,
                                 Argument, Sum, Zero)
        if isinstance(o, Form):
            return "(Form%s)" % "".join(" " + self.ser_itg(i, full) for i in o.integrals())
        if isinstance(o, Cofunction):
            return "(Cofunction %d %s)" % (o.count(), self.space_wire(o.ufl_function_space()))
        if isinstance(o, Coargument):
            return "(Coargument %s)" % self.arg_wire(o)
        if isinstance(o, Matrix):
            r, c = o.ufl_function_spaces()
            return "(Matrix %d %s %s)" % (o.count(), self.space_wire(r), self.space_wire(c))
        if isinstance(o, ZeroBaseForm):
            return "(Zero%s)" % "".join(" " + self.arg_wire(a) for a in o.arguments())
        if isinstance(o, FormSum):
            return "(FormSum (%s) (%s))" % (" ".join(self.ser(c, full) for c in o.components()), " ".join(wstr(w) for w in o.weights()))
        if isinstance(o, Action):
            return "(Action %s %s)" % (self.ser(o.left(), full), self.ser(o.right(), full))
        if isinstance(o, Adjoint):
            return "(Adjoint %s)" % self.ser(o.form(), full)
        if isinstance(o, Coefficient):
            return "(Coefficient %d %s)" % (o.count(), self.space_wire(o.ufl_function_space()))
        if isinstance(o, Argument):
            return "(Argument %s)" % self.arg_wire(o)
        if isinstance(o, Sum):
            a, b = o.ufl_operands
            return "(Sum %s %s)" % (self.ser(a, full), self.ser(b, full))
        if isinstance(o, Zero):
            return "(EZero)"
        return "(Other %d)" % (abs(hash(repr(o))) % 1000)

    def env_wire(self, np):
        """the finite-dimensional model as tables for the Lean `denote` (real integer data only)"""
        def num(x):
            x = complex(x)
            if abs(x.imag) > 1e-12 or abs(x.real - round(x.real)) > 1e-9:
                raise ValueError("non-integer datum")
            return str(int(round(x.real)))
        dims = " ".join("(%d %d)" % (i, n) for i, n in enumerate(self.dims))
        coefs = " ".join("(%d %s)" % (c, " ".join(num(v) for v in vs)) for c, vs in sorted(self.coef_vals.items()))
        mats = " ".join("(%d %s)" % (c, " ".join("(" + " ".join(num(v) for v in row) + ")" for row in m)) for c, m in sorted(self.mat_vals.items()))
        atoms = []
        for at in self.atoms:
            T = self.assemble_integral(at["itg"], at["argobjs"], np)
            ents = " ".join("((%s) %s)" % (" ".join(map(str, idx)), num(T[idx])) for idx in itertools.product(*[range(n) for n in T.shape]))
            atoms.append("(%d %s)" % (at["id"], ents))
        return "((dim %s) (coef %s) (mat %s) (atom %s))" % (dims, coefs, mats, " ".join(atoms))

    # -- numeric assembly ----------------------------------------------------------------------------------------
    def coef_at(self, c, q):
        i, _ = self.space_id(c.ufl_function_space())
        return sum(b * v for b, v in zip(self.B[i][q], self.coef_vals[c.count()]))

    def assemble_integral(self, itg, args, np):
        from ufl.algorithms.analysis import extract_type
        from ufl.classes import Coefficient
        e = itg.integrand()
        shape = tuple(self.dim_of(a.ufl_function_space()) for a in args)
        T = np.zeros(shape, dtype=complex)
        cs = extract_type(e, Coefficient)
        if any(a not in args for a in _args_of(e)):
            raise Unassemblable("the integrand has an Argument that is not among the arguments of the tensor")
        sids = [self.space_id(a.ufl_function_space())[0] for a in args]
        for q in range(self.Q):
            base = {c: self.coef_at(c, q) for c in cs}
            for idx in itertools.product(*[range(n) for n in shape]):
                m = dict(base)
                for a, s, k in zip(args, sids, idx):
                    m[a] = self.B[s][q][k]
                T[idx] += self.wq[q] * complex(e(self.xq[q], m))
        return T

    def assemble_form(self, form, args, np):
        shape = tuple(self.dim_of(a.ufl_function_space()) for a in args)
        T = np.zeros(shape, dtype=complex)
        for itg in form.integrals():
            T = T + self.assemble_integral(itg, args, np)
        return T

    def assemble_obj(self, o, np):
        """assemble a real object, structure-directed; shapes of Forms / zeros from `arguments()`"""
        from ufl.classes import (Form, FormSum, Action, Adjoint, ZeroBaseForm, Cofunction, Coargument, Matrix, Coefficient,
                                 Argument, Sum, Zero)
        if isinstance(o, Form):
            return self.assemble_form(o, o.arguments(), np)
        if isinstance(o, (Cofunction, Coefficient)):
            return np.array(self.coef_vals[o.count()], dtype=complex)
        if isinstance(o, (Coargument, Argument)):
            return np.eye(self.dim_of(o.ufl_function_space()), dtype=complex)
        if isinstance(o, Matrix):
            return np.array(self.mat_vals[o.count()], dtype=complex)
        if isinstance(o, ZeroBaseForm):
            return np.zeros(tuple(self.dim_of(a.ufl_function_space()) for a in o.arguments()), dtype=complex)
        if isinstance(o, FormSum):
            T = None
            for c, w in zip(o.components(), o.weights()):
                t = complex(w) * self.assemble_obj(c, np)
                T = t if T is None else add_tensors(T, t, np)
            return T if T is not None else np.zeros((), dtype=complex)
        if isinstance(o, Action):
            L, R = self.assemble_obj(o.left(), np), self.assemble_obj(o.right(), np)
            return np.tensordot(L, R, axes=([L.ndim - 1], [0]))
        if isinstance(o, Adjoint):
            return np.conj(self.assemble_obj(o.form(), np).T)
        if isinstance(o, Sum):
            a, b = o.ufl_operands
            return self.assemble_obj(a, np) + self.assemble_obj(b, np)
        if isinstance(o, Zero):
            raise Unassemblable("bare Zero")
        raise Unassemblable(type(o).__name__)


class Unassemblable(Exception):
    pass


def add_tensors(a, b, np):
    if a.shape == b.shape:
        return a + b
    # a tensor that lost its shape must be identically zero (UFL: 0*form has no arguments)
    if not np.any(a):
        return b
    if not np.any(b):
        return a
    raise Unassemblable("sum of tensors of shapes %s and %s" % (a.shape, b.shape))


def same_tensor(a, b, np):
    if a.shape != b.shape:
        return (not np.any(a)) and (not np.any(b))
    return bool(np.allclose(a, b, rtol=1e-9, atol=1e-9))


# ---------------------------------------------------------------------------------------------------------------------
# descriptions (compositions of constructor calls)
# node = ('leaf', obj, sig) | ('formSum', [nodes], [ws]) | ('action', l, r) | ('adjoint', f) | ('add', a, b) | ('sub', a, b)
#      | ('neg', a) | ('smul', w, a) | API nodes ('actionF', l, r) ('adjointF', f) ('call', l, r) ('mul', l, r)
# sig = tuple of (space index, dual?) — the slots of the multilinear map according to argument contraction
# ---------------------------------------------------------------------------------------------------------------------
WEIGHTS = [1, 1, 2, -1, 3, 0.5, -2, 0, 1.0, 4, -0.25]


class DescGen:
    def __init__(self, W, api=False, p_zero=0.08, p_ident=0.15, p_share=0.15, odd_numbers=0.0, deriv=None):
        self.W, self.rng, self.api = W, W.rng, api
        self.deriv = deriv        # (u, space index): differentiation variable; restricts the productions to what `derivative` supports
        self.p_zero, self.p_ident, self.p_share, self.odd = p_zero, p_ident, p_share, odd_numbers
        self.pool = {}           # sig -> leaves already made (sharing)
        self.shared_coef = None

    def weight(self):
        W = self.W
        if W.cplx and self.rng.random() < 0.5:
            return complex(self.rng.randint(-2, 2), self.rng.randint(-2, 2))
        return self.rng.choice(WEIGHTS)

    def rspace(self):
        return (self.rng.randrange(len(self.W.spaces)), False)

    def rslot(self):
        return (self.rng.randrange(len(self.W.spaces)), self.rng.random() < 0.25)

    def args_for(self, sig, start=0):
        return [self.W.argument(s, start + k) for k, s in enumerate(sig)]

    # ---- leaves
    def form_leaf(self, sig):
        W, rng = self.W, self.rng
        n = rng.choice([1, 1, 2, 3])
        args = self.args_for(sig)
        if self.odd and sig and rng.random() < self.odd:
            args = self.args_for(sig, start=1)
        shared = None
        if rng.random() < 0.3:
            if self.shared_coef is None:
                self.shared_coef = W.coefficient(rng.randrange(len(W.spaces)))
            shared = self.shared_coef
        def power():
            if self.deriv is not None and rng.random() < 0.6:
                return (self.deriv[0], rng.choice([1, 1, 2]))
            return None
        itgs = [W.atom(args, rng.choice([0, 1, 1, 2, 3]), shared if rng.random() < 0.7 else None, power()) for _ in range(n)]
        f = W.ufl.Form(itgs)
        W.keep.append(f)
        return f

    def zero_leaf(self, sig):
        z = self.W.ufl.classes.ZeroBaseForm(tuple(self.args_for(sig)))
        return z

    def leaf(self, sig, ctx_action=False):
        """a leaf object with the given signature; ctx_action: directly an operand of Action (expressions allowed)"""
        W, rng = self.W, self.rng
        sig = tuple(sig)
        if self.pool.get((sig, ctx_action)) and rng.random() < self.p_share:
            return rng.choice(self.pool[(sig, ctx_action)])
        cands = []
        if rng.random() < self.p_zero:
            cands.append("zero")
        if all(not d for _, d in sig) and len(sig) <= 3:
            cands += ["form", "form"]
        if len(sig) == 2:
            cands += ["matrix", "matrix"]
            if sig[0][0] == sig[1][0] and not sig[0][1] and sig[1][1]:
                cands += ["coargument"]
            if ctx_action and not self.api and sig[0][0] == sig[1][0] and sig[0][1] and not sig[1][1]:
                cands += ["argument"]     # (not with action()/form(x): compute_form_action would substitute the Argument into the form)
        if len(sig) == 1 and not sig[0][1]:
            cands += ["cofunction", "cofunction"]
        if len(sig) == 1 and sig[0][1] and ctx_action:
            cands += ["coefficient", "coefficient", "sum"]
            if rng.random() < 0.1:
                cands.append("ezero")
        if not cands:
            cands = ["fallback"]
        k = rng.choice(cands)
        if k == "zero":
            o = self.zero_leaf(sig)
        elif k == "form":
            o = self.form_leaf(sig)
        elif k == "matrix":
            o = W.matrix(sig[0], sig[1])
        elif k == "coargument":
            o = W.ufl.Coargument(W.sp(*sig[1]), 1)
        elif k == "argument":
            o = W.argument(sig[1], rng.choice([0, 1, 2]))
        elif k == "cofunction":
            o = W.cofunction(sig[0][0])
        elif k == "coefficient":
            o = W.coefficient(sig[0][0])
        elif k == "sum":
            o = W.coefficient(sig[0][0]) + W.coefficient(sig[0][0])
            if rng.random() < 0.3:
                o = o + W.coefficient(sig[0][0])
        elif k == "ezero":
            o = W.ufl.classes.Zero()
        else:
            return self.fallback(sig)
        W.keep.append(o)
        node = ("leaf", o, sig)
        self.pool.setdefault((sig, ctx_action), []).append(node)
        return node

    def fallback(self, sig):
        """signatures without a direct leaf: contract a bigger leaf with a coefficient, or a zero base form"""
        W = self.W
        if len(sig) <= 1 and self.rng.random() < 0.8:
            X = self.rspace()
            m = ("leaf", W.matrix(sig[0], X), (sig[0], X)) if sig else ("leaf", W.cofunction(X[0]), (X,))
            return ("action", m, ("leaf", W.coefficient(X[0]), ((X[0], True),)))
        return ("leaf", self.zero_leaf(sig), tuple(sig))

    # ---- typed compositions
    def gen(self, sig, d, ctx_action=False):
        rng = self.rng
        sig = tuple(sig)
        if d <= 0 or rng.random() < 0.22:
            return self.leaf(sig, ctx_action)
        prods = ["formSum", "formSum", "add", "sub", "neg", "smul", "action", "action", "action"]
        if len(sig) == 2 and self.deriv is None:
            prods += ["adjoint", "adjoint"]
        if self.api:
            prods += ["actionF", "call", "mul"] + (["adjointF"] if len(sig) == 2 else [])
        p = rng.choice(prods)
        if p == "formSum":
            n = rng.choice([1, 2, 2, 3])
            return ("formSum", [self.gen(sig, d - 1) for _ in range(n)], [self.weight() for _ in range(n)])
        if p in ("add", "sub"):
            return (p, self.gen(sig, d - 1), self.gen(sig, d - 1))
        if p == "neg":
            return ("neg", self.gen(sig, d - 1))
        if p == "smul":
            return ("smul", self.weight(), self.gen(sig, d - 1))
        if p in ("adjoint", "adjointF"):
            return (p, self.gen((sig[1], sig[0]), d - 1))
        if p in ("call", "mul", "actionF") and not (len(sig) <= 2):
            p = "action"
        if p in ("call", "mul"):
            # form(x), form*x : x a Coefficient plugged into the last slot
            X = self.rspace()
            return (p, self.gen(sig + (X,), d - 1), ("leaf", self.W.coefficient(X[0]), ((X[0], True),)))
        # action
        if p == "action" and self.deriv is None and rng.random() < self.p_ident and len(sig) >= 1:
            # identity operands: Action(Coargument c, r) / Action(l, Argument v)
            if rng.random() < 0.5 and not sig[0][1]:
                V = sig[0]
                c = ("leaf", self.W.ufl.Coargument(self.W.sp(V[0], True), rng.choice([0, 1, 2])), (V, (V[0], True)))
                return (p, c, self.gen(sig, d - 1, True))
            if not sig[-1][1]:
                V = sig[-1]
                v = ("leaf", self.W.argument(V, rng.choice([0, 1, 2])), ((V[0], True), V))
                return (p, self.gen(sig, d - 1), v)
        i = rng.randint(0, len(sig))
        while i + 1 > 3 or len(sig) - i + 1 > 3:
            i = rng.randint(0, len(sig))
        X = self.rslot()
        if self.deriv is not None:      # `derivative` of an Action needs a 1-form on the left
            i, X = 0, self.rspace()
            if len(sig) + 1 > 3:
                return self.leaf(sig, ctx_action)
        lsig = sig[:i] + (X,)
        rsig = ((X[0], not X[1]),) + sig[i:]
        return (p, self.gen(lsig, d - 1, True), self.gen(rsig, d - 1, True))

    # ---- untyped stream
    def any_leaf(self):
        rng, W = self.rng, self.W
        k = rng.choice(["form", "form", "matrix", "matrix", "cofunction", "coargument", "zero", "coefficient", "argument", "sum",
                        "ezero", "other"])
        n = rng.choice([0, 1, 1, 2, 2, 3])
        if k == "form":
            sig = tuple(self.rspace() for _ in range(n))
            return ("leaf", self.form_leaf(sig), sig)
        if k == "matrix":
            s = (self.rslot(), self.rslot())
            return ("leaf", W.matrix(*s), s)
        if k == "cofunction":
            s = self.rspace()
            return ("leaf", W.cofunction(s[0]), (s,))
        if k == "coargument":
            s = self.rspace()
            return ("leaf", W.ufl.Coargument(W.sp(s[0], True), rng.choice([0, 1, 2])), (s, (s[0], True)))
        if k == "zero":
            sig = tuple(self.rslot() for _ in range(n))
            return ("leaf", self.zero_leaf(sig), sig)
        if k == "coefficient":
            s = self.rspace()
            return ("leaf", W.coefficient(s[0]), ((s[0], True),))
        if k == "argument":
            s = self.rspace()
            return ("leaf", W.argument(s, rng.choice([0, 1, 2])), ((s[0], True), s))
        if k == "sum":
            s = self.rspace()
            return ("leaf", W.coefficient(s[0]) + W.coefficient(s[0]), ((s[0], True),))
        if k == "ezero":
            return ("leaf", W.ufl.classes.Zero(), ())
        s = self.rspace()
        return ("leaf", 2 * W.coefficient(s[0]), ((s[0], True),))

    def any(self, d):
        rng = self.rng
        if d <= 0 or rng.random() < 0.3:
            return self.any_leaf()
        p = rng.choice(["formSum", "add", "sub", "neg", "smul", "action", "action", "action", "adjoint", "adjoint"])
        if p == "formSum":
            n = rng.choice([1, 2, 3])
            return ("formSum", [self.any(d - 1) for _ in range(n)], [self.weight() for _ in range(n)])
        if p in ("add", "sub", "action"):
            return (p, self.any(d - 1), self.any(d - 1))
        if p == "smul":
            return ("smul", self.weight(), self.any(d - 1))
        return (p, self.any(d - 1))


def desc_wire(W, n):
    k = n[0]
    if k == "leaf":
        return "(leaf %s)" % W.ser(n[1], full=True)
    if k == "formSum":
        return "(formSum (%s) (%s))" % (" ".join(desc_wire(W, c) for c in n[1]), " ".join(wstr(w) for w in n[2]))
    if k in ("action", "add", "sub"):
        return "(%s %s %s)" % (k, desc_wire(W, n[1]), desc_wire(W, n[2]))
    if k in ("adjoint", "neg"):
        return "(%s %s)" % (k, desc_wire(W, n[1]))
    if k == "smul":
        return "(smul %s %s)" % (wstr(n[1]), desc_wire(W, n[2]))
    raise ValueError(k)


def desc_str(n):
    k = n[0]
    if k == "leaf":
        s = str(n[1]).replace("\n", " ")
        return s if len(s) < 60 else type(n[1]).__name__
    if k == "formSum":
        return "FormSum(%s)" % ", ".join("(%s, %s)" % (desc_str(c), w) for c, w in zip(n[1], n[2]))
    if k == "smul":
        return "%s*(%s)" % (n[1], desc_str(n[2]))
    if k in ("neg",):
        return "-(%s)" % desc_str(n[1])
    if k in ("add", "sub"):
        return "(%s %s %s)" % (desc_str(n[1]), "+" if k == "add" else "-", desc_str(n[2]))
    names = dict(action="Action", adjoint="Adjoint", actionF="action", adjointF="adjoint", call="call", mul="mul", deriv="derivative")
    return "%s(%s)" % (names[k], ", ".join(desc_str(c) for c in n[1:] if isinstance(c, tuple)))


def desc_size(n):
    k = n[0]
    if k == "leaf":
        return 0
    if k == "formSum":
        return 1 + sum(desc_size(c) for c in n[1])
    return 1 + sum(desc_size(c) for c in n[1:] if isinstance(c, tuple))


def desc_ops(n, acc):
    k = n[0]
    if k == "leaf":
        acc["leaf:" + type(n[1]).__name__] = acc.get("leaf:" + type(n[1]).__name__, 0) + 1
        return
    acc[k] = acc.get(k, 0) + 1
    for c in (n[1] if k == "formSum" else [c for c in n[1:] if isinstance(c, tuple)]):
        desc_ops(c, acc)


def directed_cases(seed):
    """hand-written compositions run on every seed: the corner cases the property names and the minimal witnesses of the findings"""
    out = []

    def case(name, build):
        rng = random.Random(seed * 31 + len(out))
        W = World(rng)
        G = DescGen(W)
        V, U, X = (0, False), (1, False), (2, False)
        Vd, Ud = (0, True), (1, True)
        L = lambda o, sig: ("leaf", o, tuple(sig))   # noqa
        out.append((name, W, build(W, G, L, V, U, X, Vd, Ud)))
    Z = lambda W: W.ufl.classes.Zero()   # noqa
    case("identity-left-on-Action", lambda W, G, L, V, U, X, Vd, Ud: ("action", L(W.ufl.Coargument(W.sp(*Vd), 1), (V, Vd)),
         ("action", L(W.matrix(V, U), (V, U)), L(W.coefficient(1), (Ud,)))))
    case("identity-right-on-Action", lambda W, G, L, V, U, X, Vd, Ud: ("action", ("action", L(W.matrix(V, Ud), (V, Ud)), L(W.matrix(U, X), (U, X))),
         L(W.argument(X, 1), ((2, True), X))))
    case("identity-left-on-Form", lambda W, G, L, V, U, X, Vd, Ud: ("action", L(W.ufl.Coargument(W.sp(*Vd), 1), (V, Vd)), L(G.form_leaf((V, U)), (V, U))))
    case("identity-under-distribution", lambda W, G, L, V, U, X, Vd, Ud: ("action", ("smul", -1, L(W.ufl.Coargument(W.sp(*Vd), 1), (V, Vd))),
         ("action", L(W.matrix(V, U), (V, U)), L(W.coefficient(1), (Ud,)))))
    case("vector-matrix-plus-cofunction", lambda W, G, L, V, U, X, Vd, Ud: ("add", ("action", L(W.cofunction(1), (U,)), L(W.matrix(Ud, V), (Ud, V))),
         L(W.cofunction(0), (V,))))
    case("three-form-times-matrix", lambda W, G, L, V, U, X, Vd, Ud: ("action", L(G.form_leaf((V, V, U)), (V, V, U)), L(W.matrix(Ud, V), (Ud, V))))
    case("coefficient-on-the-left", lambda W, G, L, V, U, X, Vd, Ud: ("action", L(W.coefficient(0), (Vd,)), L(W.cofunction(0), (V,))))
    case("sum-of-coefficients-on-the-left", lambda W, G, L, V, U, X, Vd, Ud: ("action", L(W.coefficient(0) + W.coefficient(0), (Vd,)), L(G.form_leaf((V, U)), (V, U))))
    case("M-minus-M", lambda W, G, L, V, U, X, Vd, Ud: (lambda m: ("sub", m, m))(L(W.matrix(V, U), (V, U))))
    case("zero-times-matrix", lambda W, G, L, V, U, X, Vd, Ud: ("smul", 0, L(W.matrix(V, U), (V, U))))
    case("zero-times-form-plus-matrix", lambda W, G, L, V, U, X, Vd, Ud: ("formSum", [L(G.form_leaf((V, U)), (V, U)), L(W.matrix(V, U), (V, U))], [0, 1]))
    case("form-plus-zerobaseform", lambda W, G, L, V, U, X, Vd, Ud: ("add", L(G.form_leaf((V,)), (V,)), L(G.zero_leaf((V,)), (V,))))
    case("zerobaseform-plus-form", lambda W, G, L, V, U, X, Vd, Ud: ("add", L(G.zero_leaf((V,)), (V,)), L(G.form_leaf((V,)), (V,))))
    case("minus-zerobaseform", lambda W, G, L, V, U, X, Vd, Ud: ("neg", L(G.zero_leaf((V, U)), (V, U))))
    case("zerobaseform-minus-cofunction", lambda W, G, L, V, U, X, Vd, Ud: ("sub", L(G.zero_leaf((V,)), (V,)), L(W.cofunction(0), (V,))))
    case("formsum-of-formsum-weight-1.0", lambda W, G, L, V, U, X, Vd, Ud: ("formSum", [("formSum", [L(W.matrix(V, U), (V, U)), L(W.matrix(V, U), (V, U))], [2, 3])], [1.0]))
    case("formsum-merges-forms", lambda W, G, L, V, U, X, Vd, Ud: ("formSum", [L(G.form_leaf((V,)), (V,)), L(W.cofunction(0), (V,)), L(G.form_leaf((V,)), (V,))], [2, 1, -0.5]))
    case("formsum-of-two-forms", lambda W, G, L, V, U, X, Vd, Ud: ("formSum", [L(G.form_leaf((V,)), (V,)), L(G.form_leaf((V,)), (V,))], [1, 1]))
    case("adjoint-of-formsum-of-two-forms", lambda W, G, L, V, U, X, Vd, Ud: ("adjoint", ("formSum", [L(G.form_leaf((V, U)), (V, U)), L(G.form_leaf((V, U)), (V, U))], [1, 1])))
    case("action-on-formsum-of-two-forms", lambda W, G, L, V, U, X, Vd, Ud: ("action", L(W.matrix(X, Vd), (X, Vd)), ("formSum", [L(G.form_leaf((V,)), (V,)), L(G.form_leaf((V,)), (V,))], [1, 1])))
    case("scalar-times-scalar-times-form", lambda W, G, L, V, U, X, Vd, Ud: ("smul", 2, ("smul", 3, L(G.form_leaf((V, U)), (V, U)))))
    case("adjoint-adjoint", lambda W, G, L, V, U, X, Vd, Ud: ("adjoint", ("adjoint", L(W.matrix(V, U), (V, U)))))
    case("adjoint-of-weighted-sum", lambda W, G, L, V, U, X, Vd, Ud: ("adjoint", ("add", ("smul", 2, L(W.matrix(V, U), (V, U))), ("smul", 3, L(W.matrix(V, U), (V, U))))))
    case("adjoint-of-zerobaseform", lambda W, G, L, V, U, X, Vd, Ud: ("adjoint", L(G.zero_leaf((V, U)), (V, U))))
    case("adjoint-of-coargument-in-action", lambda W, G, L, V, U, X, Vd, Ud: ("action", ("adjoint", L(W.ufl.Coargument(W.sp(*Vd), 1), (V, Vd))), L(W.matrix(Vd, U), (Vd, U))))
    case("adjoint-of-cofunction", lambda W, G, L, V, U, X, Vd, Ud: ("adjoint", L(W.cofunction(0), (V,))))
    case("action-matrix-Zero", lambda W, G, L, V, U, X, Vd, Ud: ("action", L(W.matrix(V, U), (V, U)), L(Z(W), (Ud,))))
    case("action-Zero-matrix", lambda W, G, L, V, U, X, Vd, Ud: ("action", L(Z(W), (Vd,)), L(W.matrix(V, U), (V, U))))
    case("action-zerobaseform-sum", lambda W, G, L, V, U, X, Vd, Ud: ("action", L(G.zero_leaf((V, U)), (V, U)), L(W.coefficient(1) + W.coefficient(1), (Ud,))))
    case("action-matrix-sum3", lambda W, G, L, V, U, X, Vd, Ud: ("action", L(W.matrix(V, U), (V, U)), L(W.coefficient(1) + W.coefficient(1) + W.coefficient(1), (Ud,))))
    case("action-sum-of-matrices", lambda W, G, L, V, U, X, Vd, Ud: ("action", ("add", L(W.matrix(V, U), (V, U)), L(W.matrix(V, U), (V, U))), L(W.coefficient(1), (Ud,))))
    case("action-weighted-matrix-zerobaseform", lambda W, G, L, V, U, X, Vd, Ud: ("action", ("smul", 2, L(W.matrix(V, Ud), (V, Ud))), L(G.zero_leaf((U,)), (U,))))
    case("action-incompatible-spaces", lambda W, G, L, V, U, X, Vd, Ud: ("action", L(W.matrix(V, U), (V, U)), L(W.coefficient(0), (Vd,))))
    case("coargument-cofunction", lambda W, G, L, V, U, X, Vd, Ud: ("action", L(W.ufl.Coargument(W.sp(*Vd), 1), (V, Vd)), L(W.cofunction(0), (V,))))
    case("all-zero-formsum", lambda W, G, L, V, U, X, Vd, Ud: ("formSum", [L(G.zero_leaf((V,)), (V,)), L(G.zero_leaf((V,)), (V,))], [1, 2]))
    case("matrix-matrix", lambda W, G, L, V, U, X, Vd, Ud: ("action", L(W.matrix(V, Ud), (V, Ud)), L(W.matrix(U, X), (U, X))))
    case("cofunction-coefficient", lambda W, G, L, V, U, X, Vd, Ud: ("action", L(W.cofunction(0), (V,)), L(W.coefficient(0), (Vd,))))
    return out


class Cyclic(Exception):
    pass


def has_cycle(o, path=()):
    """does the object reach itself through its operands (an Action re-initialised as its own operand)?"""
    from ufl.classes import FormSum, Action, Adjoint
    if any(o is p for p in path):
        return True
    if isinstance(o, Action):
        kids = (o._left, o._right)
    elif isinstance(o, Adjoint):
        kids = (o._form,)
    elif isinstance(o, FormSum):
        kids = tuple(o.components())
    else:
        return False
    return any(has_cycle(k, path + (o,)) for k in kids)


def has_expr_component(o):
    """a FormSum with a component that is not a BaseForm (e.g. the Argument returned by Adjoint(Coargument)): arguments() raises by design"""
    from ufl.classes import FormSum, Action, Adjoint, BaseForm
    if isinstance(o, FormSum):
        return any((not isinstance(c, BaseForm)) or has_expr_component(c) for c in o.components())
    if isinstance(o, Action):
        return has_expr_component(o._left) or has_expr_component(o._right)
    if isinstance(o, Adjoint):
        return has_expr_component(o._form)
    return False


def has_tie(o):
    """a sum whose `sorted(set(arguments), key=number)` has equal keys: the order (hence `[-1]`, `[1:]`) depends on hashing"""
    from ufl.classes import FormSum, Form
    for x in walk_obj(o):
        if isinstance(x, (FormSum, Form)):
            try:
                nums = [a.number() for a in x.arguments()]
            except RecursionError:
                raise
            except Exception:  # noqa
                continue
            if len(set(nums)) != len(nums):
                return True
    return False


def build_py(W, n, trace=None):
    res = _build_py(W, n, trace)
    if trace is not None:
        trace.append(res)
    return res


def _build_py(W, n, trace):
    """run the real constructors bottom-up, in Python's evaluation order"""
    ufl = W.ufl
    from ufl.classes import FormSum, Action, Adjoint
    k = n[0]
    if k == "leaf":
        return n[1]
    if k == "formSum":
        cs = [build_py(W, c, trace) for c in n[1]]
        return FormSum(*zip(cs, n[2]))
    if k in ("action", "actionF", "call", "mul"):
        l = build_py(W, n[1], trace)
        r = build_py(W, n[2], trace)
        if k == "action":
            res = Action(l, r)
        elif k == "actionF":
            res = ufl.action(l, r)
        elif not isinstance(l, ufl.classes.BaseForm):
            raise TypeError("form(x) / form*x on an expression: not a base-form operation")
        elif k == "call":
            res = l(r)
        else:
            res = l * r
        if has_cycle(res):
            raise Cyclic()
        return res
    if k == "adjoint":
        return Adjoint(build_py(W, n[1], trace))
    if k == "adjointF":
        return ufl.adjoint(build_py(W, n[1], trace))
    if k == "add":
        a = build_py(W, n[1], trace)
        return a + build_py(W, n[2], trace)
    if k == "sub":
        a = build_py(W, n[1], trace)
        return a - build_py(W, n[2], trace)
    if k == "neg":
        return -build_py(W, n[1], trace)
    if k == "smul":
        return n[1] * build_py(W, n[2], trace)
    raise ValueError(k)


def spec_sig(n):
    """signature according to argument contraction, of a typed description"""
    k = n[0]
    if k == "leaf":
        return tuple(n[2])
    if k == "formSum":
        return spec_sig(n[1][0])
    if k in ("add", "sub"):
        return spec_sig(n[1])
    if k == "neg":
        return spec_sig(n[1])
    if k == "smul":
        return spec_sig(n[2])
    if k in ("action", "actionF", "call", "mul"):
        return spec_sig(n[1])[:-1] + spec_sig(n[2])[1:]
    if k in ("adjoint", "adjointF"):
        return tuple(reversed(spec_sig(n[1])))
    raise ValueError(k)


def assemble_desc(W, n, np):
    """the multilinear map a description denotes, by plain linear algebra on the leaves"""
    from ufl.classes import Form, Zero
    k = n[0]
    if k == "leaf":
        o = n[1]
        shape = tuple(W.dims[s] for s, _ in n[2])
        if isinstance(o, Form):
            args = [W.argument(s, i) for i, s in enumerate(n[2])]
            # the leaf's own arguments may be numbered differently: use them in their order
            real = sorted({a for itg in o.integrals() for a in _args_of(itg.integrand())}, key=lambda a: a.number())
            if len(real) == len(args):
                args = real
            return W.assemble_form(o, args, np)
        if isinstance(o, Zero):
            return np.zeros(shape, dtype=complex)
        try:
            return W.assemble_obj(o, np)
        except Unassemblable:
            return np.zeros(shape, dtype=complex)
    if k == "formSum":
        T = None
        for c, w in zip(n[1], n[2]):
            t = complex(w) * assemble_desc(W, c, np)
            T = t if T is None else T + t
        return T
    if k == "add":
        return assemble_desc(W, n[1], np) + assemble_desc(W, n[2], np)
    if k == "sub":
        return assemble_desc(W, n[1], np) - assemble_desc(W, n[2], np)
    if k == "neg":
        return -assemble_desc(W, n[1], np)
    if k == "smul":
        return complex(n[1]) * assemble_desc(W, n[2], np)
    if k in ("action", "actionF", "call", "mul"):
        L, R = assemble_desc(W, n[1], np), assemble_desc(W, n[2], np)
        return np.tensordot(L, R, axes=([L.ndim - 1], [0]))
    if k in ("adjoint", "adjointF"):
        return np.conj(assemble_desc(W, n[1], np).T)
    raise ValueError(k)


def _args_of(e):
    from ufl.algorithms.analysis import extract_type
    from ufl.classes import Argument
    return extract_type(e, Argument)


def coefs_of_desc(n, acc):
    from ufl.classes import Form, Cofunction, Coefficient, Sum
    from ufl.algorithms.analysis import extract_type
    k = n[0]
    if k == "leaf":
        o = n[1]
        if isinstance(o, Form):
            for itg in o.integrals():
                acc.update(c.count() for c in extract_type(itg.integrand(), Coefficient))
        elif isinstance(o, (Cofunction, Coefficient)):
            acc.add(o.count())
        elif isinstance(o, Sum):
            acc.update(c.count() for c in extract_type(o, Coefficient))
        return
    for c in (n[1] if k == "formSum" else [c for c in n[1:] if isinstance(c, tuple)]):
        coefs_of_desc(c, acc)


# ---------------------------------------------------------------------------------------------------------------------
# behavioural probes of the live code (translator part)
# ---------------------------------------------------------------------------------------------------------------------
def observe_flags():
    import ufl
    from utils import LagrangeElement
    from ufl.classes import Action
    mesh = ufl.Mesh(LagrangeElement(ufl.triangle, 1, (2,)))
    V = ufl.FunctionSpace(mesh, LagrangeElement(ufl.triangle, 1))
    U = ufl.FunctionSpace(mesh, LagrangeElement(ufl.triangle, 2))
    A = Action(ufl.Matrix(V, U), ufl.Coefficient(U))
    B = Action(ufl.Coargument(V.dual(), 1), A)
    if B is not A:
        raise RuntimeError("Action(Coargument, A) no longer returns A: the model of the identity simplification is out of date")
    guard = not (B._right is B or B._left is B)
    if guard and not (isinstance(B._left, ufl.Matrix)):
        raise RuntimeError("unexpected state of the Action returned by the identity simplification")
    N = Action(ufl.Cofunction(U.dual()), ufl.Matrix(U.dual(), V))
    (a,) = N.arguments()
    if a.number() not in (0, 1):
        raise RuntimeError("unexpected argument number %r" % a.number())
    u = ufl.Coefficient(U)
    cs = Action(u, ufl.Cofunction(U.dual())).coefficients()
    adj = ufl.classes.Adjoint(ufl.classes.FormSum((ufl.Matrix(V, U), 1j)))
    (w,) = adj.weights()
    try:
        w = complex(w)
    except TypeError:
        w = complex(w((), {}))
    if w not in (1j, -1j):
        raise RuntimeError("unexpected weight %r of Adjoint(1j*M)" % (w,))
    # Adjoint.__init__ / FormSum.__init__ on an instance returned by __new__
    v0, v1 = ufl.Argument(V, 0), ufl.Argument(U, 1)
    f1 = ufl.Coefficient(V) * v0 * v1 * ufl.dx(domain=mesh)
    f2 = ufl.Coefficient(V) * v0 * v1 * ufl.dx(domain=mesh)
    ad = ufl.classes.Adjoint(ufl.classes.FormSum((f1, 1), (f2, 1)))
    if not isinstance(ad, ufl.classes.Adjoint):
        raise RuntimeError("Adjoint(FormSum((F1,1),(F2,1))) is no longer an Adjoint: the model of the distribution is out of date")
    gadj = isinstance(ad.form(), ufl.classes.Form)
    fs = ufl.classes.FormSum((ufl.Matrix(V, U), 2), (ufl.Matrix(V, U), 3))
    fs2 = ufl.classes.FormSum((fs, 1.0))
    if fs2 is not fs:
        raise RuntimeError("FormSum((fs, 1.0)) no longer returns fs")
    gsum = not any(isinstance(x, float) for x in fs.weights())
    return guard, a.number() == 0, any(c is u for c in cs), w == -1j, gadj, gsum


def render_flags():
    from translate import leanfmt as L
    guard, renum, leftc, adjc, gadj, gsum = observe_flags()
    text = "\n".join([
        L.header("../props/c28.py", "Observed behaviour of the base-form constructors: reinitGuard = `Action(Coargument, A)` with `A` an "
                 "Action returns `A` unchanged (False: Python re-runs `Action.__init__` on it and it becomes its own operand); "
                 "actionRenumbers = `Action(cofunction, matrix).arguments()` is numbered from 0; leftCoefficientReported = "
                 "`Action(coefficient, cofunction).coefficients()` contains the coefficient; adjointConjugatesWeights = "
                 "`Adjoint(FormSum((M, 1j)))` has the weight -1j; adjointInitGuard = `Adjoint(FormSum((F1,1),(F2,1)))` keeps the distributed "
                 "operand (False: Python re-runs `Adjoint.__init__` with the undistributed FormSum); formSumInitGuard = `FormSum((fs, 1.0))` "
                 "leaves the weights of `fs` alone."),
        "namespace UflVerif.Gen.C28Flags\n",
        "def reinitGuard : Bool := %s\n" % L.b(guard),
        "def actionRenumbers : Bool := %s\n" % L.b(renum),
        "def leftCoefficientReported : Bool := %s\n" % L.b(leftc),
        "def adjointConjugatesWeights : Bool := %s\n" % L.b(adjc),
        "def adjointInitGuard : Bool := %s\n" % L.b(gadj),
        "def formSumInitGuard : Bool := %s\n" % L.b(gsum),
        "end UflVerif.Gen.C28Flags\n"])
    return text, dict(guard=guard, renum=renum, leftCoef=leftc, adjConj=adjc, guardAdj=gadj, guardSum=gsum)


class BadList(list):
    """findings of the oracle; every entry records where its case came from so that it can be regenerated (replay)"""

    def __init__(self, owner):
        super().__init__()
        self.owner = owner

    def append(self, item):
        item[1].setdefault("origin", dict(self.owner.origin or {}))
        super().append(item)


class _Cov:
    def __init__(self):
        self.cov = {}


# ---------------------------------------------------------------------------------------------------------------------
class C28(Prop):
    pid = "C28"
    lean_modules = ["UflVerif.Props.C28"]
    min_theorems = 28
    trusted = ["correspondence harness/props/c28.py + Drivers/C28.lean `(build g r lc desc)`, `(mapz ..)`, `(denote ..)`; Forms are abstracted to weighted lists "
               "of atomic integrals (numeric factors peeled off the integrand; the atom is identified by structural equality of the remaining integrand)",
               "numpy assembly of the oracle (UFL's own point evaluation `expr(x, mapping)` of the real integrands); the probes behind Gen/C28Flags.lean",
               "modelled rather than verified: Interpolate/BaseFormOperator branches of Action.__new__, domains, hashing/equality of base forms, "
               "the order of sorted(set(arguments)) among equal argument numbers (cases where it matters are skipped and counted), "
               "compute_form_action/compute_form_adjoint and derivative()/expand_derivatives of base forms (oracle only)"]
    assumptions = ["well-typed compositions (WT, decidable): every contraction pairs a slot with a slot of the dual space, the summands of a sum have one signature, adjoints are taken of 2-forms",
                   "value statements are for multi-indices within the dimensions of the signature (IdxOK); the conjugation of the environment is an involutive ring homomorphism (StarOK)",
                   "C28_build_sound needs `cj = star` (what the code does to weights under an Adjoint is the conjugation): real mode while Gen.C28Flags.adjointConjugatesWeights is false",
                   "C28_arguments_partial: side condition ArgsOK (forms have non-zero integrands over one increasingly numbered argument tuple; the summands of every sum report the same tuple) computed with the observed flags; "
                   "C28_coefficients_partial: no Action with a Coefficient left operand unless the code reports it; C28_identity_action_partial: the returned operand is not an Action unless __init__ is guarded",
                   "forms multiplied by a literal 0 lose their arguments (UFL-wide): such forms are outside WT-preservation of `arguments()` (the value statements still hold)"]

    def regenerate(self, ctx):
        text, self.flags = render_flags()
        p = LEAN / "UflVerif/Gen/C28Flags.lean"
        return [(p.relative_to(LEAN), write_if_changed(p, text))]

    def get_flags(self):
        if getattr(self, "flags", None) is None:
            _, self.flags = render_flags()
        return self.flags

    # ------------------------------------------------------------------------------------------------------------------
    origin = None

    def make_case(self, seed, salt, k, cplx=False, api=False, typed=True):
        rng = random.Random(seed * 1000003 + 28 * 7919 + salt * 104729 + k)
        W = World(rng, cplx=cplx)
        G = DescGen(W, api=api, odd_numbers=0.0 if typed else 0.15)
        if typed:
            nsl = rng.choice([0, 1, 1, 2, 2, 2, 3])
            sig = tuple(G.rslot() if (nsl == 2 and rng.random() < 0.5) else G.rspace() for _ in range(nsl))
            d = G.gen(sig, rng.choice([1, 2, 2, 3, 3, 4]))
        else:
            d = G.any(rng.choice([1, 2, 2, 3]))
        return k, W, d

    def cases(self, ctx, n, salt, cplx=False, api=False, typed=True):
        for k in range(n):
            self.origin = dict(stream="typed" if typed else "untyped", seed=ctx.seed, salt=salt, k=k, cplx=cplx, api=api, typed=typed)
            yield self.make_case(ctx.seed, salt, k, cplx, api, typed)

    def run_case(self, W, d):
        """returns (kind, obj|exception)"""
        self.trace = []
        try:
            return "ok", build_py(W, d, self.trace)
        except Cyclic:
            return "cyclic", None
        except RecursionError:
            return "cyclic", None
        except Exception as e:  # noqa
            return "raises", e

    def impl_reply(self, W, kind, o):
        """canonical description of what the implementation did"""
        if kind == "cyclic":
            return ("err", "cyclic")
        if kind == "raises":
            return ("err", ERRKIND.get(type(o).__name__, type(o).__name__))
        tree = W.ser(o)
        try:
            args = ("args", sorted(W.arg_wire(a) for a in o.arguments()))
        except RecursionError:
            args = ("argserr", "recursion")
        except Exception as e:  # noqa
            args = ("argserr", ERRKIND.get(type(e).__name__, type(e).__name__))
        try:
            coefs = ("coefs", sorted(W.coef_wire(c) for c in o.coefficients()))
        except RecursionError:
            coefs = ("coefserr", "recursion")
        except Exception as e:  # noqa
            coefs = ("coefserr", ERRKIND.get(type(e).__name__, type(e).__name__))
        return ("ok", tree, args, coefs)

    @staticmethod
    def model_reply(rep):
        x = sx_parse(rep)
        if x[0] == "err":
            return ("err", x[1])
        if x[0] != "ok":
            return ("bad", rep)
        tree = sx_str(x[1])
        a = x[2]
        args = ("args", sorted(sx_str(y) for y in a[1:])) if a[0] == "args" else ("argserr", a[1])
        c = x[3]
        coefs = ("coefs", sorted(sx_str(y) for y in c[1:])) if c[0] == "coefs" else ("coefserr", c[1])
        return ("ok", tree, args, coefs), [sx_str(y) for y in x[4][1:]], x[5] == "1"

    def correspondence(self, ctx, ev):
        import numpy as np
        fl = self.get_flags()
        flw = "(%s)" % " ".join("1" if fl[x] else "0" for x in ("guard", "renum", "leftCoef", "guardAdj", "guardSum"))
        n_typed = 350 if ctx.quick else 6000
        n_any = 250 if ctx.quick else 5000
        reqs, meta = [], []
        self.bad = BadList(self)
        self.typed_errors = []
        ops, sizes = {}, []
        outcomes = {}
        dcases = directed_cases(ctx.seed)
        self.directed_outcomes = {}
        streams = [(True, ((10 ** 6 + i, W, d) for i, (name, W, d) in enumerate(dcases)))]
        origins = {}
        streams += [(typed, self.cases(ctx, n, salt, typed=typed)) for typed, n, salt in ((True, n_typed, 1), (False, n_any, 2))]
        for typed, stream in streams:
            for k, W, d in stream:
                if k >= 10 ** 6:
                    self.origin = dict(stream="directed", seed=ctx.seed, k=k - 10 ** 6)
                origins[(typed, k)] = dict(self.origin)
                wire = desc_wire(W, d)          # before building: the constructors may mutate the leaves' caches only
                kind, o = self.run_case(W, d)
                impl = self.impl_reply(W, kind, o)
                amb = False
                if kind != "cyclic":
                    try:
                        amb = any(has_tie(x) for x in self.trace)
                    except RecursionError:
                        amb = False
                reqs.append("(build %s %s)" % (flw, wire))
                meta.append((typed, k, W, d, kind, o, impl, wire, amb))
                desc_ops(d, ops)
                sizes.append(desc_size(d))
        replies = leandrv.run_driver("C28", reqs)
        fails, distinct, nontrivial = [], set(), 0
        nval = nsig = ncoef = 0
        den_reqs, den_meta = [], []
        map_cases = []
        for (typed, k, W, d, kind, o, impl, wire, amb), rq, rep in zip(meta, reqs, replies):
            if rep.startswith("(parse-error") or rep.startswith("(bad-request"):
                fails.append(Failure("correspondence", "driver", "case %s/%d: %s for %s" % (typed, k, rep, rq[:300]), case=rq[:3000]))
                continue
            self.origin = origins.get((typed, k))
            mr = self.model_reply(rep)
            if mr[0] in ("err", "bad"):
                model, msig, mwt = mr, None, None
            else:
                model, msig, mwt = mr
            if model[0] == "err" and model[1] == "unsupported":
                outcomes["unsupported"] = outcomes.get("unsupported", 0) + 1
                continue
            tag = impl[0] if impl[0] == "ok" else "err:" + impl[1]
            if k >= 10 ** 6:
                self.directed_outcomes[dcases[k - 10 ** 6][0]] = (impl[1][:160] if impl[0] == "ok" else tag)
            outcomes[("typed " if typed else "untyped ") + tag] = outcomes.get(("typed " if typed else "untyped ") + tag, 0) + 1
            if impl != model and amb:
                outcomes["skipped: argument order depends on hashing (equal numbers in a sum)"] = outcomes.get("skipped: argument order depends on hashing (equal numbers in a sum)", 0) + 1
                continue
            if impl != model:
                if len(fails) < 10:
                    fails.append(Failure("correspondence", "build", "case %s/%d: %s | impl: %s | model: %s" % (
                        "typed" if typed else "untyped", k, desc_str(d)[:300], str(impl)[:600], str(model)[:600]), case=rq[:4000]))
                continue
            if impl[0] == "ok" and desc_size(d) >= 2:
                distinct.add(rq)
            # ---- the property, read on the implementation's output
            if kind == "cyclic" and typed:
                self.bad.append(("Action(identity argument, A) with A an Action returned A re-initialised as its own operand (arguments() recurses for ever)",
                                 dict(kind="action-identity-reinit", desc=desc_str(d)[:300], wire=wire[:3000])))
            if kind == "raises" and typed and isinstance(o, RecursionError):
                self.bad.append(("RecursionError", dict(kind="recursion", desc=desc_str(d)[:300], wire=wire[:3000])))
            if kind == "raises" and typed:
                self.typed_errors.append((type(o).__name__, str(o)[:100], desc_str(d)[:300]))
            if kind != "ok" or not typed:
                continue
            if impl[1] != wire_of_leaf(d, W):
                nontrivial += 1
            map_cases.append((k, W, d, o))
            self.check_object(W, d, o, np, wire, counters := {})
            nval += counters.get("val", 0); nsig += counters.get("sig", 0); ncoef += counters.get("coef", 0)
            # the Lean semantics `denote` on the same finite-dimensional model (description and simplified object)
            if model[0] == "ok" and counters.get("want") is not None and counters.get("got") is not None and \
                    counters["want"].shape == counters["got"].shape and counters["want"].size <= 27:
                try:
                    envw = W.env_wire(np)
                    full = W.ser(o, full=True)
                except Exception:  # noqa
                    envw = None
                if envw is not None:
                    shape = counters["want"].shape
                    idxs = list(itertools.product(*[range(n) for n in shape]))
                    idx = idxs[(k * 7919) % len(idxs)]
                    den_reqs.append("(denote %s %s (%s))" % (wire, envw, " ".join(map(str, idx))))
                    den_reqs.append("(denote (leaf %s) %s (%s))" % (full, envw, " ".join(map(str, idx))))
                    den_meta.append((k, d, complex(counters["want"][idx]), complex(counters["got"][idx]), idx))
            # model's typing agrees with the generator's
            if mwt is not None and model[0] == "ok":
                want = ["(S %d %d)" % (s, 1 if du else 0) for s, du in spec_sig(d)]
                from ufl.classes import ZeroBaseForm
                if mwt and msig != want and not isinstance(o, ZeroBaseForm):
                    fails.append(Failure("correspondence", "sigS", "case %d: model signature %s, generator %s for %s" % (k, msig, want, desc_str(d)[:200]), case=rq[:3000]))
        # second round: values through the Lean semantics
        nden = 0
        if den_reqs:
            den = leandrv.run_driver("C28", den_reqs)
            for (k, d, want, got, idx), r1, r2 in zip(den_meta, den[0::2], den[1::2]):
                for what, rep, ref in (("description", r1, want), ("simplified object", r2, got)):
                    x = sx_parse(rep) if rep.startswith("(ok") else None
                    if x is None:
                        fails.append(Failure("correspondence", "denote", "case %d: driver says %s" % (k, rep[:200]), case=desc_str(d)[:500]))
                        continue
                    v = float(Fraction(x[1]))
                    nden += 1
                    if abs(v - ref.real) > 1e-9 * max(1.0, abs(ref.real)) and len(fails) < 10:
                        fails.append(Failure("correspondence", "denote", "case %d: Lean `denote` of the %s at %s is %s, the numpy assembly gives %s :: %s" % (
                            k, what, list(idx), x[1], ref, desc_str(d)[:300])))
        ev.cov["lean_denote_vs_numpy_checks"] = nden
        ev.cov["directed_cases"] = self.directed_outcomes
        fails += self.map_stage(ctx, ev, map_cases, flw, np)
        ev.cov["evaluations"] = len(reqs) + len(den_reqs)
        ev.cov["distinct_nontrivial"] = len(distinct)
        ev.cov["typed_cases_where_a_simplification_fired"] = nontrivial
        ev.cov["outcomes"] = dict(sorted(outcomes.items()))
        ev.cov["operator_histogram"] = dict(sorted(ops.items()))
        ev.cov["size_histogram"] = {str(s): sizes.count(s) for s in sorted(set(sizes))}
        ev.cov["value_checks"] = nval
        ev.cov["signature_checks"] = nsig
        ev.cov["coefficient_checks"] = ncoef
        ev.cov["flags"] = fl
        ev.cov["traces_validated_against_impl"] = len(reqs) - outcomes.get("unsupported", 0)
        ev.cov["rule"] = ("typed stream: descriptions generated by requested signature (slots = spaces or dual spaces, 0-3 slots) over FormSum with weights from %s, + - unary- "
                          "scalar*, Action (contraction at a random slot, identity Coargument/Argument operands, sums of coefficients, Zero), Adjoint; leaves: Forms of 1-3 atomic "
                          "integrals over dx(0..3) (shared coefficients), Matrix, Cofunction, Coargument, ZeroBaseForm, Coefficient, Argument, shared leaf objects; untyped "
                          "stream: the same productions without typing (raises / exception class compared).  non-trivial = distinct request with >= 2 constructor "
                          "calls that the implementation accepted" % (WEIGHTS,))
        ev.cov["samples"] = [dict(desc=desc_str(d)[:200], result=impl[1][:200] if impl[0] == "ok" else str(impl)) for (t, k, W, d, kind, o, impl, wire, amb) in meta[:4]]
        return fails

    # ------------------------------------------------------------------------------------------------------------------
    def check_object(self, W, d, o, np, wire, counters, tag=""):
        """the property on one simplified object `o` built from the typed description `d`"""
        from ufl.classes import ZeroBaseForm, BaseForm
        info = dict(desc=desc_str(d)[:400], wire=wire[:3000])
        try:
            want = assemble_desc(W, d, np)
        except Exception as e:  # noqa   (ill-typed by construction: not an oracle case)
            return
        try:
            got = W.assemble_obj(o, np)
        except Unassemblable:
            got = None
        except RecursionError:
            self.bad.append(("assembling the simplified object recurses for ever", dict(kind="action-identity-reinit", **info)))
            return
        except Exception as e:  # noqa
            self.bad.append(("assembling the simplified object raises %s: %s" % (type(e).__name__, str(e)[:80].replace("\n", " ")),
                             dict(kind="assemble-raise:" + type(e).__name__, **info)))
            return
        counters["want"], counters["got"] = want, got
        if got is not None:
            counters["val"] = counters.get("val", 0) + 1
            if not same_tensor(got, want, np):
                self.bad.append(("the simplified object assembles to %s but the description denotes %s" % (
                    np.round(got, 6).tolist() if got.size < 10 else got.shape, np.round(want, 6).tolist() if want.size < 10 else want.shape),
                    dict(kind=value_kind(W, d), **info)))
        if not isinstance(o, BaseForm) or has_expr_component(o):
            counters["expr"] = counters.get("expr", 0) + 1
            return
        # arguments: spaces = signature by argument contraction
        sig = spec_sig(d)
        try:
            args = o.arguments()
        except Exception as e:  # noqa
            self.bad.append(("arguments() of the simplified object raises %s" % type(e).__name__, dict(kind="arguments-raise", **info)))
            return
        counters["sig"] = counters.get("sig", 0) + 1
        have = tuple(W.space_id(a.ufl_function_space()) for a in args)
        degenerate = (got is not None and not np.any(got)) or (not np.any(want))
        if have != tuple(sig) and not (degenerate and (isinstance(o, ZeroBaseForm) or is_zero_form(o))):
            self.bad.append(("arguments() reports the spaces %s, argument contraction gives %s" % (list(have), list(sig)),
                             dict(kind=args_kind(o), **info)))
        # coefficients: perturbing a coefficient that is not reported must not change the assembled value
        try:
            rep = {c.count() for c in o.coefficients()}
        except Exception as e:  # noqa
            self.bad.append(("coefficients() of the simplified object raises %s" % type(e).__name__, dict(kind="coefficients-raise", **info)))
            return
        allc = set()
        coefs_of_desc(d, allc)
        extra = rep - allc
        if extra:
            self.bad.append(("coefficients() reports %s which do not occur in the description" % sorted(extra), dict(kind="coefficients-extra", **info)))
        for c in sorted(allc - rep):
            counters["coef"] = counters.get("coef", 0) + 1
            old = W.coef_vals[c]
            W.coef_vals[c] = [v + 1 + (2j if W.cplx else 0) for v in old]
            try:
                new = assemble_desc(W, d, np)
            finally:
                W.coef_vals[c] = old
            if not same_tensor(new, want, np):
                self.bad.append(("the value depends on the coefficient with count %d, which coefficients() does not report" % c,
                                 dict(kind=coefs_kind(o), **info)))
                break

    # ------------------------------------------------------------------------------------------------------------------
    def map_stage(self, ctx, ev, cases, flags, np):
        """map_integrands(function, b) on the simplified objects, `function` = zero some atoms / leaves: correspondence with the model
        (`mapz`) and oracle (the mapped object assembles to the same tensor once the zeroed data are zero; same argument spaces)"""
        from ufl.algorithms.map_integrands import map_integrands
        from ufl.classes import (Cofunction, Matrix, Coefficient, ZeroBaseForm, Zero, Product, ScalarValue, BaseForm, Expr)
        reqs, meta, fails = [], [], []
        # directed: a sum whose FIRST component (weight 1) vanishes under the map and whose single survivor has another weight
        from ufl.classes import FormSum as _FS
        ndir = 0
        for (k, W, d, o) in cases[:: max(1, len(cases) // 40)]:
            rngd = random.Random(ctx.seed * 911 + k)
            try:
                i = rngd.randrange(3)
                cA, cB, cC = W.cofunction(i), W.cofunction(i), W.cofunction(i)
                for wgt in (3, -2, 0.5):
                    for S, dead in ((_FS((cA, 1), (cB, wgt)), {cA.count()}), (_FS((cA, 1), (cB, wgt), (cC, 1)), {cA.count(), cC.count()}),
                                    (_FS((cB, wgt), (cA, 1)), {cA.count()})):
                        mS = map_integrands(lambda x, dead=dead: ZeroBaseForm(x.arguments()) if (isinstance(x, Cofunction) and x.count() in dead) else x, S)
                        a_, b_ = W.assemble_obj(mS, np), wgt * W.assemble_obj(cB, np)
                        ndir += 1
                        if not same_tensor(a_, b_, np):
                            self.bad.append(("map_integrands over a sum whose other components vanish: the survivor lost or changed its weight %s" % wgt,
                                             dict(kind="map-integrands-survivor-weight", desc="FormSum((cA,1),(cB,%s)) with cA mapped to zero" % wgt, wire="")))
            except Exception:  # noqa
                continue
        ev.cov["map_integrands_directed_survivor_checks"] = ndir
        for (k, W, d, o) in cases:
            rng = random.Random(ctx.seed * 7001 + k * 13 + 28)
            self.map_origins = getattr(self, "map_origins", {})
            zat = [at["id"] for at in W.atoms if rng.random() < 0.3]
            leafc = sorted({x.count() for x in walk_obj(o) if isinstance(x, (Cofunction, Coefficient))})
            leafm = sorted({x.count() for x in walk_obj(o) if isinstance(x, Matrix)})
            zc = [c for c in leafc if rng.random() < 0.25]
            zm = [c for c in leafm if rng.random() < 0.3]
            if k % 2 == 1:
                # everything vanishes except ONE leaf: sums collapse to a single surviving component, which must keep ITS weight
                pool_ = [("a", at["id"]) for at in W.atoms] + [("c", c) for c in leafc] + [("m", c) for c in leafm]
                if pool_:
                    keep = rng.choice(pool_)
                    zat = [at["id"] for at in W.atoms if ("a", at["id"]) != keep]
                    zc = [c for c in leafc if ("c", c) != keep]
                    zm = [c for c in leafm if ("m", c) != keep]
            keys = {at["id"]: at for at in W.atoms}

            def fn(x, W=W, zat=zat, zc=zc, zm=zm):
                if isinstance(x, Expr):
                    e = x
                    while isinstance(e, Product) and isinstance(e.ufl_operands[0], ScalarValue):
                        e = e.ufl_operands[1]
                    for at in W.atoms:
                        if e == at["integrand"]:
                            return Zero() if at["id"] in zat else x
                if isinstance(x, Cofunction):
                    return ZeroBaseForm(x.arguments()) if x.count() in zc else x
                if isinstance(x, Matrix):
                    return ZeroBaseForm(x.arguments()) if x.count() in zm else x
                if isinstance(x, Coefficient):
                    return Zero() if x.count() in zc else x
                if isinstance(x, BaseForm):
                    return x
                e = x
                while isinstance(e, Product) and isinstance(e.ufl_operands[0], ScalarValue):
                    e = e.ufl_operands[1]
                for at in W.atoms:
                    if at["id"] in zat and e == at["integrand"]:
                        return Zero()
                return x
            try:
                full = W.ser(o, full=True)
            except Exception:  # noqa
                continue
            try:
                m = map_integrands(fn, o)
                kind = "cyclic" if has_cycle(m) else "ok"
            except RecursionError:
                m, kind = None, "cyclic"
            except Exception as e:  # noqa
                m, kind = e, "raises"
            impl = self.impl_reply(W, kind, m)
            reqs.append("(mapz %s %s (%s) (%s) (%s))" % (flags, full, " ".join(map(str, zat)), " ".join(map(str, zc)), " ".join(map(str, zm))))
            meta.append((k, W, d, o, m, kind, impl, zat, zc, zm))
        replies = leandrv.run_driver("C28", reqs)
        nmap = nval = nfired = unsupported = 0
        for (k, W, d, o, m, kind, impl, zat, zc, zm), rq, rep in zip(meta, reqs, replies):
            mr = self.model_reply(rep)
            model = mr if mr[0] in ("err", "bad") else mr[0]
            if model[0] == "err" and model[1] == "unsupported":
                unsupported += 1
                continue
            nmap += 1
            self.origin = (dict(stream="directed", seed=ctx.seed, k=k - 10 ** 6, map=True) if k >= 10 ** 6 else
                           dict(stream="typed", seed=ctx.seed, salt=1, k=k, cplx=False, api=False, typed=True, map=True))
            if impl != model:
                if len(fails) < 6:
                    fails.append(Failure("correspondence", "map_integrands", "case %d: zero atoms %s coefficients %s matrices %s in %s | impl: %s | model: %s" % (
                        k, zat, zc, zm, W.ser(o)[:300], str(impl)[:500], str(model)[:500]), case=rq[:4000]))
                continue
            if kind == "cyclic":
                self.bad.append(("map_integrands rebuilt Action(identity argument, A) with A an Action: A re-initialised as its own operand",
                                 dict(kind="action-identity-reinit", desc="map_integrands over " + desc_str(d)[:300], wire=rq[:3000])))
            if kind != "ok":
                continue
            if impl[1] != W.ser(o):
                nfired += 1
            # oracle: with the zeroed data set to zero, the mapped object denotes the same tensor
            saved = (dict(W.coef_vals), dict(W.mat_vals))
            try:
                for at in W.atoms:
                    if at["id"] in zat:
                        c0 = int(at["coefs_private"])
                        W.coef_vals[c0] = [0 for _ in W.coef_vals[c0]]
                for c in zc:
                    W.coef_vals[c] = [0 for _ in W.coef_vals[c]]
                for c in zm:
                    W.mat_vals[c] = [[0 for _ in row] for row in W.mat_vals[c]]
                try:
                    a = W.assemble_obj(o, np)
                    b = W.assemble_obj(m, np)
                except (Unassemblable, RecursionError):
                    continue
                except Exception:  # noqa
                    continue
                nval += 1
                if not same_tensor(a, b, np):
                    self.bad.append(("map_integrands changed the value: %s before, %s after (zeroed data set to zero)" % (
                        np.round(a, 6).tolist() if a.size < 10 else a.shape, np.round(b, 6).tolist() if b.size < 10 else b.shape),
                        dict(kind="map-integrands-value", desc="map_integrands over " + desc_str(d)[:300], wire=rq[:3000])))
            finally:
                W.coef_vals, W.mat_vals = saved
        ev.cov["map_integrands_cases"] = nmap
        ev.cov["map_integrands_cases_that_changed_the_object"] = nfired
        ev.cov["map_integrands_value_checks"] = nval
        ev.cov["map_integrands_unsupported"] = unsupported
        return fails

    def derivative_oracle(self, ctx, ev, np):
        """`expand_derivatives(derivative(b, u, du))` of simplified base-form compositions: argument spaces = signature + [space of u],
        value = central differences of the assembled description (exact: the atoms are at most quadratic in u)"""
        from ufl.algorithms import expand_derivatives
        from ufl.classes import BaseForm
        n = 120 if ctx.quick else 2500
        stats = dict(cases=0, not_implemented=0, other_raise=0, value_checks=0, signature_checks=0)
        for k in range(n):
            self.deriv_case(ctx.seed, k, np, stats)
        ev.cov["derivative_oracle"] = stats

    def deriv_case(self, seed, k, np, stats):
        from ufl.algorithms import expand_derivatives
        from ufl.classes import BaseForm
        for _ in (0,):
            self.origin = dict(stream="deriv", seed=seed, k=k)
            rng = random.Random(seed * 1000003 + 28 * 7919 + 6 * 104729 + k)
            W = World(rng)
            xs = rng.randrange(len(W.spaces))
            u = W.coefficient(xs)
            G = DescGen(W, deriv=(u, xs), p_zero=0.05)
            nsl = rng.choice([0, 1, 1, 2])
            sig = tuple(G.rspace() for _ in range(nsl))
            d = G.gen(sig, rng.choice([1, 2, 2, 3]))
            kind, o = self.run_case(W, d)
            if kind != "ok" or not isinstance(o, BaseForm):
                continue
            stats["cases"] += 1
            info = dict(desc="derivative(%s, %s)" % (desc_str(d)[:300], u), wire="seed=%d case=%d" % (seed, k))
            try:
                E = expand_derivatives(W.ufl.derivative(o, u))
                if has_cycle(E):
                    raise Cyclic()
            except NotImplementedError:
                stats["not_implemented"] += 1
                continue
            except (Cyclic, RecursionError):
                self.bad.append(("derivative of a base form built Action(identity argument, A) with A an Action: A re-initialised as its own operand",
                                 dict(kind="action-identity-reinit", **info)))
                continue
            except Exception as e:  # noqa   (rejecting is not a wrong answer: counted, not flagged)
                stats["other_raise"] += 1
                key = "raises " + type(e).__name__
                stats[key] = stats.get(key, 0) + 1
                continue
            # finite differences of the description
            try:
                base = list(W.coef_vals[u.count()])
                cols = []
                for a in range(len(base)):
                    W.coef_vals[u.count()] = [v + (1 if i == a else 0) for i, v in enumerate(base)]
                    tp = assemble_desc(W, d, np)
                    W.coef_vals[u.count()] = [v - (1 if i == a else 0) for i, v in enumerate(base)]
                    tm = assemble_desc(W, d, np)
                    cols.append((tp - tm) / 2)
                W.coef_vals[u.count()] = base
                want = np.stack(cols, axis=-1)
            except Exception:  # noqa
                continue
            if not isinstance(E, BaseForm):
                continue
            try:
                got = W.assemble_obj(E, np)
            except Unassemblable:
                got = None
            except Exception as e:  # noqa
                self.bad.append(("assembling the derivative raises %s: %s" % (type(e).__name__, str(e)[:100].replace("\n", " ")),
                                 dict(kind="derivative-assemble:" + type(e).__name__, **info)))
                continue
            if got is not None:
                stats["value_checks"] += 1
                if not same_tensor(got, want, np):
                    first = got.ndim == want.ndim and got.ndim >= 2 and same_tensor(np.moveaxis(got, 0, -1), want, np)
                    if first:
                        stats["direction_first"] = stats.get("direction_first", 0) + 1
                        self.bad.append(("the derivative of an Action(1-form, r) with further arguments in r has the new direction as its FIRST argument "
                                         "(number 0) instead of the last: assembled %s, central differences of the description %s" % (
                                             np.round(got, 6).tolist() if got.size < 10 else got.shape, np.round(want, 6).tolist() if want.size < 10 else want.shape),
                                         dict(kind="derivative-action-direction-first", **info)))
                    elif any(isinstance(x, W.ufl.classes.Action) and len(x.arguments()) >= 1 for x in walk_obj(o)):
                        stats["direction_first"] = stats.get("direction_first", 0) + 1
                        self.bad.append(("a sum containing the derivative of an Action(1-form, r) with further arguments in r (new direction first) and "
                                         "terms with the new direction last: assembled %s, central differences of the description %s" % (
                                             np.round(got, 6).tolist() if got.size < 10 else got.shape, np.round(want, 6).tolist() if want.size < 10 else want.shape),
                                         dict(kind="derivative-action-direction-first", **info)))
                    else:
                        self.bad.append(("the derivative assembles to %s, central differences of the description give %s" % (
                            np.round(got, 6).tolist() if got.size < 10 else got.shape, np.round(want, 6).tolist() if want.size < 10 else want.shape),
                            dict(kind="derivative-value:" + d[0], **info)))
                    continue
            try:
                have = tuple(W.space_id(a.ufl_function_space()) for a in E.arguments())
            except Exception as e:  # noqa
                self.bad.append(("arguments() of the derivative raises %s" % type(e).__name__, dict(kind="derivative-arguments-raise", **info)))
                continue
            stats["signature_checks"] += 1
            wantsig = tuple(spec_sig(d)) + ((xs, False),)
            if have != wantsig and not (is_zero_form(E) and not np.any(want)) and not (got is not None and not np.any(got)):
                kd = args_kind(o)
                if kd.startswith("arguments:"):
                    kd = args_kind(E)
                self.bad.append(("arguments() of the derivative reports the spaces %s, expected %s" % (list(have), list(wantsig)),
                                 dict(kind=kd if kd == "arguments-action-not-renumbered" else "derivative-" + kd, **info)))

    def replay(self, ctx, data):
        """regenerate the case a witness came from (the generators are deterministic in seed and case number) and run the oracle on it"""
        import numpy as np
        dd = data.get("data", {})
        o = dd.get("origin")
        if not o:
            return None
        self.bad = BadList(self)
        self.typed_errors = []
        if o["stream"] == "deriv":
            self.deriv_case(o["seed"], o["k"], np, dict(cases=0, not_implemented=0, other_raise=0, value_checks=0, signature_checks=0))
        else:
            if o["stream"] == "directed":
                name, W, d = directed_cases(o["seed"])[o["k"]]
                k = 10 ** 6 + o["k"]
            else:
                k, W, d = self.make_case(o["seed"], o["salt"], o["k"], o.get("cplx", False), o.get("api", False), o.get("typed", True))
            self.origin = {kk: v for kk, v in o.items() if kk != "map"}
            kind, obj = self.run_case(W, d)
            if kind == "cyclic":
                self.bad.append(("Action(identity argument, A) with A an Action returned A re-initialised as its own operand",
                                 dict(kind="action-identity-reinit", desc=desc_str(d)[:300])))
            elif kind == "ok":
                self.check_object(W, d, obj, np, "", {}, tag=("cplx-" if o.get("cplx") else ""))
                if o.get("map"):
                    fl = self.get_flags()
                    self.map_stage(common.Ctx(pid="C28", tier=ctx.tier, seed=o["seed"]), _Cov(), [(k, W, d, obj)],
                                   "(%s)" % " ".join("1" if fl[x] else "0" for x in ("guard", "renum", "leftCoef", "guardAdj", "guardSum")), np)
        for w, b in self.bad:
            if "C28:" + b["kind"] == data.get("key"):
                return Witness(what=w + " :: " + b.get("desc", "")[:200], key=data["key"], data=b)
        return None

    def oracle(self, ctx, ev):
        import numpy as np
        self.derivative_oracle(ctx, ev, np)
        # complex mode / function-level API
        n = 150 if ctx.quick else 3000
        nv = 0
        # (complex mode is not combined with the function-level API: compute_form_action/adjoint assume sesquilinear forms, i.e. the test
        #  function conjugated, while the atoms here are plain products)
        for cplx, api, salt in ((True, False, 3), (False, True, 4), (True, False, 5)):
            for k, W, d in self.cases(ctx, n, salt, cplx=cplx, api=api):
                kind, o = self.run_case(W, d)
                wire = "cplx=%s api=%s seed=%d case=%d" % (cplx, api, ctx.seed, k)
                if kind == "cyclic":
                    self.bad.append(("Action(identity argument, A) with A an Action returned A re-initialised as its own operand",
                                     dict(kind="action-identity-reinit", desc=desc_str(d)[:300], wire=wire)))
                    continue
                if kind != "ok":
                    continue
                c = {}
                self.check_object(W, d, o, np, wire, c, tag=("cplx-" if cplx else ""))
                nv += c.get("val", 0)
        ev.cov["oracle_value_checks_complex_and_api"] = nv
        # an object that has been used as an operand still denotes what it denoted: B = A + X, A - X, 2*A, A + A, Adjoint(A) ... must
        # leave the assembled value of A (and of every object built before) as it was
        nre = 0
        for k, W, d in self.cases(ctx, (120 if ctx.quick else 2400), 6):
            kind, o = self.run_case(W, d)
            if kind != "ok":
                continue
            from ufl.classes import BaseForm
            objs = [x for x in list(self.trace) if isinstance(x, BaseForm)][-4:]
            try:
                before = [W.assemble_obj(x, np) for x in objs]
            except Exception:  # noqa
                continue
            rng = random.Random(ctx.seed * 7919 + k)
            G = DescGen(W)
            try:
                X = build_py(W, G.gen(tuple(spec_sig(d)), 1))
            except Exception:  # noqa
                X = None
            for x in objs:
                for op in ("add", "sub", "smul", "self", "adjoint", "addX2"):
                    try:
                        if op == "add" and X is not None:
                            x + X
                        elif op == "sub" and X is not None:
                            x - X
                        elif op == "smul":
                            rng.choice([2, -1, 0.5]) * x
                        elif op == "self":
                            x + x
                        elif op == "adjoint":
                            W.ufl.classes.Adjoint(x)
                        elif op == "addX2" and X is not None:
                            (x + X) + X
                    except Exception:  # noqa
                        pass
            try:
                after = [W.assemble_obj(x, np) for x in objs]
            except Exception as e:  # noqa
                self.bad.append(("an object can no longer be assembled after it was used as an operand: %s" % type(e).__name__,
                                 dict(kind="operand-changed-by-later-operation", desc=desc_str(d)[:300], wire="reuse seed=%d case=%d" % (ctx.seed, k))))
                continue
            for b, a in zip(before, after):
                nre += 1
                if (b is None) != (a is None) or (b is not None and not same_tensor(b, a, np)):
                    self.bad.append(("an object denotes another map after it was used as an operand of + / - / scalar * / Adjoint",
                                     dict(kind="operand-changed-by-later-operation", desc=desc_str(d)[:300], wire="reuse seed=%d case=%d" % (ctx.seed, k))))
                    break
        ev.cov["oracle_operand_reuse_checks"] = nre
        out, seen = [], set()
        for w, dd in getattr(self, "bad", []):
            if dd["kind"] in seen:
                continue
            seen.add(dd["kind"])
            out.append(Witness(what=w + " :: " + dd.get("desc", "")[:200], key="C28:" + dd["kind"], data=dd))
        return out


def wire_of_leaf(d, W):
    return W.ser(d[1]) if d[0] == "leaf" else None


def walk_obj(o):
    from ufl.classes import FormSum, Action, Adjoint
    yield o
    kids = ()
    if isinstance(o, Action):
        kids = (o._left, o._right)
    elif isinstance(o, Adjoint):
        kids = (o._form,)
    elif isinstance(o, FormSum):
        kids = tuple(o.components())
    for k in kids:
        yield from walk_obj(k)


def nonreal_weight_under_adjoint(n, under=False):
    k = n[0]
    if k == "leaf":
        return False
    if k in ("adjoint", "adjointF"):
        under = True
    ws = n[2] if k == "formSum" else ([n[1]] if k == "smul" else [])
    if under and any(isinstance(w, complex) and w.imag != 0 for w in ws):
        return True
    kids = n[1] if k == "formSum" else [c for c in n[1:] if isinstance(c, tuple)]
    return any(nonreal_weight_under_adjoint(c, under) for c in kids)


def value_kind(W, d):
    """stable key of a value disagreement: the known cause if the description shows it, else generic"""
    if W.cplx and nonreal_weight_under_adjoint(d):
        return "value-adjoint-of-sum-nonreal-weight"
    return ("cplx-" if W.cplx else "") + "value:" + d[0]


def args_kind(o):
    from ufl.classes import Action
    for x in walk_obj(o):
        if isinstance(x, Action):
            try:
                nums = [a.number() for a in x.arguments()]
            except Exception:  # noqa
                continue
            if nums != list(range(len(nums))):
                return "arguments-action-not-renumbered"
    return "arguments:" + type(o).__name__


def coefs_kind(o):
    from ufl.classes import Action, Coefficient
    if any(isinstance(x, Action) and isinstance(x._left, Coefficient) for x in walk_obj(o)):
        return "coefficients-left-coefficient-of-action"
    return "coefficients-missing"


def is_zero_form(o):
    """objects that lost their arguments because UFL's `0*form` has none: zero Forms and sums of them"""
    from ufl.classes import Form, Zero, FormSum, ZeroBaseForm
    if isinstance(o, FormSum):
        return all(is_zero_form(c) for c in o.components())
    return isinstance(o, ZeroBaseForm) or (isinstance(o, Form) and all(isinstance(i.integrand(), Zero) for i in o.integrals()))


PROP = C28()
