"""C17 Restriction propagation preserves two-sided integrands.

Tie (translator): Gen/Restrictions.lean = the rule RestrictionPropagator applies to every registered UFL type, regenerated from
the handler table the class computed; `C17_table_sound` re-checks it against the continuity classification of the property.
Tie (correspondence): `apply_restrictions(e, default_restrictions)` against the Lean model `applyRestrictions` (tree-exact after
alpha-renaming) on generated interior-facet integrands, with default restrictions given as a dict ('+', '-', None, two meshes) and
as None; the constructor-free variant `propagate` (the function the theorems speak about) is tied to the implementation's output by
value (same two-sided numeric evaluator on both).
Oracle (the property read on the implementation's output, sharing nothing with the model): two-sided numeric evaluation of input
and output under environments consistent with continuity; every side-dependent terminal under exactly one restriction; inputs with
a missing / double restriction are rejected; directed probes through `compute_form_data`."""
import random, itertools, hashlib, math, warnings
from fractions import Fraction
import common
from common import Prop, Witness, Failure, LEAN, write_if_changed
from translate import restrictions as tr_restrictions
import uflio, gen, leandrv
from props.c05 import canon

leandrv.EXES["C17"] = "c17drv"

# ------------------------------------------------------------------------------------------------------------------
# The continuity classification the property statement refers to (mirrors `spec` in Props/C17.lean; independent of
# the implementation's rule table).
SIDEFREE = {"IntValue", "FloatValue", "ComplexValue", "Zero", "Identity", "PermutationSymbol", "MultiIndex", "Label", "Constant",
            "QuadratureWeight", "ReferenceCellVolume", "ReferenceFacetVolume", "FacetCoordinate"}
CONTINUOUS = {"SpatialCoordinate", "FacetJacobian", "FacetJacobianDeterminant", "FacetJacobianInverse", "FacetArea",
              "MinFacetEdgeLength", "MaxFacetEdgeLength", "FacetOrigin"}
# operators whose value at a point is not a function of the operand values at that point
NONLOCAL = {"Grad", "ReferenceGrad", "Div", "ReferenceDiv", "NablaGrad", "NablaDiv", "Curl", "ReferenceCurl", "CellAvg", "FacetAvg",
            "CoefficientDerivative", "CoordinateDerivative", "VariableDerivative"}


# ------------------------------------------------------------------------------------------------------------------
# S-expressions (wire format) as nested lists
def sparse(s):
    toks = s.replace("(", " ( ").replace(")", " ) ").split()
    pos = 0

    def rd():
        nonlocal pos
        t = toks[pos]; pos += 1
        if t == "(":
            out = []
            while toks[pos] != ")":
                out.append(rd())
            pos += 1
            return out
        return t
    return rd()


def sstr(x):
    return x if isinstance(x, str) else "(" + " ".join(sstr(y) for y in x) + ")"


def is_term(n):
    return n[0] in ("I", "R", "C", "Z", "M", "T")


def cls_of(n):
    return {"I": "IntValue", "R": "FloatValue", "C": "ComplexValue", "Z": "Zero", "M": "MultiIndex"}.get(n[0]) or n[1]


def nshape(n):
    """shape of a wire-format node"""
    h = n[0]
    if h in ("I", "R", "C", "M"):
        return ()
    if h == "Z":
        return tuple(int(x) for x in n[1])
    if h == "T":
        return tuple(int(x) for x in n[3])
    name, aux, args = n[1], tuple(int(x) for x in n[2]), n[3:]
    if name in ("Sum", "Abs", "Conj", "Real", "Imag", "IndexSum", "Variable", "PositiveRestricted", "NegativeRestricted"):
        return nshape(args[0])
    if name == "ComponentTensor":
        dims = fidims(args[0])
        return tuple(dims[i[1]] for i in args[1][1:])
    if name == "ListTensor":
        return (len(args),) + nshape(args[0])
    if name == "Conditional":
        return nshape(args[1])
    if name in ("Grad", "ReferenceGrad"):
        return nshape(args[0]) + aux
    if name == "NablaGrad":
        return aux + nshape(args[0])
    if name in uflio.SHAPE_AUX:
        return aux
    return ()


def fidims(n):
    """free-index dimensions {count: extent} of a wire-format node"""
    h = n[0]
    if h == "Z":
        return {p[0]: int(p[1]) for p in n[2]}
    if h != "O":
        return {}
    name, args = n[1], n[3:]
    out = {}
    if name == "Indexed":
        out.update(fidims(args[0]))
        sh = nshape(args[0])
        for k, i in enumerate(args[1][1:]):
            if i[0] == "X":
                out[i[1]] = sh[k]
        return out
    if name == "IndexSum":
        out.update(fidims(args[0]))
        out.pop(args[1][1][1], None)
        return out
    if name == "ComponentTensor":
        out.update(fidims(args[0]))
        for i in args[1][1:]:
            out.pop(i[1], None)
        return out
    if name in ("EQ", "NE", "LE", "GE", "LT", "GT", "AndCondition", "OrCondition", "NotCondition"):
        return {}
    if name == "Conditional":
        return fidims(args[1])
    for a in args:
        out.update(fidims(a))
    return out


# ------------------------------------------------------------------------------------------------------------------
class Pool:
    """meshes, function spaces and terminals of one case"""

    def __init__(self, rng, kind):
        import ufl
        import ufl.classes as C
        from utils import LagrangeElement, FiniteElement
        from ufl.pullback import identity_pullback, contravariant_piola, covariant_piola
        from ufl.sobolevspace import L2, H1, HDiv, HCurl, H2, HInf
        self.rng = rng
        self.kind = kind
        cell, gd, deg = {"tri": (ufl.triangle, 2, 1), "tet": (ufl.tetrahedron, 3, 1), "tri-manifold": (ufl.triangle, 3, 1),
                         "tri-quadratic": (ufl.triangle, 2, 2), "interval": (ufl.interval, 1, 1)}[kind]
        self.cell, self.gdim = cell, gd
        self.tdim = cell.topological_dimension() if callable(getattr(cell, "topological_dimension", None)) else cell.topological_dimension
        self.mesh = ufl.Mesh(LagrangeElement(cell, deg, (gd,)))
        self.mesh2 = ufl.Mesh(LagrangeElement(cell, 1, (gd,)))      # a second domain (multi-domain default_restrictions)
        self.meshes = [self.mesh, self.mesh2]
        m = self.mesh
        E = lambda fam, d, sh, pb, sob: FiniteElement(fam, cell, d, sh, pb, sob)
        def fs(e, mesh=None):
            return ufl.FunctionSpace(mesh or m, e)
        g = gd
        self.cont = {     # shape -> coefficients whose value is continuous across facets
            (): [ufl.Coefficient(fs(LagrangeElement(cell, 1))), ufl.Coefficient(fs(LagrangeElement(cell, 2))),
                 ufl.Coefficient(fs(E("Hermite", 3, (), identity_pullback, H2))), ufl.Coefficient(fs(E("Real", 0, (), identity_pullback, HInf)))],
            (g,): [ufl.Coefficient(fs(LagrangeElement(cell, 2, (g,))))],
            (g, g): [ufl.Coefficient(fs(LagrangeElement(cell, 1, (g, g))))],
        }
        self.disc = {
            (): [ufl.Coefficient(fs(E("DG", 1, (), identity_pullback, L2))), ufl.Coefficient(fs(E("DG", 0, (), identity_pullback, L2)))],
            (g,): [ufl.Coefficient(fs(E("DG", 1, (g,), identity_pullback, L2))),
                   ufl.Coefficient(fs(E("RT", 1, (self.tdim,), contravariant_piola, HDiv))) if self.tdim == g else ufl.Coefficient(fs(E("DG", 2, (g,), identity_pullback, L2))),
                   ufl.Coefficient(fs(E("N1curl", 1, (self.tdim,), covariant_piola, HCurl))) if self.tdim == g else ufl.Coefficient(fs(E("DG", 3, (g,), identity_pullback, L2)))],
            (g, g): [ufl.Coefficient(fs(E("DG", 1, (g, g), identity_pullback, L2)))],
        }
        self.args = {(): [ufl.TestFunction(fs(LagrangeElement(cell, 1))), ufl.TrialFunction(fs(E("DG", 1, (), identity_pullback, L2)))],
                     (g,): [ufl.TestFunction(fs(LagrangeElement(cell, 1, (g,))))]}
        self.consts = [ufl.Constant(m), ufl.VectorConstant(m)]
        self.other = [ufl.Coefficient(fs(LagrangeElement(cell, 1), self.mesh2)), ufl.Coefficient(fs(E("DG", 1, (), identity_pullback, L2), self.mesh2)),
                      ufl.SpatialCoordinate(self.mesh2)]
        def geo(names):
            out = []
            for n in names:
                try:
                    q = getattr(C, n)(m)
                    if all(d > 0 for d in q.ufl_shape):
                        out.append(q)
                except Exception:  # noqa  (not defined for this cell)
                    pass
            return out
        self.geo_free = geo(["QuadratureWeight", "ReferenceCellVolume", "ReferenceFacetVolume", "FacetCoordinate"])
        self.geo_cont = geo(["SpatialCoordinate", "FacetJacobian", "FacetJacobianDeterminant", "FacetJacobianInverse", "FacetArea",
                             "MinFacetEdgeLength", "MaxFacetEdgeLength", "FacetOrigin"])
        self.geo_disc = geo(["Jacobian", "JacobianInverse", "JacobianDeterminant", "CellVolume", "Circumradius", "CellDiameter", "FacetNormal",
                             "FacetNormal", "ReferenceNormal", "CellFacetJacobian", "CellFacetJacobianDeterminant", "CellFacetJacobianInverse",
                             "CellCoordinate", "CellOrigin", "CellFacetOrigin", "CellVertices", "CellEdgeVectors", "FacetEdgeVectors",
                             "MinCellEdgeLength", "MaxCellEdgeLength", "CellOrientation", "FacetOrientation", "ReferenceCellEdgeVectors",
                             "ReferenceFacetEdgeVectors", "CellNormal"])
        self.x = ufl.SpatialCoordinate(m)
        self.n = C.FacetNormal(m)
        self.cont_set = {c for cs in self.cont.values() for c in cs}

    # atoms: expressions the propagator treats as a unit
    def atom(self, klass, rng):
        """klass: 'free' | 'cont' | 'disc'"""
        while True:
            try:
                a = self._atom(klass, rng)
            except (AttributeError, ValueError):     # e.g. a second derivative of a cellwise constant coefficient
                continue
            if a.ufl_shape is not None:
                return a

    def _atom(self, klass, rng):
        import ufl
        import ufl.classes as C
        r = rng.random()
        if klass == "free":
            if r < 0.4:
                return rng.choice(self.consts)
            if r < 0.6:
                return ufl.as_ufl(rng.choice([2, -1, 0.5, 3]))
            return rng.choice(self.geo_free) if self.geo_free else self.consts[0]
        if klass == "cont":
            if r < 0.45:
                return rng.choice(rng.choice(list(self.cont.values())))
            if r < 0.6:
                return C.ReferenceValue(rng.choice(self.cont[()] + self.cont[(self.gdim,)]))
            return rng.choice(self.geo_cont)
        # side-dependent
        f = rng.choice(rng.choice(list(self.cont.values()) + list(self.disc.values())))
        if r < 0.25:
            return rng.choice(rng.choice(list(self.disc.values())))
        if r < 0.35:
            return rng.choice(rng.choice(list(self.args.values())))
        if r < 0.5:
            return ufl.grad(f) if r < 0.45 else ufl.grad(ufl.grad(f))
        if r < 0.58:
            return C.ReferenceValue(rng.choice(rng.choice(list(self.disc.values()) + list(self.args.values()))))
        if r < 0.66:
            return C.ReferenceGrad(C.ReferenceValue(f)) if r < 0.63 else C.ReferenceGrad(C.ReferenceGrad(C.ReferenceValue(f)))
        if r < 0.72:
            return C.ReferenceGrad(self.x)
        if r < 0.76:
            return ufl.cell_avg(rng.choice(self.cont[()] + self.disc[()]))
        return rng.choice(self.geo_disc)


class RGen(gen.Gen):
    """the type-directed generator with restriction-aware leaves: `cur` is the side of the enclosing restriction;
    outside restrictions only side-free and continuous atoms are produced unless a missing restriction is being planted"""

    def __init__(self, rng, pool, plant=None, p_restrict=0.35, **kw):
        import ufl
        from utils import LagrangeElement, FiniteElement
        from ufl.pullback import identity_pullback
        from ufl.sobolevspace import L2
        super().__init__(rng, gdim=pool.gdim, compound=False, derivs=False, **kw)
        self.pool = pool
        # the base generator's leaves, on the pool's mesh: continuous (CG2) and discontinuous (DG1) coefficients per shape
        self.mesh, self.x = pool.mesh, pool.x
        self.ccoeffs, self.dcoeffs = {}, {}
        for sh in self.coeffs:
            self.ccoeffs[sh] = [ufl.Coefficient(ufl.FunctionSpace(pool.mesh, LagrangeElement(pool.cell, 2, sh)))]
            self.dcoeffs[sh] = [ufl.Coefficient(ufl.FunctionSpace(pool.mesh, FiniteElement("DG", pool.cell, 1, sh, identity_pullback, L2)))]
        self.coeffs = self.ccoeffs
        self.consts = {(): [ufl.Constant(pool.mesh)], (pool.gdim,): [ufl.VectorConstant(pool.mesh)]}
        self.args = {}
        self.cur = None
        self.plant = plant          # None | 'missing' | 'double'
        self.planted = 0
        self.p_restrict = p_restrict

    def scalarise(self, a):
        rng = self.rng
        if a.ufl_shape:
            a = a[tuple(rng.randrange(d) for d in a.ufl_shape)]
        return a

    def leaf(self, shape, fi):
        rng = self.rng
        if shape == () and not fi and rng.random() < 0.6:
            if self.cur is None:
                if self.plant == "missing" and (self.planted == 0 or rng.random() < 0.1):
                    self.planted += 1
                    self._count("atom_missing")
                    while True:
                        a = self.pool.atom("disc", rng)
                        # derivatives / cell averages of continuous quantities are accepted unrestricted (finding 1): directed cases only
                        if not Analysis(sparse(uflio.ser(a)), {repr(t): (repr(t), 0, int(t in self.pool.cont_set), 1, 1, 2, 2, 0) for t in terminals_of(a)}, {0: "+"}).bare_nonlocal:
                            break
                    return self.scalarise(a)
                klass = rng.choice(["free", "cont", "cont"])
            else:
                klass = rng.choice(["free", "cont", "disc", "disc"])
            self._count("atom_" + klass)
            return self.scalarise(self.pool.atom(klass, rng))
        # the base generator's leaves: under a restriction also discontinuous coefficients
        if self.cur is not None and rng.random() < 0.5:
            self.coeffs = self.dcoeffs
            try:
                self._count("leaf_dg")
                return super().leaf(shape, fi)
            finally:
                self.coeffs = self.ccoeffs
        return super().leaf(shape, fi)

    def _try(self, shape, fi, depth):
        rng = self.rng
        if rng.random() < self.p_restrict:
            if self.cur is None:
                side = rng.choice("+-")
                self.cur = side
                try:
                    a = self.expr(shape, fi, depth - 1)
                finally:
                    self.cur = None
                self._count("p_restrict")
                return a(side)
            if self.plant == "double" and (self.planted == 0 or rng.random() < 0.1):
                self.planted += 1
                self._count("p_double")
                return self.expr(shape, fi, depth - 1)(rng.choice("+-"))
        if shape == () and not fi and rng.random() < 0.04 and self.cur is not None:
            import ufl
            self._count("p_cell_avg")
            return ufl.cell_avg(self.leaf((), ()) * self.leaf((), ()))
        return super()._try(shape, fi, depth)


def terminals_of(e):
    from ufl.corealg.traversal import traverse_unique_terminals
    return list(traverse_unique_terminals(e))


def info_table(e, meshes):
    """per terminal: what the rules read besides the class (domain, H1-ness, coordinate element data)"""
    import ufl.classes as C
    from ufl.domain import extract_unique_domain
    from ufl.sobolevspace import H1
    rows, seen, nfresh = [], set(), 0
    for t in terminals_of(e):
        if isinstance(t, (C.ConstantValue, C.MultiIndex, C.Label)):
            continue
        key = repr(t)
        if key in seen:
            continue
        seen.add(key)
        try:
            d = extract_unique_domain(t)
        except Exception:  # noqa
            d = None
        dom = -1
        cdeg, ch1, gd, td = 1, 1, 2, 2
        if d is not None:
            if d not in meshes:
                meshes.append(d)
            dom = meshes.index(d)
            ce = d.ufl_coordinate_element()
            cdeg, ch1 = ce.embedded_superdegree, int(ce in H1)
            gd = d.geometric_dimension() if callable(d.geometric_dimension) else d.geometric_dimension
            td = d.topological_dimension() if callable(d.topological_dimension) else d.topological_dimension
        h1 = int(isinstance(t, C.Coefficient) and t.ufl_element() in H1)
        nfresh += 1
        rows.append((key, dom, h1, cdeg, ch1, gd, td, 900000 + 10 * nfresh))
    return rows


def info_wire(rows):
    return "(" + " ".join("(%s %d %d %d %d %d %d %d)" % ((uflio.enc(r[0]),) + tuple(r[1:])) for r in rows) + ")"


def dr_wire(dr, meshes):
    if dr is None:
        return "none"
    return "(" + " ".join("(%d %s)" % (meshes.index(m), {"+": "+", "-": "-", None: "0"}[s]) for m, s in dr.items()) + ")"


# ------------------------------------------------------------------------------------------------------------------
# independent analysis of a wire-format integrand against the classification above
class Analysis:
    def __init__(self, node, info, dr_of_dom):
        """info: key -> row;  dr_of_dom: dom -> '+' | '-' | None  (or None = no default restrictions)"""
        self.info, self.dr = info, dr_of_dom
        self.missing, self.double, self.bare_nonlocal, self.depths = [], [], [], []
        self.walk(node, 0, False, False)

    def klass(self, n):
        c = cls_of(n)
        if c in SIDEFREE:
            return "free"
        row = self.info.get(uflio_dec(n[2])) if n[0] == "T" else None
        if c in CONTINUOUS or (c == "Coefficient" and row is not None and row[2]):
            return "cont"
        return "disc"

    def sided(self, n):
        """does the terminal live on a domain that has two sides in this integral"""
        if n[0] != "T":
            return False
        if self.dr is None:
            return True
        row = self.info.get(uflio_dec(n[2]))
        if row is None or row[1] < 0:
            return False
        return self.dr.get(row[1]) is not None

    def any_sided(self, n):
        if is_term(n):
            return self.sided(n)
        return any(self.any_sided(a) for a in n[3:])

    def has_side_dependent(self, n):
        if is_term(n):
            return self.klass(n) != "free"
        return any(self.has_side_dependent(a) for a in n[3:])

    def walk(self, n, depth, under_grad, under_nonlocal):
        if is_term(n):
            k = self.klass(n)
            self.depths.append((n, k, depth))
            if k == "disc" and depth == 0 and self.sided(n) and not under_grad:
                self.missing.append(cls_of(n))
            return
        name, args = n[1], n[3:]
        if name in ("PositiveRestricted", "NegativeRestricted"):
            if depth >= 1:
                self.double.append(name)
            self.walk(args[0], depth + 1, under_grad, under_nonlocal)
            return
        if name == "Grad":
            if depth == 0 and self.any_sided(n):
                self.missing.append("Grad")
            for a in args:
                self.walk(a, depth, True, True)
            return
        if name == "ReferenceValue" and is_term(args[0]):
            k = self.klass(args[0])
            self.depths.append((n, k, depth))
            if k == "disc" and depth == 0 and self.sided(args[0]):
                self.missing.append("ReferenceValue(%s)" % cls_of(args[0]))
            return
        if name in NONLOCAL and depth == 0 and self.has_side_dependent(n):
            self.bare_nonlocal.append(describe(n))
        for a in args:
            self.walk(a, depth, under_grad, under_nonlocal or name in NONLOCAL)


def describe(n):
    """class skeleton of a modified terminal, e.g. ReferenceGrad(ReferenceValue(Coefficient))"""
    if is_term(n):
        return cls_of(n)
    if n[1] in ("PositiveRestricted", "NegativeRestricted", "Variable"):
        return describe(n[3])
    if len(n[3:]) == 1:
        return "%s(%s)" % (n[1], describe(n[3]))
    return "%s(..)" % n[1]


def uflio_dec(s):
    import re
    return re.sub(r"%([0-9a-f]{2})", lambda m: chr(int(m.group(1), 16)), s)


# ------------------------------------------------------------------------------------------------------------------
# two-sided numeric semantics on the wire format
class Skip(Exception):
    pass


class TwoSided:
    """value of an integrand on an interior facet, given the side unrestricted quantities are read on.
    Terminal values are pseudo-random rationals determined by (seed, key, side, component); side-free and continuous
    terminals ignore the side, the facet normal of an affine non-manifold mesh changes sign.  A non-local operator
    (derivative, cell average) is a pseudo-random functional of its operand *as a function on the cell of the side*:
    its value is determined by the operand with every terminal tagged by the side it is read on."""

    def __init__(self, seed, info, dr_of_dom):
        self.seed, self.info, self.dr = seed, info, dr_of_dom

    def rnd(self, *key):
        h = hashlib.sha256(repr((self.seed,) + key).encode()).digest()
        return Fraction(int.from_bytes(h[:2], "big") % 25 - 12, [1, 1, 2, 4][h[2] % 4])

    def tclass(self, n):
        c = cls_of(n)
        if c in SIDEFREE:
            return "free"
        row = self.info.get(uflio_dec(n[2]))
        if row is not None and self.dr is not None and (row[1] < 0 or self.dr.get(row[1]) is None):
            return "free"                # one-sided domain (no facet sides in this integral)
        if c in CONTINUOUS or (c == "Coefficient" and row is not None and row[2]):
            return "cont"
        if c == "FacetNormal" and row is not None and row[3] <= 1 and row[4] and row[5] == row[6]:
            return "flip"
        return "disc"

    def term(self, n, side, comp):
        k = self.tclass(n)
        if k in ("free", "cont"):
            return self.rnd("T", n[2], comp)
        if k == "flip":
            v = self.rnd("T", n[2], comp)
            return v if side == "+" else -v
        return self.rnd("T", n[2], side, comp)

    def tag(self, n, side, iota):
        """the operand as a function on the cell: terminals tagged with the side they are read on"""
        if is_term(n):
            if n[0] == "M":
                return "(M %s)" % " ".join(str(iota.get(i[1], i[1])) if i[0] == "X" and i[1] in iota else sstr(i) for i in n[1:])
            if n[0] != "T":
                return sstr(n)
            return n[2] if self.tclass(n) == "free" else n[2] + "@" + side
        name, args = n[1], n[3:]
        if name == "PositiveRestricted":
            return self.tag(args[0], "+", iota)
        if name == "NegativeRestricted":
            return self.tag(args[0], "-", iota)
        if name == "Variable":
            return self.tag(args[0], side, iota)
        tags = [self.tag(a, side, iota) for a in args]
        if name in ("Sum", "Product"):      # the constructors sort the operands of commutative nodes
            tags.sort()
        return "(%s %s)" % (name, " ".join(tags))

    def ev(self, n, side, iota, comp):
        h = n[0]
        if h == "I":
            return Fraction(int(n[1]))
        if h == "R":
            return Fraction(int(n[1]), int(n[2]))
        if h == "C":
            raise Skip()
        if h in ("Z", "M"):
            return Fraction(0)
        if h == "T":
            if n[1] == "Identity":
                return Fraction(int(comp[0] == comp[1]))
            if n[1] in ("PermutationSymbol", "Label"):
                raise Skip()
            return self.term(n, side, comp)
        name, args = n[1], n[3:]
        E = self.ev
        if name == "PositiveRestricted":
            return E(args[0], "+", iota, comp)
        if name == "NegativeRestricted":
            return E(args[0], "-", iota, comp)
        if name == "Variable":
            return E(args[0], side, iota, comp)
        if name == "ReferenceValue" and is_term(args[0]):
            k = self.tclass(args[0])
            return self.rnd("RV", args[0][2], comp) if k in ("free", "cont") else self.rnd("RV", args[0][2], side, comp)
        if name in NONLOCAL or name == "ReferenceValue":
            free = sorted(fidims(n))
            return self.rnd("NL", name, sstr(n[2]), " ".join(self.tag(a, side, iota) for a in args), comp, tuple((i, iota[i]) for i in free))
        if name == "Sum":
            return E(args[0], side, iota, comp) + E(args[1], side, iota, comp)
        if name == "Product":
            return E(args[0], side, iota, ()) * E(args[1], side, iota, ())
        if name == "Division":
            d = E(args[1], side, iota, ())
            if d == 0:
                raise Skip()
            return E(args[0], side, iota, comp) / d
        if name == "Power":
            b, x = E(args[0], side, iota, ()), E(args[1], side, iota, ())
            if isinstance(x, Fraction) and x.denominator == 1 and isinstance(b, Fraction):
                if b == 0 and x < 0:
                    raise Skip()
                return b ** int(x)
            if float(b) <= 0:
                raise Skip()
            return float(b) ** float(x)
        if name == "Abs":
            return abs(E(args[0], side, iota, comp))
        if name in ("Conj", "Real"):
            return E(args[0], side, iota, comp)
        if name == "Imag":
            return Fraction(0)
        if name == "Indexed":
            c = tuple(int(i[1]) if i[0] == "F" else iota[i[1]] for i in args[1][1:])
            return E(args[0], side, iota, c)
        if name == "IndexSum":
            j = args[1][1][1]
            d = fidims(args[0])[j]
            tot = Fraction(0)
            for v in range(d):
                tot = tot + E(args[0], side, dict(iota, **{j: v}), comp)
            return tot
        if name == "ComponentTensor":
            io = dict(iota)
            for i, v in zip(args[1][1:], comp):
                io[i[1]] = v
            return E(args[0], side, io, ())
        if name == "ListTensor":
            return E(args[comp[0]], side, iota, comp[1:])
        if name == "Conditional":
            return E(args[1], side, iota, comp) if self.cond(args[0], side, iota) else E(args[2], side, iota, comp)
        if name in ("MinValue", "MaxValue"):
            a, b = E(args[0], side, iota, ()), E(args[1], side, iota, ())
            return (min if name == "MinValue" else max)(a, b)
        fn = {"Sqrt": math.sqrt, "Exp": math.exp, "Ln": math.log, "Cos": math.cos, "Sin": math.sin, "Tan": math.tan, "Cosh": math.cosh,
              "Sinh": math.sinh, "Tanh": math.tanh, "Acos": math.acos, "Asin": math.asin, "Atan": math.atan}.get(name)
        if fn is not None:
            try:
                return fn(float(E(args[0], side, iota, ())))
            except (ValueError, OverflowError):
                raise Skip()
        raise Skip()

    def cond(self, n, side, iota):
        name, args = n[1], n[3:]
        E = self.ev
        if name in ("EQ", "NE", "LT", "GT", "LE", "GE"):
            a, b = E(args[0], side, iota, ()), E(args[1], side, iota, ())
            return {"EQ": a == b, "NE": a != b, "LT": a < b, "GT": a > b, "LE": a <= b, "GE": a >= b}[name]
        if name == "AndCondition":
            return self.cond(args[0], side, iota) and self.cond(args[1], side, iota)
        if name == "OrCondition":
            return self.cond(args[0], side, iota) or self.cond(args[1], side, iota)
        if name == "NotCondition":
            return not self.cond(args[0], side, iota)
        raise Skip()


def close(a, b):
    if isinstance(a, Fraction) and isinstance(b, Fraction):
        return a == b
    a, b = float(a), float(b)
    return abs(a - b) <= 1e-9 * max(1.0, abs(a), abs(b))


def two_sided_check(rng, e_node, r_node, info, dr_of_dom, default_on, ntrials=2):
    """None if consistent, else a description.  default on: the output must not depend on the ambient side and must equal
    the input read on either side; default off: output and input agree for each ambient side."""
    sh = nshape(e_node)
    comps = list(itertools.product(*[range(d) for d in sh])) or [()]
    free = fidims(e_node)
    nchecked = 0
    for t in range(ntrials):
        sem = TwoSided(rng.getrandbits(40), info, dr_of_dom)
        comp = rng.choice(comps)
        iota = {i: rng.randrange(d) for i, d in free.items()}
        try:
            ve = {s: sem.ev(e_node, s, iota, comp) for s in "+-"}
            vr = {s: sem.ev(r_node, s, iota, comp) for s in "+-"}
        except Skip:
            continue
        except (ZeroDivisionError, OverflowError, KeyError, IndexError):
            continue
        nchecked += 1
        pairs = [(s2, s1) for s1 in "+-" for s2 in "+-"] if default_on else [("+", "+"), ("-", "-")]
        for s2, s1 in pairs:
            if not close(vr[s2], ve[s1]):
                return "output read on side %s = %s, input read on side %s = %s (component %s)" % (s2, vr[s2], s1, ve[s1], list(comp)), nchecked
    return None, nchecked


# ------------------------------------------------------------------------------------------------------------------
def run_impl(e, dr):
    from ufl.algorithms.apply_restrictions import apply_restrictions
    try:
        with warnings.catch_warnings():
            warnings.simplefilter("ignore")
            return apply_restrictions(e, dr), None
    except Exception as ex:  # noqa
        return None, "%s: %s" % (type(ex).__name__, str(ex)[:120])


GEN_KINDS = ["tri", "tri", "tet", "tri-manifold", "tri-quadratic", "tri"]
DIRECTED_POOLS = ["tri", "tet", "tri-manifold", "tri-quadratic", "interval"]


def directed_cases():
    """corner cases the property names, as (label, builder(pool) -> expr, kind of default_restrictions)"""
    import ufl
    import ufl.classes as C
    D = []
    add = lambda lab, f, drk="+": D.append((lab, f, drk))
    add("H1 coefficient unrestricted", lambda p: p.cont[()][0])
    add("DG coefficient unrestricted", lambda p: p.disc[()][0])
    add("DG coefficient restricted", lambda p: p.disc[()][0]("-"))
    add("double restriction", lambda p: p.disc[()][0]("+")("-"))
    add("double restriction through a product", lambda p: (p.cont[()][0] * p.disc[()][0]("+"))("-"))
    add("double restriction, just propagate", lambda p: (p.cont[()][0] * p.disc[()][0]("+"))("-"), "none")
    add("normal unrestricted", lambda p: p.n[0])
    add("normal minus", lambda p: p.n("-")[0])
    add("normal plus", lambda p: p.n("+")[0])
    add("normal both, default minus", lambda p: p.n("-")[0] + p.n("+")[0], "-")
    add("normal plus, default minus", lambda p: p.n("+")[0], "-")
    add("normal minus, default minus", lambda p: p.n("-")[0], "-")
    add("normals weighted, default minus", lambda p: 2 * p.n("+")[0] + p.n("-")[1] * p.disc[()][0]("+"), "-")
    add("normals weighted, default plus", lambda p: 2 * p.n("-")[0] + p.n("+")[1] * p.disc[()][0]("-"))
    add("two normals of two meshes", lambda p: p.n("-")[0] * C.FacetNormal(p.mesh2)("-")[0])
    add("jump of H1 coefficient times normal", lambda p: ufl.jump(p.cont[()][0], p.n)[0])
    add("avg of DG", lambda p: ufl.avg(p.disc[()][0]))
    add("x unrestricted", lambda p: p.x[0])
    add("x restricted minus", lambda p: p.x("-")[0])
    add("grad unrestricted", lambda p: ufl.grad(p.cont[()][0])[0])
    add("grad restricted", lambda p: ufl.grad(p.cont[()][0])("+")[0])
    add("grad grad restricted", lambda p: ufl.grad(ufl.grad(p.disc[()][0]))("-")[0, 0])
    add("variable under restriction", lambda p: ufl.variable(p.disc[()][0] * p.cont[()][0])("+"))
    add("variable of literal times DG", lambda p: (ufl.variable(ufl.as_ufl(1)) * p.disc[()][0])("+"))
    add("variable of zero plus DG", lambda p: (ufl.variable(ufl.as_ufl(0)) + p.disc[()][0])("+"))
    add("variable of list tensor indexed", lambda p: ufl.variable(ufl.as_vector([p.disc[()][0], p.cont[()][0]]))("+")[1])
    add("conditional collapses", lambda p: ufl.conditional(ufl.lt(p.consts[0], 1), p.cont[()][0]("+"), p.cont[()][0]))
    add("restricted constant", lambda p: p.consts[0]("+") * p.disc[()][0]("-"))
    add("restricted identity", lambda p: (ufl.Identity(2)[0, 0] * p.disc[()][0])("-") + ufl.Identity(2)("+")[0, 0])
    add("reference value of H1", lambda p: C.ReferenceValue(p.cont[()][0]))
    add("reference value of DG unrestricted", lambda p: C.ReferenceValue(p.disc[()][0]))
    add("reference value of DG restricted", lambda p: C.ReferenceValue(p.disc[()][0])("-"))
    add("reference value of argument", lambda p: C.ReferenceValue(p.args[()][0])("+") + C.ReferenceValue(p.args[()][0])("-"))
    add("reference grad of reference value restricted", lambda p: C.ReferenceGrad(C.ReferenceValue(p.cont[()][0]))("-")[0])
    add("reference grad of x restricted", lambda p: C.ReferenceGrad(p.x)("+")[0, 0])
    add("reference grad of x unrestricted", lambda p: C.ReferenceGrad(p.x)[0, 0])
    add("reference grad of reference value of H1 unrestricted", lambda p: C.ReferenceGrad(C.ReferenceValue(p.cont[()][0]))[0])
    add("cell avg of H1 unrestricted", lambda p: ufl.cell_avg(p.cont[()][0]))
    add("reference grad of reference value of DG unrestricted", lambda p: C.ReferenceGrad(C.ReferenceValue(p.disc[()][0]))[0])
    add("cell avg restricted", lambda p: ufl.cell_avg(p.cont[()][0] * p.disc[()][0])("-"))
    add("argument unrestricted", lambda p: p.args[()][0])
    add("argument restricted", lambda p: p.args[()][0]("+") * p.args[()][1]("-"))
    add("facet area unrestricted", lambda p: C.FacetArea(p.mesh))
    add("cell volume unrestricted", lambda p: C.CellVolume(p.mesh))
    add("cell volume avg", lambda p: ufl.avg(C.CellVolume(p.mesh)))
    add("quantity of a domain without an integral type", lambda p: ufl.SpatialCoordinate(ufl.Mesh(__import__("utils").LagrangeElement(p.cell, 1, (p.gdim,))))[0])
    add("two domains under one grad-free product", lambda p: ufl.grad(p.cont[()][0])("+")[0] * p.other[0])
    add("one-sided domain restricted", lambda p: p.other[1]("+"), "mixed")
    add("one-sided domain unrestricted", lambda p: p.other[1] * p.other[2][0] * p.disc[()][0]("-"), "mixed")
    add("index sum over restricted", lambda p: ufl.dot(p.disc[(p.gdim,)][0]("+"), p.n("-")))
    add("just propagate", lambda p: (p.disc[()][0] * p.cont[()][0] + p.n[0])("-") + p.disc[()][1], "none")
    add("cell integral dict", lambda p: p.disc[()][0] * p.n[0] + ufl.grad(p.cont[()][0])[0], "cell")
    add("cell integral dict, restricted", lambda p: p.disc[()][0]("+"), "cell")
    add("complex nodes", lambda p: (ufl.conj(p.disc[()][0]) * ufl.real(p.cont[()][0]) + ufl.imag(p.disc[()][1]))("+"))
    return D


def build_case(spec):
    """spec = ('directed', pool kind, index)  |  ('generated', seed, k);  returns (pool, expr, dr, label, generator stats)"""
    import ufl
    if spec[0] == "directed":
        _, kind, which = spec
        pool = Pool(random.Random(17), kind)
        lab, f, drk = [c for c in directed_cases() if c[0] == which][0]
        e = ufl.as_ufl(f(pool))
        m1, m2 = pool.mesh, pool.mesh2
        dr = {"+": {m1: "+", m2: "+"}, "-": {m1: "-", m2: "-"}, "none": None, "mixed": {m1: "+", m2: None}, "cell": {m1: None, m2: None}}[drk]
        return pool, e, dr, "directed[%s]: %s" % (kind, lab), {}
    _, seed, k = spec
    rng = random.Random((seed * 9176 + 17) * 1000003 + k)
    pool = Pool(rng, GEN_KINDS[k % len(GEN_KINDS)])
    plant = [None, None, None, "missing", "double", None, None][k % 7]
    G = RGen(rng, pool, plant=plant, math=(k % 4 == 0), reuse=0.6, p_restrict=rng.choice([0.2, 0.35, 0.5]))
    sh = rng.choice([(), (), (), (2,), (2, 2)])
    e = G.expr(sh, (), rng.randint(2, 4))
    m1, m2 = pool.mesh, pool.mesh2
    r = k % 10
    if r < 5:
        dr = {m1: "+", m2: "+"}
    elif r < 6:
        dr = {m1: "-", m2: "-"}
    elif r < 8:
        dr = None
    elif r < 9:
        dr = {m1: "+", m2: None}
        if sh == () and rng.random() < 0.7:       # couple in quantities of the one-sided domain
            e = e + pool.other[rng.randrange(2)] * pool.other[2][0]
    else:
        dr = {m1: None, m2: None}
    return pool, e, dr, "generated %d (%s, plant=%s)" % (k, pool.kind, plant), G.stats


class Case:
    """one integrand through the implementation; holds what the model request and the oracles need"""

    def __init__(self, spec, memo):
        self.spec = spec
        self.pool, self.e, dr, self.label, self.stats = build_case(spec)
        meshes = list(self.pool.meshes)
        rows = info_table(self.e, meshes)
        self.r, self.err = run_impl(self.e, dr)
        self.es = uflio.ser(self.e, memo)
        self.impl = "(ok %s)" % uflio.ser(self.r, memo) if self.r is not None else "(raises)"
        self.drw, self.iw = dr_wire(dr, meshes), info_wire(rows)
        self.info = {row[0]: row for row in rows}
        self.dr = None if dr is None else {meshes.index(m): s for m, s in dr.items()}

    def requests(self):
        return ["(restrict impl %s %s %s)" % (self.es, self.drw, self.iw), "(restrict plain %s %s %s)" % (self.es, self.drw, self.iw)]

    def judge(self, rep_impl, rep_plain, orng, counts):
        """returns (failures of the tie, property violations on the implementation)"""
        fails, bad = [], []
        req = self.requests()
        data = lambda kind, **kw: dict(kind=kind, spec=list(self.spec), label=self.label, expr=str(self.e)[:300], default_restrictions=self.drw, **kw)
        # --- tie 1: model with constructors == implementation, tree-exact
        if rep_impl == "(unsupported)":
            counts["unsupported"] += 1
        elif uflio.alpha(canon(self.impl)) != uflio.alpha(canon(rep_impl)):
            fails.append(Failure("correspondence", "apply_restrictions", "%s: %s with default_restrictions %s | impl: %s | model: %s" % (
                self.label, str(self.e)[:200], self.drw, (str(self.r)[:240] if self.r is not None else "raises " + str(self.err)), rep_impl[:300]),
                case=dict(spec=list(self.spec), request=req[0][:3000])))
        elif self.es.count("(O ") >= 3 and ("Restricted" in self.es or self.impl != "(ok %s)" % self.es):
            counts["distinct"].add(req[0])
        # --- independent analysis of the input
        e_node = sparse(self.es)
        an = Analysis(e_node, self.info, self.dr)
        default_on = self.dr is not None
        if an.double and self.r is not None:
            bad.append(("an integrand with a restriction inside a restriction was accepted", data("double-accepted")))
        if default_on and an.missing and self.r is not None:
            bad.append(("unrestricted side-dependent %s accepted on an interior facet" % an.missing[0], data("missing-accepted:" + an.missing[0])))
        if an.double or (default_on and an.missing):
            counts["should_reject"] += 1
        if self.r is None:
            counts["rejected"] += 1
            return fails, bad
        counts["accepted"] += 1
        r_node = sparse(self.impl[4:-1])
        # --- exactly-once clause on the implementation's output
        ran = Analysis(r_node, self.info, self.dr)
        counts["once"] += 1
        for node, klass, depth in ran.depths:
            sided = ran.sided(node[3] if node[0] == "O" else node)
            want = 1 if (klass != "free" and sided and default_on) else None
            if depth > 1 or (want is not None and depth != want):
                bad.append(("%s terminal %s ends up under %d restrictions" % (klass, describe(node), depth), data("once:" + describe(node), out=str(self.r)[:300])))
                break
        # --- value clause, on the implementation's output and on the constructor-free model output
        if an.bare_nonlocal and default_on:
            # a derivative / cell average outside every restriction over a side-dependent operand: the input is two-valued (finding 1)
            bad.append(("default-restricted operand of an unrestricted %s: the integrand is read on the default side although its value differs between the sides" % an.bare_nonlocal[0],
                        data("unrestricted-nonlocal:" + an.bare_nonlocal[0], out=str(self.r)[:300])))
            return fails, bad
        msg, k1 = two_sided_check(orng, e_node, r_node, self.info, self.dr, default_on)
        counts["values"] += k1
        if msg:
            bad.append(("value not preserved: " + msg, data("value:" + hashlib.sha1(self.es.encode()).hexdigest()[:10], out=str(self.r)[:300])))
        if rep_plain.startswith("(ok "):
            msg, k2 = two_sided_check(orng, r_node, sparse(rep_plain[4:-1]), self.info, self.dr, False)
            counts["plain"] += k2
            if msg:
                fails.append(Failure("correspondence", "propagate (constructor-free model) vs implementation, by value", "%s: %s | %s" % (self.label, str(self.e)[:200], msg),
                                     case=dict(spec=list(self.spec), request=req[1][:3000])))
        elif rep_plain == "(raises)":
            fails.append(Failure("correspondence", "propagate rejects an input the implementation accepts", "%s: %s" % (self.label, str(self.e)[:200]),
                                 case=dict(spec=list(self.spec), request=req[1][:3000])))
        return fails, bad


def new_counts():
    return dict(unsupported=0, distinct=set(), should_reject=0, rejected=0, accepted=0, once=0, values=0, plain=0)


def pipeline_probes():
    """unrestricted side-dependent quantities in dS integrals through compute_form_data, with and without lowering / defaults"""
    import ufl
    import ufl.classes as C
    from ufl.algorithms import compute_form_data
    pool = Pool(random.Random(17), "tri")
    m = pool.mesh
    f, g = pool.cont[()][0], pool.disc[()][0]
    LOW = dict(do_apply_function_pullbacks=True, do_apply_geometry_lowering=True)
    OFF = dict(do_apply_default_restrictions=False)
    RGX, RGF, CAV, OFFK = ("unrestricted-nonlocal:ReferenceGrad(SpatialCoordinate)", "unrestricted-nonlocal:ReferenceGrad(ReferenceValue(Coefficient))",
                           "unrestricted-nonlocal:CellAvg(Coefficient)", "no-default-restrictions-accepts-unrestricted")
    probes = [   # (quantity, integrand, options, options tag, key of the mechanism by which the missing restriction gets lost)
        ("CellVolume", C.CellVolume(m), LOW, "geometry_lowering", RGX),
        ("Jacobian", C.Jacobian(m)[0, 0], LOW, "geometry_lowering", RGX),
        ("JacobianDeterminant", C.JacobianDeterminant(m), LOW, "geometry_lowering", RGX),
        ("JacobianInverse", C.JacobianInverse(m)[0, 0], LOW, "geometry_lowering", RGX),
        ("Circumradius", C.Circumradius(m), LOW, "geometry_lowering", RGX),
        ("Grad(Coefficient in H1)", ufl.grad(f)[0], LOW, "function_pullbacks", RGF),
        ("CellAvg(Coefficient in H1)", ufl.cell_avg(f), {}, "default_options", CAV),
        ("Coefficient not in H1", g, OFF, "no_default_restrictions", OFFK),
        ("FacetNormal", pool.n[0], OFF, "no_default_restrictions", OFFK),
        ("Coefficient not in H1", g, LOW, "geometry_lowering", "pipeline:Coefficient"),
        ("FacetNormal", pool.n[0], LOW, "geometry_lowering", "pipeline:FacetNormal"),
        ("Argument", pool.args[()][0], LOW, "geometry_lowering", "pipeline:Argument"),
        ("Coefficient not in H1, restricted twice", g("+")("-"), LOW, "geometry_lowering", "pipeline:double"),
        ("Coefficient not in H1, restricted twice", g("+")("-"), OFF, "no_default_restrictions", "pipeline:double-off"),
    ]
    res, bad = [], []
    for name, q, opts, tag, key in probes:
        form = q * ufl.dS
        try:
            with warnings.catch_warnings():
                warnings.simplefilter("ignore")
                fd = compute_form_data(form, **opts)
            out = "accepted: " + str(fd.integral_data[0].integrals[0].integrand())[:200]
        except Exception as ex:  # noqa
            out = "rejected (%s)" % type(ex).__name__
        res.append(dict(quantity=name, options=tag, outcome=out[:160]))
        if out.startswith("accepted"):
            bad.append(("compute_form_data accepts the unrestricted side-dependent %s in a dS integral (%s) and reads it on one side" % (name, tag),
                        dict(kind=key, pipeline=True, expr="%s*dS" % name, options=dict(opts), result=out[:300])))
    # the documented default side of interior facet integrals
    try:
        with warnings.catch_warnings():
            warnings.simplefilter("ignore")
            integrand = compute_form_data(f * x_probe(pool) * ufl.dS).integral_data[0].integrals[0].integrand()
        sides = sorted({type(t).__name__ for t in ufl.corealg.traversal.unique_pre_traversal(integrand) if isinstance(t, C.Restricted)})
        out = "sides " + ",".join(sides)
    except Exception as ex:  # noqa
        sides, out = None, "rejected (%s)" % type(ex).__name__
    res.append(dict(quantity="Coefficient in H1 times x", options="default_options", outcome=out))
    if sides != ["PositiveRestricted"]:
        bad.append(("compute_form_data does not restrict the continuous integrand f*x[0] of a dS integral to the '+' side: " + out,
                    dict(kind="pipeline-default-side", pipeline=True, expr="f*x[0]*dS", options={}, result=out)))
    return res, bad


def x_probe(pool):
    return pool.x[0]


class C17(Prop):
    pid = "C17"
    lean_modules = ["UflVerif.Props.C17"]
    min_theorems = 8
    trusted = ["translator harness/translate/restrictions.py (reads MultiFunction._handlers_cache[RestrictionPropagator] and the function names the handlers resolve to) -> Gen/Restrictions.lean",
               "correspondence harness/props/c17.py + Drivers/C17.lean `(restrict impl|plain e dr infos)`; the per-terminal data the rules read (domain, `element in H1`, coordinate element degree / H1 / dimensions) is computed by the harness from the live objects and passed to the model",
               "modelled rather than verified: the bodies of the eleven rules (hand-written in Model/Restrictions.lean, compared with the implementation tree-for-tree on every run); node reconstruction through constructors that fold literals (math functions, compound operators) is marked unsupported and skipped",
               "the two-sided numeric evaluator of the oracle (harness/props/c17.py `TwoSided`, pure Python on the wire format)"]
    assumptions = ["continuity premises of the value theorem (structure `Continuity` in Props/C17.lean): side-free terminals (literals, constants, quadrature weight, reference cell/facet volume, facet coordinate) have one value; spatial coordinate, facet-only geometry and H1 coefficients (and their reference values) agree across the facet; on affine non-manifold meshes -1*n(r) is n(other side); terminals of a domain with default restriction None are one-sided",
                   "operators are interpreted by an arbitrary compositional semantics; operators applied outside every restriction must respect agreement on the facet (pointwise operators); integrands with a derivative / cell average outside every restriction are excluded by the explicit hypothesis `Guarded` (C17_value_counterexample shows it is needed: finding 1)",
                   "Grad is applied to restriction-free operands (apply_derivatives has run): hypothesis `GradsPlain` of C17_once / C17_rejects_double; `C17_grad_precondition_needed` shows it is needed",
                   "theorems speak about restriction propagation without constructor simplifications (`propagate`); that rebuilding a node through the class constructors preserves values is C05; `applyRestrictions` (with constructors) is what is compared tree-for-tree"]

    def regenerate(self, ctx):
        text, self.stats = tr_restrictions.render()
        p = LEAN / "UflVerif/Gen/Restrictions.lean"
        return [(p.relative_to(LEAN), write_if_changed(p, text))]

    def specs(self, ctx):
        n = 260 if ctx.quick else 6000
        out = []
        for kind in DIRECTED_POOLS:
            out += [("directed", kind, c[0]) for c in directed_cases()]
        out += [("generated", ctx.seed, k) for k in range(n)]
        return out

    def correspondence(self, ctx, ev):
        self.keep, self.bad = [], []
        memo, reqs, cases, hist = {}, [], [], {}
        ndirected = nskipped = 0
        for spec in self.specs(ctx):
            try:
                c = Case(spec, memo)
            except Exception:  # noqa  (a directed case that cannot be built on this cell, e.g. facet quantities of an interval)
                if spec[0] != "directed":
                    raise
                nskipped += 1
                continue
            ndirected += spec[0] == "directed"
            for kk, v in c.stats.items():
                hist[kk] = hist.get(kk, 0) + v
            cases.append(c)
            reqs += c.requests()
        replies = leandrv.run_driver("C17", reqs)
        counts = new_counts()
        orng = random.Random(ctx.seed * 31337 + 1717)
        fails = []
        for i, c in enumerate(cases):
            f, b = c.judge(replies[2 * i], replies[2 * i + 1], orng, counts)
            fails += f[: max(0, 10 - len(fails))]
            self.bad += b
        ev.cov["evaluations"] = len(cases)
        ev.cov["distinct_nontrivial"] = len(counts["distinct"])
        ev.cov["directed_cases"] = ndirected
        ev.cov["directed_cases_not_constructible_on_their_cell"] = nskipped
        ev.cov["accepted"] = counts["accepted"]
        ev.cov["rejected"] = counts["rejected"]
        ev.cov["unsupported_skipped"] = counts["unsupported"]
        ev.cov["traces_validated_against_impl"] = len(cases) - counts["unsupported"]
        ev.cov["value_checks_on_impl_output"] = counts["values"]
        ev.cov["value_checks_plain_model_vs_impl"] = counts["plain"]
        ev.cov["exactly_once_checks"] = counts["once"]
        ev.cov["inputs_with_missing_or_double_restriction"] = counts["should_reject"]
        ev.cov["generator_histogram"] = {k: v for k, v in sorted(hist.items()) if k.startswith(("atom_", "leaf_dg", "p_restrict", "p_double", "p_cell_avg", "p_variable", "p_conditional", "rejected"))}
        ev.cov["rule"] = ("directed corner cases (every rule, both sides, default '+' / '-' / None / dict with a one-sided domain / cell-type dict) on affine triangle, tetrahedron, manifold, quadratic and interval meshes; "
                          "generated index-notation integrands (sums, products, divisions, powers, conditionals, variables, component/list tensors, index sums) whose scalar leaves are atoms of the three "
                          "continuity classes (constants and reference volumes; x, facet geometry, H1/H2/Real coefficients and their reference values; DG/RT/N1curl coefficients, arguments, cell geometry, normals, "
                          "grad^k, reference_grad^k(reference_value), reference_grad(x), cell_avg), restrictions inserted at random depth; every 7th case plants a missing, every 7th a double restriction; "
                          "non-trivial = distinct request with >= 3 operators containing a restriction or changed by the pass")
        gen_cases = [c for c in cases if c.spec[0] == "generated"]
        ev.cov["samples"] = [dict(label=c.label, expr=str(c.e)[:120], default_restrictions=c.drw, result=(str(c.r)[:120] if c.r is not None else c.err)) for c in gen_cases[:3]]
        self.keep = cases
        return fails

    def oracle(self, ctx, ev):
        self.bad = getattr(self, "bad", [])
        res, bad = pipeline_probes()
        ev.cov["pipeline_probes"] = res
        out, seen = [], set()
        for w, d in self.bad + bad:
            if d["kind"] in seen:
                continue
            seen.add(d["kind"])
            out.append(Witness(what=w, key="C17:" + d["kind"], data=d))
        return out

    def search(self, ctx, fails):
        """a tie broke: the oracles already ran on every generated case; look at the case of the first correspondence failure"""
        for f in fails:
            if f.kind == "correspondence" and isinstance(f.case, dict) and "spec" in f.case:
                w = self.replay(ctx, dict(data=dict(spec=f.case["spec"], kind="any")))
                if w:
                    return w
        return None

    def replay(self, ctx, data):
        d = data.get("data", {})
        kind = d.get("kind", "")
        if d.get("pipeline"):
            for w, dd in pipeline_probes()[1]:
                if dd["kind"] == kind and dd["expr"] == d.get("expr"):
                    return Witness(what=w, key="C17:" + kind, data=dd)
            return None
        spec = d.get("spec")
        if not spec:
            return None
        c = Case(tuple(spec), {})
        reps = leandrv.run_driver("C17", c.requests())
        f, b = c.judge(reps[0], reps[1], random.Random(1717), new_counts())
        for w, dd in b:
            if kind in ("any", dd["kind"]) or kind.split(":")[0] == dd["kind"].split(":")[0]:
                return Witness(what=w + " :: " + dd["expr"][:160], key="C17:" + dd["kind"], data=dd)
        return None


PROP = C17()
