"""C24 Point evaluation computes the mathematical value.
Tie: correspondence — `e(x, mapping, component)` on live objects vs the Lean model `evalI` of the evaluate protocol
(Drivers/Expr.lean), exact over Q where the expression is rational, 1e-9 relative otherwise.  The theorem
C24_sound relates evalI to the denotational semantics `eval`."""
import math, random, itertools
from fractions import Fraction
import common
from common import Prop, Witness, Failure
import uflio, gen, leandrv


def components(shape):
    return list(itertools.product(*[range(n) for n in shape]))


def py_eval(e, env, comp):
    """returns ('ok', value) | ('raise', type)"""
    import warnings
    with warnings.catch_warnings():
        warnings.simplefilter("ignore")
        try:
            v = e(env.point, env.mapping(), comp)
        except Exception as ex:  # noqa
            return ("raise", type(ex).__name__)
    if isinstance(v, (int, float, Fraction)) and not isinstance(v, bool):
        return ("ok", v)
    return ("raise", "non-scalar:" + type(v).__name__)


def bits2float(b):
    import struct
    return struct.unpack("<d", struct.pack("<Q", int(b)))[0]


def parse_reply(r):
    if r.startswith("(ok "):
        q, f = r[4:-1].split()
        n, d = q.split("/")
        return ("ok", Fraction(int(n), int(d)), bits2float(f))
    if r.startswith("(okf "):
        return ("okf", None, bits2float(r[5:-1]))
    return (r.strip("()"), None, None)


def agree(pv, mr):
    kind, q, f = mr
    if pv[0] == "raise":
        return kind == "none"
    if kind not in ("ok", "okf"):
        return False
    v = pv[1]
    if kind == "ok" and isinstance(v, (int, Fraction)):
        return Fraction(v) == q
    vf = float(v)
    if math.isnan(vf) or math.isnan(f):
        return math.isnan(vf) and math.isnan(f)
    return abs(vf - f) <= 1e-9 * max(1.0, abs(f), abs(vf))


# ---------------------------------------------------------------------------------------------- "as written" oracle
def _fdet(M):
    """exact determinant of a square matrix of Fractions (Laplace expansion along the first row)"""
    n = len(M)
    if n == 1:
        return M[0][0]
    return sum(((-1) ** c) * M[0][c] * _fdet([row[:c] + row[c + 1:] for row in M[1:]]) for c in range(n))


def _finv(M):
    n = len(M)
    d = _fdet(M)
    def minor(r, c):
        return [[M[i][j] for j in range(n) if j != c] for i in range(n) if i != r]
    if n == 1:
        return [[1 / d]]
    return [[((-1) ** (r + c)) * _fdet(minor(c, r)) / d for c in range(n)] for r in range(n)]


def written_case(rng, k):
    """an expression written through the public operators together with its mathematical value computed independently
    (exact rational arithmetic on the evaluated operands): returns (description, [(scalar expr, point, Fraction)])"""
    import ufl
    from utils import LagrangeElement
    g = rng.choice([2, 3])
    cell = ufl.triangle if g == 2 else ufl.tetrahedron
    mesh = ufl.Mesh(LagrangeElement(cell, 1, (g,)))
    x = ufl.SpatialCoordinate(mesh)
    X = tuple(Fraction(rng.randint(-8, 8), 8) for _ in range(g))
    def entry():
        a, b, j = Fraction(rng.randint(-12, 12), 4), Fraction(rng.randint(-8, 8), 4), rng.randrange(g)
        return (float(a) + float(b) * x[j]), a + b * X[j]
    def matrix(r, c):
        es = [[entry() for _ in range(c)] for _ in range(r)]
        return ufl.as_matrix([[e[0] for e in row] for row in es]), [[e[1] for e in row] for row in es]
    Xf = tuple(float(v) for v in X)
    kind = ["det", "inv", "cofac", "perm", "perm3", "transpose-chain", "matmul", "mixedgrad"][k % 8]
    out = []
    if kind == "det":
        n = rng.choice([2, 3, 4, 4, 5])
        A, Av = matrix(n, n)
        out.append((ufl.det(A), _fdet(Av)))
        out.append((ufl.det(A.T), _fdet(Av)))
        desc = "det of a %dx%d matrix" % (n, n)
    elif kind in ("inv", "cofac"):
        n = rng.choice([2, 3, 4, 4])
        for _ in range(20):
            A, Av = matrix(n, n)
            if abs(_fdet(Av)) > Fraction(1, 2):
                break
        d = _fdet(Av)
        if d == 0:
            return None
        I = _finv(Av)
        r, c = rng.randrange(n), rng.randrange(n)
        if kind == "inv":
            out.append((ufl.inv(A)[r, c], I[r][c]))
        else:
            out.append((ufl.cofac(A)[r, c], I[c][r] * d))       # cofac(A) = det(A) inv(A)^T
        desc = "%s of a %dx%d matrix, component (%d,%d)" % (kind, n, n, r, c)
    elif kind == "mixedgrad":
        # derivatives of a coefficient on an element whose largest complete sub-space is P0 (subdegree 0) but which is not
        # cellwise constant (superdegree 2): mixed P2 x DG0 / an enriched element; the mapping is a callable with exact derivatives
        import derivcommon as dc
        from utils import MixedElement, FiniteElement
        from ufl.sobolevspace import L2, H1
        P2 = LagrangeElement(cell, 2)
        DG0 = FiniteElement("DG", cell, 0, (), ufl.identity_pullback, L2)
        if rng.random() < 0.6:
            el, shape = MixedElement([P2, DG0]), (2,)
        else:
            el, shape = FiniteElement("P0+bubble", cell, 2, (), ufl.identity_pullback, H1, subdegree=0), ()
        fc = ufl.Coefficient(ufl.FunctionSpace(mesh, el))
        fld = dc.Field(rng, shape, g)
        j = rng.randrange(g)
        comp0 = (0,) if shape else ()
        e1 = (fc[0] if shape else fc).dx(j)
        e2 = ufl.grad(fc)[comp0 + (j,)] * x[0] + (fc[0] if shape else fc)
        want1 = fld.comp(comp0, Xf, (j,))
        want2 = fld.comp(comp0, Xf, (j,)) * Xf[0] + fld.comp(comp0, Xf, ())
        desc = "derivative of a coefficient on an element with subdegree 0 and superdegree 2"
        return desc, Xf, [(e1, want1), (e2, want2)], {fc: fld}
    elif kind == "perm":
        # a component tensor indexed with a permutation of its OWN defining indices
        n, m = rng.choice([2, 3]), rng.choice([2, 3])
        A, Av = matrix(n, m)
        B, Bv = matrix(n, m)
        i, j = ufl.Index(), ufl.Index()
        T = ufl.as_tensor(2 * A[i, j], (i, j))
        if n == m:
            out.append((T[j, i] * B[i, j], sum(2 * Av[jj][ii] * Bv[ii][jj] for ii in range(n) for jj in range(m))))
        Tt = ufl.as_tensor(T[i, j], (j, i))
        r, c = rng.randrange(m), rng.randrange(n)
        out.append((Tt[r, c], 2 * Av[c][r]))
        out.append((Tt[j, i] * B[i, j], sum(2 * Av[ii][jj] * Bv[ii][jj] for ii in range(n) for jj in range(m))))
        desc = "component tensor indexed with a permutation of its defining indices"
    elif kind == "perm3":
        n = 2
        es = [[[entry() for _ in range(n)] for _ in range(n)] for _ in range(n)]
        A3 = ufl.as_tensor([[[e[0] for e in r2] for r2 in r1] for r1 in es])
        i, j, l = ufl.Index(), ufl.Index(), ufl.Index()
        T = ufl.as_tensor(2 * A3[i, j, l], (i, j, l))
        p = rng.choice([(1, 0, 2), (2, 1, 0), (0, 2, 1), (1, 2, 0), (2, 0, 1)])
        idx = (i, j, l)
        U = ufl.as_tensor(T[tuple(idx[q] for q in p)], (i, j, l))       # U[i,j,l] = T[perm(i,j,l)]
        c = tuple(rng.randrange(n) for _ in range(3))
        src = tuple(c[q] for q in p)
        out.append((U[c], 2 * es[src[0]][src[1]][src[2]][1]))
        desc = "rank-3 component tensor re-indexed with permutation %s" % (p,)
    elif kind == "transpose-chain":
        n, m = rng.choice([2, 3]), rng.choice([2, 3])
        A, Av = matrix(n, m)
        B, Bv = matrix(m, n)
        r, c = rng.randrange(n), rng.randrange(n)
        out.append(((A * B).T[r, c], sum(Av[c][q] * Bv[q][r] for q in range(m))))
        out.append((ufl.tr(A * B), sum(Av[p_][q] * Bv[q][p_] for p_ in range(n) for q in range(m))))
        desc = "transposed product / trace"
    else:
        n, m, l = rng.choice([2, 3]), rng.choice([2, 3]), rng.choice([2, 3])
        A, Av = matrix(n, m)
        B, Bv = matrix(m, l)
        r, c = rng.randrange(n), rng.randrange(l)
        out.append((ufl.dot(A, B)[r, c], sum(Av[r][q] * Bv[q][c] for q in range(m))))
        out.append((ufl.inner(A, A), sum(v * v for row in Av for v in row)))
        desc = "dot / inner of matrices"
    return desc, Xf, out, None


class C24(Prop):
    pid = "C24"
    lean_modules = ["UflVerif.Props.C24"]
    min_theorems = 3
    trusted = ["correspondence harness/props/c24.py + Drivers/Expr.lean; generator harness/gen.py; serializer harness/uflio.py",
               "modelled rather than verified: Python float arithmetic (the model computes in exact rationals and in Lean's Float; literals and data are small dyadic rationals), "
               "`expand_derivatives` which `__call__` runs first (compound operators and derivatives reach `evaluate` already lowered; its correctness is C03/C06's subject)"]
    assumptions = ["domain of the claim: expressions without free indices, called with a component tuple of the expression's rank",
                   "values of SpatialCoordinate and derivative jets of callables are supplied by the harness consistently on both sides"]

    def gen_case(self, rng, k):
        G = gen.Gen(rng, gdim=rng.choice([2, 2, 3]), math=(k % 3 == 0), compound=(k % 2 == 0), derivs=(k % 5 == 0),
                    tensor_cond=(k % 7 == 0), reuse=0.8)
        shape = rng.choice([(), (), (), (2,), (3,), (2, 2), (2, 3)])
        e = G.expr(shape, (), rng.randint(2, 4))
        env = gen.ValueEnv(rng, G, callables=(k % 5 == 0))
        return G, e, env

    def correspondence(self, ctx, ev):
        from ufl.algorithms import expand_derivatives
        rng = random.Random(ctx.seed * 65537 + 24)
        n = 300 if ctx.quick else 4000
        reqs, meta = [], []
        self.bad = []
        stats = {"raise": 0, "ok": 0}
        distinct = set()
        hist = {}
        for k in range(n):
            G, e, env = self.gen_case(rng, k)
            for key, val in G.stats.items():
                hist[key] = hist.get(key, 0) + val
            comps = components(e.ufl_shape)
            comp = rng.choice(comps)
            pv = py_eval(e, env, comp)
            stats[pv[0]] += 1
            try:
                low = expand_derivatives(e)      # what `evaluate` actually runs on
            except Exception as ex:  # noqa
                continue
            s = uflio.ser(low)
            if s.count("(O ") >= 3:
                distinct.add(s)
            w = env.wire()
            reqs.append("(evalI %s %s %s)" % (s, uflio.nats(comp), w))
            reqs.append("(eval %s %s %s ())" % (s, uflio.nats(comp), w))
            meta.append((k, pv, comp, repr(e)[:300]))
        replies = leandrv.run_driver("Expr", reqs)
        fails = []
        for (k, pv, comp, rep), r, rd in zip(meta, replies[0::2], replies[1::2]):
            # property oracle: the implementation's answer against the denotational value
            md = parse_reply(rd)
            if pv[0] == "raise":
                self.bad.append(("evaluation raises %s on a well-formed expression with component %s" % (pv[1], comp), dict(seed=ctx.seed, k=k, expr=rep, kind="raise:" + pv[1])))
            elif not agree(pv, md):
                self.bad.append(("evaluation returns %s, mathematical value is %s" % (pv[1], rd), dict(seed=ctx.seed, k=k, expr=rep, kind="value")))
            mr = parse_reply(r)
            if not agree(pv, mr):
                if len(fails) < 10:
                    fails.append(Failure("correspondence", "evaluate", "case %d comp %s: impl %s | model %s | %s" % (k, comp, pv, r, rep), case=dict(seed=ctx.seed, k=k)))
        ev.cov["evaluations"] = len(reqs)
        ev.cov["distinct_nontrivial"] = len(distinct)
        ev.cov["impl_outcomes"] = stats
        ev.cov["generator_histogram"] = dict(sorted(hist.items()))
        ev.cov["traces_validated_against_impl"] = len(reqs)
        ev.cov["rule"] = ("type-directed random expressions (gen.py: arithmetic, implicit/explicit index sums with re-used Index objects, component/list tensors, "
                          "slices, conditionals, min/max, abs, powers, math functions, compound tensor algebra, derivatives of callables) of shapes (), (2,), (3,), (2,2), (2,3); "
                          "exact rational data; one random component each; non-trivial = distinct lowered expression with >= 3 operator nodes")
        ev.cov["samples"] = [dict(expr=m[3], component=m[2], impl=str(m[1]), model=r) for m, r in list(zip(meta, replies))[:4]]
        return fails

    def written_oracle(self, ctx, ev):
        """the expression as WRITTEN through the public operators (expand_derivatives lowers it before `evaluate` runs)
        against its mathematical value computed independently in exact rational arithmetic"""
        import warnings
        rng = random.Random(ctx.seed * 92821 + 7)
        n = 140 if ctx.quick else 2100
        nchk, kinds = 0, {}
        for k in range(n):
            try:
                case = written_case(rng, k)
            except Exception:  # noqa
                case = None
            if case is None:
                continue
            desc, Xf, items, mapping = case
            for e, want in items:
                with warnings.catch_warnings():
                    warnings.simplefilter("ignore")
                    try:
                        got = e(Xf, mapping) if mapping else e(Xf)
                    except Exception as ex:  # noqa
                        self.bad.append(("evaluation of %s raises %s" % (desc, type(ex).__name__), dict(seed=ctx.seed, k=k, expr=desc, kind="written-raise", written=True)))
                        continue
                nchk += 1
                kinds[desc[:24]] = kinds.get(desc[:24], 0) + 1
                if abs(float(got) - float(want)) > 1e-9 * max(1.0, abs(float(want))):
                    self.bad.append(("evaluation of %s returns %s, the mathematical value is %s" % (desc, got, float(want)),
                                     dict(seed=ctx.seed, k=k, expr=desc + " :: " + str(e)[:200], kind="written:" + desc.split(" ")[0], written=True)))
        ev.cov["written_oracle"] = dict(checks=nchk, kinds=kinds)
        ev.cov["evaluations"] += nchk

    def oracle(self, ctx, ev):
        self.written_oracle(ctx, ev)
        out, seen = [], set()
        for w, d in self.bad:
            key = "C24:" + d["kind"] + (":Conditional" if "Conditional(" in d["expr"] else "")
            if key in seen:
                continue
            seen.add(key)
            out.append(Witness(what=w + " :: " + d["expr"][:160], key=key, data=d))
        return out

    def replay(self, ctx, data):
        """regenerate the recorded case (seed, k) and compare the implementation with the denotational value again"""
        d = data.get("data", {})
        if d.get("written"):
            rng = random.Random(int(d.get("seed", 0)) * 92821 + 7)
            case = None
            for k in range(int(d.get("k", 0)) + 1):
                try:
                    case = written_case(rng, k)
                except Exception:  # noqa
                    case = None
            if case:
                desc, Xf, items, mapping = case
                for e, want in items:
                    try:
                        got = e(Xf, mapping) if mapping else e(Xf)
                    except Exception as ex:  # noqa
                        return Witness("evaluation of %s raises %s" % (desc, type(ex).__name__), data.get("key", "C24"), d)
                    if abs(float(got) - float(want)) > 1e-9 * max(1.0, abs(float(want))):
                        return Witness("evaluation of %s returns %s, the mathematical value is %s" % (desc, got, float(want)), data.get("key", "C24"), d)
            return None
        rng = random.Random(int(d.get("seed", 0)) * 65537 + 24)
        for k in range(int(d.get("k", 0)) + 1):
            G, e, env = self.gen_case(rng, k)
            comp = rng.choice(components(e.ufl_shape))
            pv = py_eval(e, env, comp)
        from ufl.algorithms import expand_derivatives
        s = uflio.ser(expand_derivatives(e))
        rd = leandrv.run_driver("Expr", ["(eval %s %s %s ())" % (s, uflio.nats(comp), env.wire())])[0]
        if pv[0] == "raise" or not agree(pv, parse_reply(rd)):
            return Witness("implementation: %s, mathematical value: %s on %s" % (pv, rd, repr(e)[:200]), data.get("key", "C24"), d)
        return None


PROP = C24()
