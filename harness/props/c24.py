"""C24 Point evaluation computes the mathematical value.
Tie: correspondence — `e(x, mapping, component)` on live objects vs the Lean model `evalI` of the evaluate protocol
(Drivers/Expr.lean), exact over Q where the expression is rational, 1e-9 relative otherwise.  The theorem
C24_sound relates evalI to the denotational semantics `eval`."""
import math, random, itertools
from fractions import Fraction
import common
from common import Prop, Witness, Failure
import uflio, gen, leandrv


def components(shape):
    return list(itertools.product(*[range(n) for n in shape]))


def py_eval(e, env, comp):
    """returns ('ok', value) | ('raise', type)"""
    import warnings
    with warnings.catch_warnings():
        warnings.simplefilter("ignore")
        try:
            v = e(env.point, env.mapping(), comp)
        except Exception as ex:  # noqa
            return ("raise", type(ex).__name__)
    if isinstance(v, (int, float, Fraction)) and not isinstance(v, bool):
        return ("ok", v)
    return ("raise", "non-scalar:" + type(v).__name__)


def bits2float(b):
    import struct
    return struct.unpack("<d", struct.pack("<Q", int(b)))[0]


def parse_reply(r):
    if r.startswith("(ok "):
        q, f = r[4:-1].split()
        n, d = q.split("/")
        return ("ok", Fraction(int(n), int(d)), bits2float(f))
    if r.startswith("(okf "):
        return ("okf", None, bits2float(r[5:-1]))
    return (r.strip("()"), None, None)


def agree(pv, mr):
    kind, q, f = mr
    if pv[0] == "raise":
        return kind == "none"
    if kind not in ("ok", "okf"):
        return False
    v = pv[1]
    if kind == "ok" and isinstance(v, (int, Fraction)):
        return Fraction(v) == q
    vf = float(v)
    if math.isnan(vf) or math.isnan(f):
        return math.isnan(vf) and math.isnan(f)
    return abs(vf - f) <= 1e-9 * max(1.0, abs(f), abs(vf))


class C24(Prop):
    pid = "C24"
    lean_modules = ["UflVerif.Props.C24"]
    min_theorems = 3
    trusted = ["correspondence harness/props/c24.py + Drivers/Expr.lean; generator harness/gen.py; serializer harness/uflio.py",
               "modelled rather than verified: Python float arithmetic (the model computes in exact rationals and in Lean's Float; literals and data are small dyadic rationals), "
               "`expand_derivatives` which `__call__` runs first (compound operators and derivatives reach `evaluate` already lowered; its correctness is C03/C06's subject)"]
    assumptions = ["domain of the claim: expressions without free indices, called with a component tuple of the expression's rank",
                   "values of SpatialCoordinate and derivative jets of callables are supplied by the harness consistently on both sides"]

    def gen_case(self, rng, k):
        G = gen.Gen(rng, gdim=rng.choice([2, 2, 3]), math=(k % 3 == 0), compound=(k % 2 == 0), derivs=(k % 5 == 0),
                    tensor_cond=(k % 7 == 0), reuse=0.8)
        shape = rng.choice([(), (), (), (2,), (3,), (2, 2), (2, 3)])
        e = G.expr(shape, (), rng.randint(2, 4))
        env = gen.ValueEnv(rng, G, callables=(k % 5 == 0))
        return G, e, env

    def correspondence(self, ctx, ev):
        from ufl.algorithms import expand_derivatives
        rng = random.Random(ctx.seed * 65537 + 24)
        n = 300 if ctx.quick else 4000
        reqs, meta = [], []
        self.bad = []
        stats = {"raise": 0, "ok": 0}
        distinct = set()
        hist = {}
        for k in range(n):
            G, e, env = self.gen_case(rng, k)
            for key, val in G.stats.items():
                hist[key] = hist.get(key, 0) + val
            comps = components(e.ufl_shape)
            comp = rng.choice(comps)
            pv = py_eval(e, env, comp)
            stats[pv[0]] += 1
            try:
                low = expand_derivatives(e)      # what `evaluate` actually runs on
            except Exception as ex:  # noqa
                continue
            s = uflio.ser(low)
            if s.count("(O ") >= 3:
                distinct.add(s)
            w = env.wire()
            reqs.append("(evalI %s %s %s)" % (s, uflio.nats(comp), w))
            reqs.append("(eval %s %s %s ())" % (s, uflio.nats(comp), w))
            meta.append((k, pv, comp, repr(e)[:300]))
        replies = leandrv.run_driver("Expr", reqs)
        fails = []
        for (k, pv, comp, rep), r, rd in zip(meta, replies[0::2], replies[1::2]):
            # property oracle: the implementation's answer against the denotational value
            md = parse_reply(rd)
            if pv[0] == "raise":
                self.bad.append(("evaluation raises %s on a well-formed expression with component %s" % (pv[1], comp), dict(seed=ctx.seed, k=k, expr=rep, kind="raise:" + pv[1])))
            elif not agree(pv, md):
                self.bad.append(("evaluation returns %s, mathematical value is %s" % (pv[1], rd), dict(seed=ctx.seed, k=k, expr=rep, kind="value")))
            mr = parse_reply(r)
            if not agree(pv, mr):
                if len(fails) < 10:
                    fails.append(Failure("correspondence", "evaluate", "case %d comp %s: impl %s | model %s | %s" % (k, comp, pv, r, rep), case=dict(seed=ctx.seed, k=k)))
        ev.cov["evaluations"] = len(reqs)
        ev.cov["distinct_nontrivial"] = len(distinct)
        ev.cov["impl_outcomes"] = stats
        ev.cov["generator_histogram"] = dict(sorted(hist.items()))
        ev.cov["traces_validated_against_impl"] = len(reqs)
        ev.cov["rule"] = ("type-directed random expressions (gen.py: arithmetic, implicit/explicit index sums with re-used Index objects, component/list tensors, "
                          "slices, conditionals, min/max, abs, powers, math functions, compound tensor algebra, derivatives of callables) of shapes (), (2,), (3,), (2,2), (2,3); "
                          "exact rational data; one random component each; non-trivial = distinct lowered expression with >= 3 operator nodes")
        ev.cov["samples"] = [dict(expr=m[3], component=m[2], impl=str(m[1]), model=r) for m, r in list(zip(meta, replies))[:4]]
        return fails

    def oracle(self, ctx, ev):
        out, seen = [], set()
        for w, d in self.bad:
            key = "C24:" + d["kind"] + (":Conditional" if "Conditional(" in d["expr"] else "")
            if key in seen:
                continue
            seen.add(key)
            out.append(Witness(what=w + " :: " + d["expr"][:160], key=key, data=d))
        return out

    def replay(self, ctx, data):
        """regenerate the recorded case (seed, k) and compare the implementation with the denotational value again"""
        d = data.get("data", {})
        rng = random.Random(int(d.get("seed", 0)) * 65537 + 24)
        for k in range(int(d.get("k", 0)) + 1):
            G, e, env = self.gen_case(rng, k)
            comp = rng.choice(components(e.ufl_shape))
            pv = py_eval(e, env, comp)
        from ufl.algorithms import expand_derivatives
        s = uflio.ser(expand_derivatives(e))
        rd = leandrv.run_driver("Expr", ["(eval %s %s %s ())" % (s, uflio.nats(comp), env.wire())])[0]
        if pv[0] == "raise" or not agree(pv, parse_reply(rd)):
            return Witness("implementation: %s, mathematical value: %s on %s" % (pv, rd, repr(e)[:200]), data.get("key", "C24"), d)
        return None


PROP = C24()
