"""C11 Forms with different compiled meaning never share a signature.

Tie (correspondence, every run, same inputs for model and implementation):
  * signature : the model's pre-hash data of `compute_form_signature` *including* `canonicalize_metadata` on raw metadata values
                (Model/SigInj.lean `fullData`), printed by Python's own `str` and hashed with sha512, == `form.signature()` (hex-exact)
  * printing  : the same data printed through the model's token stream (`Inj.toks`, the function `C11_toks_injective` is about), digests
                computed with sha512 at the Merkle nodes, == `form.signature()` (hex-exact): the token model is Python's `str` on this data
  * pairs     : for generated pairs of forms that differ by exactly one edit (literal, index pattern, metadata value, element degree,
                subdomain id, integral type, domain, operator class, operand order, restriction side, base-form-operator data, ...):
                "signatures equal?" of the implementation == of the model; the model's "normal forms equal?" (`Inj.normalize`, the
                equivalence of C11_iff) == equality of an independent structural key computed in Python (`c11lib.py_key`) whenever the
                theorem's hypotheses hold for both forms; and model "signature data equal?" == "normal forms equal?" there (the theorem)
  * classes   : the base-form-operator classes of the tree == the ones the model excludes (`Inj.isBFO`)
Oracle (the property read literally on the implementation):
  * a pair whose edit changes the compiled meaning (independent key differs) must have different signatures;
  * a pair that is equivalent by construction (rebuilt under shifted global counters, dx(1) / dx((1,)), metadata None / {}, list / tuple,
    dict key order, numpy scalars, subdomain_data, order of integrals, numpy int subdomain id) must have one signature;
  * among ALL forms generated in the run, any two with one signature must have one key (collisions across unrelated forms);
  * directed probes: float literals under `ufl.constantvalue.precision`, Constants / Labels / meshes with crafted counts.
Witness keys are specific to the kind of edit; recorded causes: metadata canonicalised by str() (int / None / bool / float against the
string of the same spelling, dict against list of pairs), base-form-operator data not hashed, rounded float reprs, numpy int subdomain id.
"""
import random
import warnings

import common
from common import Prop, Witness, Failure
import leandrv
import c12lib
import c11lib
from translate import typecodes
from common import LEAN, write_if_changed

leandrv.EXES["C11"] = "c11drv"

CAUSE_TEXT = {
    "C11:collision:metadata:int-vs-str": "u*dx(metadata={'k': 2}) and u*dx(metadata={'k': '2'}) have one signature: canonicalize_metadata applies str() to ints and strings alike",
    "C11:collision:metadata:none-vs-str": "u*dx(metadata={'k': None}) and u*dx(metadata={'k': 'None'}) have one signature (str() canonicalisation)",
    "C11:collision:metadata:bool-vs-str": "u*dx(metadata={'optimize': True}) and u*dx(metadata={'optimize': 'True'}) have one signature (str() canonicalisation)",
    "C11:collision:metadata:float-vs-str": "u*dx(metadata={'tol': 2.5}) and u*dx(metadata={'tol': '2.5'}) have one signature (str() canonicalisation)",
    "C11:collision:metadata:dict-vs-pairs": "u*dx(metadata={'k': {'a': 1, 'b': 'x'}}) and u*dx(metadata={'k': [('a', 1), ('b', 'x')]}) have one signature: a dict and a list of pairs canonicalise to the same nested tuple",
    "C11:collision:base-form-operator:derivatives": "ExternalOperator(u, function_space=V, derivatives=(0,))*v*dx and the same with derivatives=(1,) (N and dN/du) have one signature: the hash data of an operator node is [typecode, operand hashes]",
    "C11:collision:base-form-operator:function-space": "ExternalOperator(u, function_space=V)*v*dx / Interpolate(u, V)*v*dx and the same into another function space have one signature: the function space of a base form operator is not hashed",
    "C11:collision:base-form-operator:argument-slots": "ExternalOperator(u, function_space=V, argument_slots=(v*, u)) and (v*, w) have one signature: the argument slots of a base form operator are not hashed",
    "C11:collision:float-literal:precision-set": "with ufl.constantvalue.precision = 3, (u*FloatValue(1.2345))*dx and (u*FloatValue(1.2346))*dx have one signature: the hash data of a FloatValue is its repr, which format_float rounds",
    "C11:unequal:subdomain-id:numpy-int": "u*dx(1) and u*dx(numpy.int64(1)) are equal forms (equals() is True, hashes equal) with different signatures: the subdomain id is printed with repr ('np.int64(1)')",
}


class C11(Prop):
    pid = "C11"
    lean_modules = ["UflVerif.Props.C11"]
    min_theorems = 25
    trusted = ["translator harness/translate/typecodes.py (typecode table, codes pairwise different: checked by `decide` in Props/C11/Enc.lean); "
               "correspondence harness/props/c11.py + harness/c11lib.py + harness/c12lib.py + Drivers/C11.lean + Model/SigWire.lean",
               "ASSUMED, not proved: sha512 has no collisions on the data printed (the theorems keep every digest as a constructor `hash d`; C11_flatten_injective "
               "states what an injective digest gives); at the lexical level Python's `str`/`repr` of str, bytes, int, None is injective and the repr of an element "
               "object is a self-delimiting token (a requirement on third-party element classes); C11_toks_injective proves unique readability of the bracket / "
               "comma structure only, and the harness checks that this token stream printed is hex-exactly what the implementation hashes",
               "modelled rather than verified: elements are opaque reprs (two element objects with one repr are one element for UFL and for the model); literals travel by "
               "their repr (the identity of a literal in the hash data IS its repr: injective for int and, when ufl.constantvalue.precision is None, for float/complex by "
               "Python's shortest round-trip repr; not proved); function space, argument slots of a base form operator have no place in the model language (oracle only)"]
    assumptions = ["domains are plain Mesh objects, spaces plain FunctionSpaces with str labels, integrals have an empty extra_domain_integral_type_map; MeshSequence, "
                   "MixedFunctionSpace, Cofunction/Coargument as terminals of a Form (the implementation rejects them: 'Unknown terminal type') and FormSum/Action/Adjoint "
                   "(they have no signature() method) are outside the model",
                   "C11_inj needs: the signature does not raise (`raises`), operators are registered UFL classes (`wfForm`), no base form operator (`noBFOForm`: "
                   "false of the code otherwise, C11_inj_counterexample_bfo); C11_full_partial additionally: canonicalize_metadata separates the metadata values that occur "
                   "(false in general, C11_full_counterexample_metadata)",
                   "two meshes with one ufl_id and different coordinate elements, and two Constants / Labels with one explicitly given count (`CountsDistinct` of C12; the "
                   "implementation breaks the tie by repr since b924d67, the model by first occurrence) are outside the correspondence; the theorems themselves do not need it "
                   "except C11_normalize_is_renaming (`Admissible`)"]

    def regenerate(self, ctx):
        text, n = typecodes.render()
        p = LEAN / "UflVerif/Gen/Typecodes.lean"
        return [(p.relative_to(LEAN), write_if_changed(p, text))]

    # ------------------------------------------------------------------------------------------ generated pairs
    def pairs(self, ctx):
        if getattr(self, "_pairs", None) is not None:
            return self._pairs
        warnings.simplefilter("ignore")
        rng = random.Random(ctx.seed * 9176 + 11)
        n = 150 if ctx.quick else 3000
        kinds = c11lib.choose_kinds(rng, n)
        out = []
        self.build_errors = []
        for c, kind in enumerate(kinds):
            seed = ctx.seed * 1000003 + c
            try:
                f = c11lib.build(seed, kind, 0)
                g = c11lib.build(seed, kind, 1)
            except Exception as e:  # noqa  the generator itself failed: not a verdict, counted
                self.build_errors.append((c, kind, type(e).__name__ + ": " + str(e)[:200]))
                continue
            out.append(dict(case=c, kind=kind, seed=seed, f=f, g=g, expect=c11lib.KINDS[kind][1], known=c11lib.KINDS[kind][3]))
        self._pairs = out
        return out

    # ------------------------------------------------------------------------------------------ correspondence
    def correspondence(self, ctx, ev):
        import ufl
        fails = []
        order, zfix = self.variant()
        strrepr = self.strrepr_variant()
        bfo_hashed = self.bfo_hashed_variant()
        ev.cov["implementation_variant"] = dict(zero_hashdata="numbered free indices" if zfix else "repr",
                                               metadata_str_leaves="repr()" if strrepr else "str() (current)",
                                               base_form_operator_data="hashed (the model of operator nodes does not apply to forms with base form operators: skipped)"
                                               if bfo_hashed else "not hashed (current)")
        pairs = self.pairs(ctx)
        # base-form-operator classes
        from ufl.classes import all_ufl_classes, BaseFormOperator
        bfo = sorted(c.__name__ for c in all_ufl_classes if issubclass(c, BaseFormOperator))
        # BaseFormOperator(Coordinate)Derivative take their argument slots from operand 0: no data of their own
        derived_only = ["BaseFormOperatorCoordinateDerivative", "BaseFormOperatorDerivative"]
        if sorted(set(bfo) - set(derived_only)) != ["BaseFormOperator", "ExternalOperator", "Interpolate"]:
            fails.append(Failure("correspondence", "base form operator classes", "the tree has %s, the model excludes BaseFormOperator / ExternalOperator / Interpolate" % bfo))
        reqs, meta, keep = [], [], []
        skipped = 0
        for p in pairs:
            try:
                ma, mb = {}, {}
                fa, fb = c11lib.fform_s(p["f"], ma), c11lib.fform_s(p["g"], mb)
            except TypeError:
                skipped += 1
                p["wire"] = None
                continue
            if bfo_hashed and ("ExternalOperator" in fa + fb or "Interpolate" in fa + fb):
                skipped += 1
                p["wire"] = None
                continue
            keep.append((ma, mb))
            p["wire"] = (fa, fb)
            reqs += ["(fsig %d %d %s)" % (zfix, strrepr, fa), "(fsig %d %d %s)" % (zfix, strrepr, fb),
                     "(ftoks %d %d %s)" % (zfix, strrepr, fa), "(pair %d %d %s %s)" % (zfix, strrepr, fa, fb)]
            meta.append(p)
        rep = leandrv.run_driver("C11", reqs)
        nsig = ntok = npair = nthm = nkey = 0
        sigeq_both = 0
        for k, p in enumerate(meta):
            ra, rb, rt, rp = rep[4 * k:4 * k + 4]
            sa, sb = c11lib.sigof(p["f"]), c11lib.sigof(p["g"])
            p["sig"] = (sa, sb)
            for which, r, s, wire in (("f", ra, sa, p["wire"][0]), ("g", rb, sb, p["wire"][1])):
                nsig += 1
                impl = "raises" if s.startswith("raises:") else s
                model = "raises" if r == "(raises)" else (c12lib.model_signature(r) if r.startswith("(ok") else r)
                if impl != model and len(fails) < 8:
                    fails.append(Failure("correspondence", "signature", "case %d %s (%s): implementation %s model %s" % (p["case"], p["kind"], which, impl[:16], model[:16]),
                                         case=wire[:3000]))
            ntok += 1
            tmodel = "raises" if rt == "(raises)" else (c11lib.tokens_signature(rt) if rt.startswith("(ok") else rt)
            timpl = "raises" if sa.startswith("raises:") else sa
            if tmodel != timpl and len(fails) < 12:
                fails.append(Failure("correspondence", "token printing", "case %d %s: implementation %s, printed model tokens %s" % (p["case"], p["kind"], timpl[:16], tmodel[:16]),
                                     case=p["wire"][0][:3000]))
            if not rp.startswith("(ok "):
                fails.append(Failure("correspondence", "pair", "driver says %s" % rp[:200], case=p["wire"][0][:2000]))
                continue
            sigeq, normeq, thma, thmb, adma, admb = (x == "1" for x in rp[4:-1].split())
            npair += 1
            impl_eq = (sa == sb)
            sigeq_both += 1 if impl_eq else 0
            if impl_eq != sigeq and len(fails) < 16:
                fails.append(Failure("correspondence", "pair: signatures equal?", "case %d %s: implementation %s model %s" % (p["case"], p["kind"], impl_eq, sigeq),
                                     case="(pair %s %s)" % p["wire"]))
            p["model"] = dict(sigeq=sigeq, normeq=normeq, thm=thma and thmb, adm=adma and admb)
            if thma and thmb:
                nthm += 1
                if sigeq != normeq and len(fails) < 20:
                    fails.append(Failure("correspondence", "pair: theorem instance", "case %d %s: model signature data equal %s but normal forms equal %s (C11_iff says they agree)"
                                         % (p["case"], p["kind"], sigeq, normeq), case="(pair %s %s)" % p["wire"]))
                # the model's equivalence against the independent key (metadata: the model compares canonicalised metadata, the key typed metadata)
                if "md_" not in p["kind"]:
                    nkey += 1
                    keq = c11lib.py_key(p["f"]) == c11lib.py_key(p["g"])
                    if keq != normeq and len(fails) < 24:
                        fails.append(Failure("correspondence", "pair: normal form vs independent key", "case %d %s: model normal forms equal %s, independent key equal %s"
                                             % (p["case"], p["kind"], normeq, keq), case="(pair %s %s)" % p["wire"]))
        kinds_seen = {}
        for p in pairs:
            kinds_seen[p["kind"]] = kinds_seen.get(p["kind"], 0) + 1
        distinct = {p["wire"][0] for p in meta if p["wire"][0].count("(O ") >= 3}
        ev.cov["evaluations"] = len(reqs)
        ev.cov["distinct_nontrivial"] = len(distinct)
        ev.cov["signature_cases_hex_exact"] = nsig
        ev.cov["token_printing_cases_hex_exact"] = ntok
        ev.cov["pairs"] = npair
        ev.cov["pairs_with_equal_signatures"] = sigeq_both
        ev.cov["pairs_under_theorem_hypotheses"] = nthm
        ev.cov["pairs_normal_form_vs_independent_key"] = nkey
        ev.cov["pairs_per_kind"] = kinds_seen
        ev.cov["pairs_outside_model_skipped"] = skipped
        ev.cov["generator_errors"] = self.build_errors[:5]
        ev.cov["traces_validated_against_impl"] = nsig + ntok
        ev.cov["rule"] = ("pairs (f, g) of forms built by one seeded program that differ by exactly one edit of one of %d kinds (literal, index pattern, element, space label, "
                          "coordinate element, coefficient / constant identity, argument number / part, geometry, variable labels, derivative direction, operator class, operand order, "
                          "restriction side, base-form-operator data, subdomain id, integral type, domain, metadata values incl. arrays and nested containers) or are equivalent by "
                          "construction; 1-3 integrals, the edited factor multiplied / added to a gen.Gen expression of depth 0-2; counters start at random offsets; "
                          "non-trivial = distinct first form with >= 3 operator nodes" % len(c11lib.KINDS))
        ev.cov["samples"] = [dict(case=p["case"], kind=p["kind"], expect=p["expect"], signatures=[p["sig"][0][:12], p["sig"][1][:12]], form=str(p["f"])[:120]) for p in meta[:5]]
        return fails

    def variant(self):
        from props.c12 import impl_variant
        return impl_variant()

    def bfo_hashed_variant(self):
        """does the tree under test hash the non-operand data of a base form operator (fix_C11_1)?  The model follows the unrepaired code."""
        import ufl
        from ufl.classes import ExternalOperator
        from utils import LagrangeElement
        m = ufl.Mesh(LagrangeElement(ufl.triangle, 1, (2,)), ufl_id=3)
        V = ufl.FunctionSpace(m, LagrangeElement(ufl.triangle, 1, ()))
        u = ufl.Coefficient(V, count=0)
        a = ExternalOperator(u, function_space=V, derivatives=(0,)) * ufl.dx
        b = ExternalOperator(u, function_space=V, derivatives=(1,)) * ufl.dx
        return c11lib.sigof(a) != c11lib.sigof(b)

    def strrepr_variant(self):
        from ufl.utils.sorting import canonicalize_metadata
        return 1 if canonicalize_metadata({"k": "a"}) == (("k", "'a'"),) else 0

    # ------------------------------------------------------------------------------------------ oracle
    def oracle(self, ctx, ev):
        import ufl
        warnings.simplefilter("ignore")
        wit, seen = [], set()

        def add(w):
            if w.key not in seen or w.key.startswith("C11:unexplained"):
                seen.add(w.key)
                wit.append(w)

        pairs = self.pairs(ctx)
        stats = dict(differ_pairs=0, differ_pairs_folded=0, same_pairs=0, collisions=0, unequal=0, raising=0)
        corpus = {}
        for p in pairs:
            sa, sb = p.get("sig") or (c11lib.sigof(p["f"]), c11lib.sigof(p["g"]))
            if sa.startswith("raises") or sb.startswith("raises"):
                stats["raising"] += 1
                continue
            ka, kb = c11lib.py_key(p["f"]), c11lib.py_key(p["g"])
            corpus.setdefault(sa, []).append((ka, p, 0))
            corpus.setdefault(sb, []).append((kb, p, 1))
            data = dict(kind="pair", edit=p["kind"], seed=p["seed"], case=p["case"], signatures=[sa, sb], forms=[str(p["f"])[:300], str(p["g"])[:300]])
            if p["expect"] == c11lib.DIFFER:
                if ka == kb:
                    stats["differ_pairs_folded"] += 1     # the constructors folded the edit away
                    if sa != sb:
                        add(Witness("two builds with one structural key have different signatures :: %s case %d" % (p["kind"], p["case"]),
                                    "C11:unexplained:unequal:" + p["kind"], data))
                    continue
                stats["differ_pairs"] += 1
                if sa == sb:
                    stats["collisions"] += 1
                    key = p["known"] or ("C11:unexplained:collision:" + p["kind"])
                    add(Witness(CAUSE_TEXT.get(key, "two forms that differ by one edit (%s) have the same signature" % p["kind"]) + " :: case %d" % p["case"], key, data))
            else:
                stats["same_pairs"] += 1
                if sa != sb:
                    stats["unequal"] += 1
                    key = p["known"] or ("C11:unexplained:unequal:" + p["kind"])
                    add(Witness(CAUSE_TEXT.get(key, "two equivalent forms (%s) have different signatures" % p["kind"]) + " :: case %d" % p["case"], key, data))
                elif ka != kb:
                    add(Witness("harness: a pair meant to be equivalent has different structural keys :: %s case %d" % (p["kind"], p["case"]),
                                "C11:unexplained:generator:" + p["kind"], data))
        # collisions across unrelated forms of the whole run
        cross = explained = 0
        for s, lst in corpus.items():
            keys = {}
            for (k, p, which) in lst:
                keys.setdefault(k, (p, which))
            if len(keys) > 1:
                ps = list(keys.values())
                # the recorded causes show up here again, across cases: a group is explained by them if its members have one key once
                # base-form-operator data and the types of metadata leaves are made invisible
                blind = {repr(c11lib.py_key_blind(p["g"] if which else p["f"])) for p, which in ps}
                if len(blind) == 1:
                    explained += 1
                    continue
                cross += 1
                (p1, w1), (p2, w2) = ps[0], ps[1]
                add(Witness("two unrelated generated forms have one signature and different structural keys :: cases %d/%d (%s, %s)" % (p1["case"], p2["case"], p1["kind"], p2["kind"]),
                            "C11:unexplained:collision:cross", dict(kind="cross", seed=ctx.seed, cases=[[p1["seed"], p1["kind"], w1], [p2["seed"], p2["kind"], w2]], signature=s)))
        stats["corpus_groups_explained_by_recorded_causes"] = explained
        stats["corpus_forms"] = sum(len(v) for v in corpus.values())
        stats["corpus_signatures"] = len(corpus)
        stats["corpus_collision_groups"] = cross
        # directed probes
        for name, fn in DIRECTED.items():
            r = fn()
            stats["directed_" + name] = r[0]
            if r[1] is not None:
                add(r[1])
        ev.cov["oracle"] = stats
        ev.cov["evaluations"] += 2 * len(pairs) + len(DIRECTED)
        return wit

    # ------------------------------------------------------------------------------------------ replay
    def replay(self, ctx, data):
        warnings.simplefilter("ignore")
        d = data.get("data", data)
        key = data.get("key", "C11:replay")
        c11lib.init_kinds()
        if d.get("kind") == "pair":
            f, g = c11lib.build(d["seed"], d["edit"], 0), c11lib.build(d["seed"], d["edit"], 1)
            sa, sb = c11lib.sigof(f), c11lib.sigof(g)
            ka, kb = c11lib.py_key(f), c11lib.py_key(g)
            bad = (sa == sb and ka != kb) if c11lib.KINDS[d["edit"]][1] == c11lib.DIFFER else (sa != sb)
            if ":unequal:" in key and c11lib.KINDS[d["edit"]][1] == c11lib.DIFFER:
                bad = sa != sb and ka == kb
            return Witness("%s: signatures %s.. / %s.., structural keys %s" % (d["edit"], sa[:12], sb[:12], "equal" if ka == kb else "different"), key, d) if bad else None
        if d.get("kind") == "cross":
            (s1, k1, w1), (s2, k2, w2) = d["cases"]
            f, g = c11lib.build(s1, k1, w1), c11lib.build(s2, k2, w2)
            bad = c11lib.sigof(f) == c11lib.sigof(g) and c11lib.py_key(f) != c11lib.py_key(g) and c11lib.py_key_blind(f) != c11lib.py_key_blind(g)
            return Witness("two unrelated forms with one signature", key, d) if bad else None
        if d.get("kind") == "directed":
            r = DIRECTED[d["probe"]]()
            return r[1]
        return None


# ---------------------------------------------------------------------------------------------- directed probes
def _probe_env():
    import ufl
    from utils import LagrangeElement
    m = ufl.Mesh(LagrangeElement(ufl.triangle, 1, (2,)), ufl_id=3)
    V = ufl.FunctionSpace(m, LagrangeElement(ufl.triangle, 1, ()))
    return ufl, m, V, ufl.Coefficient(V, count=0), ufl.Coefficient(V, count=1)


def probe_precision():
    """FloatValue reprs are rounded when `ufl.constantvalue.precision` is set"""
    import ufl.constantvalue as cv
    ufl, m, V, u, v = _probe_env()
    from ufl.classes import FloatValue
    old = cv.precision
    n = 0
    w = None
    try:
        for prec in (3, 8, 15):
            cv.precision = prec
            for a, b in ((1.2345, 1.2346), (0.1, 0.1 + 1e-12), (1.0, 1.0 + 2 ** -40)):
                f, g = (u * FloatValue(a)) * ufl.dx, (u * FloatValue(b)) * ufl.dx
                n += 1
                if c11lib.sigof(f) == c11lib.sigof(g) and FloatValue(a)._value != FloatValue(b)._value and w is None:
                    w = Witness(CAUSE_TEXT["C11:collision:float-literal:precision-set"] + " :: precision=%d, %r / %r" % (prec, a, b),
                                "C11:collision:float-literal:precision-set", dict(kind="directed", probe="precision", precision=prec, values=[a, b]))
        cv.precision = None
        for a, b in ((1.2345, 1.2346), (0.1, 0.1 + 1e-12), (1.0, 1.0 + 2 ** -40), (0.1, 0.10000000000000002)):
            n += 1
            if c11lib.sigof((u * FloatValue(a)) * ufl.dx) == c11lib.sigof((u * FloatValue(b)) * ufl.dx):
                w = Witness("two different float literals have one signature although ufl.constantvalue.precision is None :: %r / %r" % (a, b),
                            "C11:unexplained:collision:float-default-precision", dict(kind="directed", probe="precision", values=[a, b]))
    finally:
        cv.precision = old
    return n, w


def probe_crafted_counts():
    """objects with explicitly given counts / ids: different forms must not share a signature"""
    ufl, m, V, u, v = _probe_env()
    from utils import LagrangeElement
    from ufl.classes import Label, Variable
    n, w = 0, None
    tri = ufl.triangle
    m2 = ufl.Mesh(LagrangeElement(tri, 2, (2,)), ufl_id=3)           # same id, another coordinate element
    V2 = ufl.FunctionSpace(m2, LagrangeElement(tri, 1, ()))
    cases = [
        ("coefficients of two spaces, one count each", ufl.Coefficient(V, count=5) * ufl.dx(m), ufl.Coefficient(ufl.FunctionSpace(m, LagrangeElement(tri, 2, ())), count=5) * ufl.dx(m)),
        ("meshes with one id and different coordinate elements", ufl.Coefficient(V, count=5) * ufl.dx(m), ufl.Coefficient(V2, count=5) * ufl.dx(m2)),
        ("constant against coefficient", ufl.Constant(m, count=5) * ufl.dx(m), ufl.Coefficient(V, count=5) * ufl.dx(m)),
        ("constants of two shapes", ufl.Constant(m, (2,), count=5)[0] * ufl.dx(m), ufl.Constant(m, (3,), count=5)[0] * ufl.dx(m)),
        ("labels shared or not", Variable(u, Label(1)) * Variable(v, Label(2)) * ufl.dx(m), Variable(u, Label(1)) * Variable(v, Label(1)) * ufl.dx(m)),
        ("identity against permutation symbol", ufl.Identity(2)[0, 1] * u * ufl.dx(m) + ufl.Identity(2)[ufl.Index(7), ufl.Index(7)] * u * ufl.dx(m),
         ufl.PermutationSymbol(2)[0, 1] * u * ufl.dx(m) + ufl.PermutationSymbol(2)[ufl.Index(7), ufl.Index(7)] * u * ufl.dx(m)),
        ("string in Constant signature data", ufl.Constant(m, (), count=1) * ufl.dx(m), ufl.Constant(m, (), count=1) * ufl.Constant(m, (), count=2) * ufl.dx(m)),
    ]
    for name, f, g in cases:
        n += 1
        sf, sg = c11lib.sigof(f), c11lib.sigof(g)
        if sf == sg and not sf.startswith("raises") and w is None:
            w = Witness("two different forms have one signature :: %s" % name, "C11:unexplained:collision:directed:" + name.replace(" ", "-"),
                        dict(kind="directed", probe="crafted_counts", case=name))
    return n, w


def probe_history():
    """signatures must not depend on which other forms had their signature computed before (state cached on shared objects):
    a cross-mesh form must not collide with a single-mesh form, and a form must get the signature of a freshly built equal form"""
    import ufl
    from utils import LagrangeElement
    tri = ufl.triangle
    n, w = 0, None

    def world():
        m1 = ufl.Mesh(LagrangeElement(tri, 1, (2,)), ufl_id=11)
        m2 = ufl.Mesh(LagrangeElement(tri, 1, (2,)), ufl_id=12)
        P = LagrangeElement(tri, 1, ())
        V1, V2 = ufl.FunctionSpace(m1, P), ufl.FunctionSpace(m2, P)
        f, g = ufl.Coefficient(V2, count=3), ufl.Coefficient(V1, count=3)
        v = ufl.TestFunction(V1)
        return m1, m2, f, g, v
    # fresh objects: the reference signatures
    m1, m2, f, g, v = world()
    ref_cross, ref_single = c11lib.sigof(f * v * ufl.dx(m1)), c11lib.sigof(g * v * ufl.dx(m1))
    for warm in ("space-first-on-own-mesh", "geometry-first", "other-order"):
        m1, m2, f, g, v = world()
        if warm == "space-first-on-own-mesh":
            c11lib.sigof(f * f * ufl.dx(m2))            # here m2 is domain 0
        elif warm == "geometry-first":
            c11lib.sigof(ufl.CellVolume(m2) * f * ufl.dx(m2) + g * ufl.dx(m1))
        else:
            c11lib.sigof(g * v * ufl.dx(m1)); c11lib.sigof(f * ufl.dx(m2))
        cross, single = c11lib.sigof(f * v * ufl.dx(m1)), c11lib.sigof(g * v * ufl.dx(m1))
        n += 3
        if w is None and cross == single:
            w = Witness("after %s, the cross-mesh form f*v*dx(m1) (f on m2) and the single-mesh form g*v*dx(m1) have one signature" % warm,
                        "C11:unexplained:collision:history:" + warm, dict(kind="directed", probe="history", warm=warm))
        if w is None and (cross != ref_cross or single != ref_single):
            w = Witness("after %s, a form has another signature than the equal form built from fresh objects" % warm,
                        "C11:unexplained:unequal:history:" + warm, dict(kind="directed", probe="history", warm=warm))
    return n, w


DIRECTED = dict(precision=probe_precision, crafted_counts=probe_crafted_counts, history=probe_history)

PROP = C11()
