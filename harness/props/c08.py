"""C08 Function pullbacks implement each element's declared push-forward.
Tie (translator): harness/translate/pullbacks.py runs the real apply_function_pullbacks on a coefficient of every element
of the instance family and writes tree + element tree to Gen/Pullbacks_*.lean; Props/C08/*.lean re-proves, for each, that
every component equals the declared push-forward `Pullback.push` of the reference value.
Oracle / failing-input search: random nested element trees beyond the family (mixed of mixed, symmetric with random
symmetry maps, Piola sub-elements with leading axes, immersed meshes); the implementation's rewritten expression is
evaluated exactly (reference value, J, K, detJ replaced by coefficients with rational data) and compared with an independent
evaluation of the push-forward definition; the shape must be the function space's value shape."""
import itertools, random
from fractions import Fraction
import common
from common import Prop, Witness, Failure, LEAN, write_if_changed


def comps(shape):
    return list(itertools.product(*[range(n) for n in shape]))


def prod(xs):
    p = 1
    for x in xs:
        p *= int(x)
    return p


# ---------------- independent definition of the push-forward on an abstract element tree
class El:
    def __init__(self, kind, ref, subs=(), sym=None):
        self.kind, self.ref, self.subs, self.sym = kind, tuple(ref), list(subs), sym

    def phys(self, gdim):
        k = self.kind
        if k in ("contra", "co"):
            return self.ref[:-1] + (gdim,)
        if k in ("dcontra", "dco", "coco"):
            return self.ref[:-2] + (gdim, gdim)
        if k == "mixed":
            return (sum(prod(s.phys(gdim)) for s in self.subs),)
        if k == "symmetric":
            return tuple(i + 1 for i in max(self.sym)) + self.subs[0].phys(gdim)
        return self.ref

    def describe(self):
        if self.kind == "mixed":
            return "Mixed[%s]" % ", ".join(s.describe() for s in self.subs)
        if self.kind == "symmetric":
            return "Sym%s[%s]" % (dict(self.sym), ", ".join(s.describe() for s in self.subs))
        return "%s%s" % (self.kind, list(self.ref))


def flat(shape, c):
    n = 0
    for d, i in zip(shape, c):
        n = n * d + i
    return n


def push(el, rv, c, J, K, detJ, tdim, gdim):
    """rv: component tuple -> value"""
    k = el.kind
    T = range(tdim)
    if k == "contra":
        return sum(J[c[-1]][j] * rv(c[:-1] + (j,)) for j in T) / detJ
    if k == "co":
        return sum(K[j][c[-1]] * rv(c[:-1] + (j,)) for j in T)
    if k == "l2":
        return rv(c) / detJ
    if k == "dcontra":
        return sum(J[c[-2]][m] * rv(c[:-2] + (m, n)) * J[c[-1]][n] for m in T for n in T) / detJ ** 2
    if k == "dco":
        return sum(K[m][c[-2]] * rv(c[:-2] + (m, n)) * K[n][c[-1]] for m in T for n in T)
    if k == "coco":
        return sum(K[m][c[-2]] * rv(c[:-2] + (m, n)) * J[c[-1]][n] for m in T for n in T) / detJ
    if k == "mixed":
        p, roff = c[0], 0
        for s in el.subs:
            ps = s.phys(gdim)
            n = prod(ps)
            if p < n:
                cc = list(itertools.product(*[range(d) for d in ps]))[p] if ps else ()
                return push(s, (lambda s, roff: lambda c2: rv((roff + flat(s.ref, c2),)))(s, roff), tuple(cc), J, K, detJ, tdim, gdim)
            p -= n
            roff += prod(s.ref)
        raise IndexError
    if k == "symmetric":
        nb = len(max(el.sym))
        i = el.sym[tuple(c[:nb])]
        roff = sum(prod(s.ref) for s in el.subs[:i])
        s = el.subs[i]
        return push(s, lambda c2: rv((roff + flat(s.ref, c2),)), tuple(c[nb:]), J, K, detJ, tdim, gdim)
    return rv(c)


class C08(Prop):
    pid = "C08"
    lean_modules = ["UflVerif.Props.C08"]
    min_theorems = 12
    trusted = ["translator harness/translate/pullbacks.py + leanexpr.py (embeds the trees apply_function_pullbacks returns and the element trees read from the live element objects)",
               "ReferenceValue(f), Jacobian, JacobianInverse and JacobianDeterminant are the symbols a form compiler tabulates: they are free variables (r, J, K, detJ) of the identities; "
               "that K is the (pseudo-)inverse of J and detJ its (pseudo-)determinant is C07's subject",
               "utils.FiniteElement / MixedElement / SymmetricElement of the test-suite stand for third-party element classes",
               "instance family: 21-23 elements x 6 (cell, gdim) pairs; other compositions are covered by the oracle on random element trees only"]
    assumptions = ["integer power 2 means squaring (PowOK) for the double contravariant map, whose implementation writes (1/detJ)**2"]

    def regenerate(self, ctx):
        from translate import pullbacks
        files, insts = pullbacks.render()
        self.insts = insts
        out = []
        for k, v in files.items():
            p = LEAN / "UflVerif" / "Gen" / (k + ".lean")
            out.append((p, write_if_changed(p, v)))
        return out

    def correspondence(self, ctx, ev):
        fails = []
        for r in getattr(self, "insts", []):
            if "error" in r:
                fails.append(Failure("translator", "family:%s/%s%d" % (r["name"], r["cell"], r["gdim"]), "apply_function_pullbacks fails on an element of the instance family: " + r["error"]))
        ev.cov["instances_regenerated"] = len(getattr(self, "insts", []))
        return fails

    # ---------------- random element trees
    def rand_elem(self, rng, cell, tdim, depth):
        """returns (live element, El)"""
        import ufl
        from ufl import pullback as pb
        from ufl.sobolevspace import H1, HDiv, HCurl, L2, HDivDiv, HEin
        from utils import FiniteElement, MixedElement, SymmetricElement
        def leaf(kinds=None):
            k = rng.choice(kinds or ["id", "id", "idv", "idt", "contra", "co", "l2", "l2v", "dcontra", "dco", "coco", "contra_rows", "co_rows"])
            deg = rng.randint(1, 3)
            if k == "id":
                return FiniteElement("Lagrange", cell, deg, (), pb.identity_pullback, H1), El("identity", ())
            if k == "idv":
                n = rng.choice([2, 3])
                return FiniteElement("Lagrange", cell, deg, (n,), pb.identity_pullback, H1), El("identity", (n,))
            if k == "idt":
                sh = rng.choice([(2, 2), (2, 3)])
                return FiniteElement("Lagrange", cell, deg, sh, pb.identity_pullback, H1), El("identity", sh)
            if k == "contra":
                return FiniteElement("RT", cell, deg, (tdim,), pb.contravariant_piola, HDiv), El("contra", (tdim,))
            if k == "co":
                return FiniteElement("N1curl", cell, deg, (tdim,), pb.covariant_piola, HCurl), El("co", (tdim,))
            if k == "contra_rows":
                return FiniteElement("RT", cell, deg, (2, tdim), pb.contravariant_piola, HDiv), El("contra", (2, tdim))
            if k == "co_rows":
                return FiniteElement("N1curl", cell, deg, (3, tdim), pb.covariant_piola, HCurl), El("co", (3, tdim))
            if k == "l2":
                return FiniteElement("DGl2", cell, deg, (), pb.l2_piola, L2), El("l2", ())
            if k == "l2v":
                return FiniteElement("DGl2", cell, deg, (2,), pb.l2_piola, L2), El("l2", (2,))
            if k == "dcontra":
                return FiniteElement("HHJ", cell, deg, (tdim, tdim), pb.double_contravariant_piola, HDivDiv), El("dcontra", (tdim, tdim))
            if k == "dco":
                return FiniteElement("Regge", cell, deg, (tdim, tdim), pb.double_covariant_piola, HEin), El("dco", (tdim, tdim))
            return FiniteElement("GLS", cell, deg, (tdim, tdim), pb.covariant_contravariant_piola, L2), El("coco", (tdim, tdim))
        r = rng.random()
        if depth <= 0 or r < 0.25:
            return leaf()
        if r < 0.7:
            subs = [self.rand_elem(rng, cell, tdim, depth - 1) for _ in range(rng.randint(2, 3))]
            return MixedElement([s[0] for s in subs]), El("mixed", (sum(prod(s[1].ref) for s in subs),), [s[1] for s in subs])
        # symmetric: block shape (2,2) symmetric, (2,2) with a repeated sub-element elsewhere, or a vector with a repeat
        kind = rng.choice(["id", "contra", "co", "idv", "l2"])
        nsub = rng.choice([2, 3])
        subs = [leaf([kind]) for _ in range(nsub)]
        if len({s[1].ref for s in subs}) != 1:
            subs = [subs[0]] * nsub
        pat = rng.choice(["sym22", "vec3", "any22", "permvec", "perm22"])
        if pat in ("permvec", "perm22"):
            # a BIJECTIVE renumbering other than row-major (reference and physical shapes agree in size; only the order differs)
            nsub = 3 if pat == "permvec" else 4
            kind = rng.choice(["id", "id", "l2", "contra"]) if pat == "permvec" else "id"
            subs = [leaf([kind]) for _ in range(nsub)]
            if len({s_[1].ref for s_ in subs}) != 1:
                subs = [subs[0]] * nsub
            keys = [(0,), (1,), (2,)] if pat == "permvec" else [(0, 0), (0, 1), (1, 0), (1, 1)]
            perm = list(range(nsub))
            while perm == list(range(nsub)):
                rng.shuffle(perm)
            if pat == "perm22" and rng.random() < 0.5:
                perm = [0, 2, 1, 3]                     # column-major
            m = dict(zip(keys, perm))
        elif pat == "sym22":
            m = {(0, 0): 0, (0, 1): 1, (1, 0): 1, (1, 1): (2 if nsub > 2 else 0)}
        elif pat == "vec3":
            m = {(0,): 0, (1,): nsub - 1, (2,): rng.randrange(nsub)}
        else:
            m = {(i, j): rng.randrange(nsub) for i in range(2) for j in range(2)}
        used = sorted(set(m.values()))
        if used != list(range(len(used))) or len(used) != nsub:      # every sub-element used, numbered densely
            m = {k: v % nsub for k, v in m.items()}
            for i in range(nsub):
                if i not in m.values():
                    m[sorted(m)[i % len(m)]] = i
        if sorted(set(m.values())) != list(range(nsub)):
            return leaf()
        items = list(m.items())
        rng.shuffle(items)            # the meaning of a symmetry map does not depend on the order its entries were written in
        m = dict(items)
        return SymmetricElement(m, [s[0] for s in subs]), El("symmetric", (sum(prod(s[1].ref) for s in subs),), [s[1] for s in subs], dict(m))

    def oracle_case(self, rng, k):
        import ufl
        from ufl.algorithms.apply_function_pullbacks import apply_function_pullbacks
        from ufl.algorithms import replace
        from ufl.classes import ReferenceValue, Jacobian, JacobianDeterminant, JacobianInverse
        from ufl import pullback as pb
        from ufl.sobolevspace import H1
        from utils import LagrangeElement, FiniteElement
        cellname, tdim, gdim = rng.choice([("interval", 1, 1), ("interval", 1, 2), ("triangle", 2, 2), ("triangle", 2, 3), ("tetrahedron", 3, 3), ("interval", 1, 3)])
        cell = getattr(ufl, cellname)
        mesh = ufl.Mesh(LagrangeElement(cell, 1, (gdim,)))
        live, el = self.rand_elem(rng, cell, tdim, rng.randint(0, 2))
        V = ufl.FunctionSpace(mesh, live)
        f = ufl.Coefficient(V)
        out = apply_function_pullbacks(f)
        desc = "%s on %s in %dD" % (el.describe(), cellname, gdim)
        want = tuple(int(x) for x in V.value_shape)
        if tuple(out.ufl_shape) != want or el.phys(gdim) != want:
            return desc, ["rewritten expression has shape %s, function space value shape %s, declared physical shape %s" % (tuple(out.ufl_shape), want, el.phys(gdim))]
        # stand-ins with rational data
        def co(sh):
            return ufl.Coefficient(ufl.FunctionSpace(mesh, FiniteElement("Lagrange", cell, 1, tuple(sh), pb.identity_pullback, H1)))
        R, Jc, Kc, Dc = co(live.reference_value_shape), co((gdim, tdim)), co((tdim, gdim)), co(())
        q = lambda: Fraction(rng.randint(-5, 5), rng.choice([1, 2, 3]))
        def rnd(sh):
            return tuple(rnd(sh[1:]) for _ in range(sh[0])) if sh else q()
        rv, Jv, Kv = rnd(tuple(live.reference_value_shape)), rnd((gdim, tdim)), rnd((tdim, gdim))
        Dv = Fraction(rng.choice([-3, -2, 2, 3, 5]), rng.choice([1, 2]))
        e2 = replace(out, {ReferenceValue(f): R, Jacobian(mesh): Jc, JacobianInverse(mesh): Kc, JacobianDeterminant(mesh): Dc})
        m = {R: rv, Jc: Jv, Kc: Kv, Dc: Dv}
        x = (Fraction(0),) * gdim
        def get(v, c):
            for i in c:
                v = v[i]
            return v
        problems = []
        for c in comps(want):
            got = e2(x, m, c)
            exp = push(el, lambda cc: get(rv, cc), tuple(c), Jv, Kv, Dv, tdim, gdim)
            if Fraction(got) != exp and abs(float(got) - float(exp)) > 1e-9 * max(1.0, abs(float(exp))):
                problems.append("component %s is %s, declared push-forward gives %s" % (list(c), got, exp))
                break
        return desc, problems

    def oracle(self, ctx, ev):
        rng = random.Random(ctx.seed * 811 + 8)
        n = 120 if ctx.quick else 2500
        out, seen, kinds, nchk = [], set(), {}, 0
        samples = []
        for k in range(n):
            try:
                desc, problems = self.oracle_case(rng, k)
            except Exception as ex:  # noqa
                desc, problems = "case %d" % k, ["apply_function_pullbacks raised %s: %s" % (type(ex).__name__, str(ex)[:150])]
            nchk += 1
            kinds[desc.split("[")[0].split(" ")[0]] = kinds.get(desc.split("[")[0].split(" ")[0], 0) + 1
            if len(samples) < 4:
                samples.append(desc)
            if problems:
                key = "C08:" + desc
                if key not in seen and len(out) < 5:
                    seen.add(key)
                    out.append(Witness("%s: %s" % (desc, problems[0]), key, dict(kind="value", seed=ctx.seed, k=k, element=desc, problems=problems)))
        ev.cov["evaluations"] = nchk
        ev.cov["distinct_nontrivial"] = len({s for s in kinds})
        ev.cov["element_kinds"] = kinds
        ev.cov["rule"] = ("oracle: random element trees (leaf pull-back kinds incl. leading axes, mixed of 2-3 sub-elements nested to depth 2, symmetric elements with random symmetry maps) on "
                          "6 (cell, gdim) pairs, exact rational data for r, J, K, detJ; distinct_nontrivial counts distinct top-level element kinds; the proof covers the regenerated instance family")
        ev.cov["samples"] = samples
        return out

    def replay(self, ctx, data):
        d = data.get("data", {})
        rng = random.Random(int(d.get("seed", 0)) * 811 + 8)
        for k in range(int(d.get("k", 0)) + 1):
            try:
                desc, problems = self.oracle_case(rng, k)
            except Exception as ex:  # noqa
                desc, problems = "case %d" % k, ["raised %s" % type(ex).__name__]
        if problems:
            return Witness("%s: %s" % (desc, problems[0]), data.get("key", "C08"), d)
        return None


PROP = C08()
