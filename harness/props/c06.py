"""C06 Lowering compound tensor algebra preserves values.
Tie 1 (translator): harness/translate/compound.py calls the real lowering on coefficient operands of every shape of the
instance family and writes the returned trees to Gen/Compound_*.lean; Props/C06/*.lean is re-checked against them.
Tie 2 (correspondence): for generated non-terminal operands (index notation, free indices, re-used Index objects) the real
lowering is compared tree-for-tree (modulo renaming of bound indices) with the model `lowerInst` = the regenerated instance
of the same shapes with A, B replaced by the operands (Drivers/Lower.lean).
Oracle: the implementation's lowered expression is evaluated with complex operand data and compared with the operator's
definition computed directly on the operand values."""
import itertools, random, cmath
from fractions import Fraction
import common
from common import Prop, Witness, Failure, LEAN, write_if_changed
import uflio, gen, leandrv
from props.c05 import canon

leandrv.EXES["Lower"] = "lowerdrv"


def comps(shape):
    return list(itertools.product(*[range(n) for n in shape]))


def nest(shape, f, prefix=()):
    if not shape:
        return f(prefix)
    return [nest(shape[1:], f, prefix + (k,)) for k in range(shape[0])]


def get(v, c):
    for k in c:
        v = v[k]
    return v


def det(M):
    n = len(M)
    if n == 1:
        return M[0][0]
    return sum((-1) ** j * M[0][j] * det([r[:j] + r[j + 1:] for r in M[1:]]) for j in range(n))


def matmul(A, B):
    return [[sum(A[i][k] * B[k][j] for k in range(len(B))) for j in range(len(B[0]))] for i in range(len(A))]


def transpose(A):
    return [list(r) for r in zip(*A)]


def spec(group, A, B, shA, shB):
    """the operator's definition on nested lists of (complex) numbers; returns nested list / scalar, or a checker"""
    cj = lambda z: z.conjugate() if isinstance(z, complex) else z
    if group == "trace":
        return sum(A[k][k] for k in range(shA[0]))
    if group == "transposed":
        return transpose(A)
    if group == "sym":
        return nest(shA, lambda c: (A[c[0]][c[1]] + A[c[1]][c[0]]) / 2)
    if group == "skew":
        return nest(shA, lambda c: (A[c[0]][c[1]] - A[c[1]][c[0]]) / 2)
    if group == "dev":
        n = shA[0]
        tr = sum(A[k][k] for k in range(n))
        return nest(shA, lambda c: A[c[0]][c[1]] - (tr / n if c[0] == c[1] else 0))
    if group == "perp":
        return [-A[1], A[0]]
    if group == "cross":
        return [A[(i + 1) % 3] * B[(i + 2) % 3] - A[(i + 2) % 3] * B[(i + 1) % 3] for i in range(3)]
    if group == "dot":
        if not shA or not shB:
            return nest(tuple(shA) + tuple(shB), lambda c: get(A, c[:len(shA)]) * get(B, c[len(shA):]))
        r = len(shA) - 1
        return nest(tuple(shA[:-1]) + tuple(shB[1:]), lambda c: sum(get(A, c[:r] + (k,)) * get(B, (k,) + c[r:]) for k in range(shA[-1])))
    if group == "inner":
        return sum(get(A, c) * cj(get(B, c)) for c in comps(shA))
    if group == "outer":
        return nest(tuple(shA) + tuple(shB), lambda c: cj(get(A, c[:len(shA)])) * get(B, c[len(shA):]))
    if group == "det":
        return det(A)
    if group == "cofac":
        n = shA[0]
        return nest(shA, lambda c: (-1) ** (c[0] + c[1]) * det([[A[i][j] for j in range(n) if j != c[1]] for i in range(n) if i != c[0]]) if n > 1 else 1)
    return None


class C06(Prop):
    pid = "C06"
    lean_modules = ["UflVerif.Props.C06"]
    min_theorems = 20
    trusted = ["translator harness/translate/compound.py + leanexpr.py (embeds the trees the real lowering returns)",
               "correspondence harness/props/c06.py + Drivers/Lower.lean (instance with A, B replaced by the operands, bound indices renamed apart)",
               "modelled rather than verified: instance family = operand shapes listed in compound.family() (matrices up to 4x4, rectangular 2x1/3x1/3x2/4x2, ranks <= 3); "
               "other shapes are covered by the correspondence/oracle only; float literals (0.5, 1/3) are exact rationals of their double value (C06_dev states the 2^-54 rounding of 1/3 explicitly)",
               "compound differential operators: the theorem speaks about apply_derivatives(apply_algebra_lowering(op(A))) (grad acting on the terminal), since the value of grad of a non-terminal is C03's subject"]
    assumptions = ["operand values: any valuation in any field K with arbitrary conjugation function (real and complex mode alike); sqrt is an uninterpreted function in C06_pdet",
                   "inverse statements assume a non-zero (Gram) determinant"]

    def regenerate(self, ctx):
        from translate import compound
        files, insts = compound.render()
        self.insts = insts
        out = []
        for k, v in files.items():
            p = LEAN / "UflVerif" / "Gen" / (k + ".lean")
            out.append((p, write_if_changed(p, v)))
        errs = [r for r in insts if "error" in r]
        self.family_errors = errs
        return out

    # ---------------- operands
    def operand(self, G, shape, depth, fi=()):
        import ufl
        if all(d in (2, 3) for d in shape):
            return G.expr(shape, fi, depth)
        return ufl.as_tensor(nest(shape, lambda c: G.expr((), fi, max(depth - 1, 0)))) if shape else G.expr((), fi, depth)

    def build(self, group, a, b):
        import ufl
        import ufl.compound_expressions as ce
        f = {"trace": ufl.tr, "transposed": ufl.transpose, "sym": ufl.sym, "skew": ufl.skew, "dev": ufl.dev, "perp": ufl.perp,
             "cross": ufl.cross, "dot": ufl.dot, "inner": ufl.inner, "outer": ufl.outer, "det": ufl.det, "inv": ufl.inv, "cofac": ufl.cofac,
             "pdet": ce.determinant_expr, "pinv": ce.inverse_expr}[group]
        return f(a) if b is None else f(a, b)

    CORR_GROUPS = ["trace", "transposed", "sym", "skew", "dev", "perp", "cross", "dot", "inner", "outer", "det", "inv", "cofac"]

    def correspondence(self, ctx, ev):
        from ufl.algorithms.apply_algebra_lowering import apply_algebra_lowering
        from translate import compound
        rng = random.Random(ctx.seed * 9176 + 6)
        fam = [f for f in compound.family() if f[0] in self.CORR_GROUPS and all(d in (2, 3) for d in tuple(f[2]) + tuple(f[3] or ()))]
        n = 150 if ctx.quick else 2500
        reqs, meta, memo = [], [], {}
        self.keep = []
        hist = {}
        for k in range(n):
            group, opname, sa, sb, g = fam[k % len(fam)] if k < 2 * len(fam) else rng.choice(fam)
            G = gen.Gen(rng, gdim=2, math=False, compound=False, derivs=False, reuse=0.7, cond=(k % 4 == 0), variables=(k % 3 == 0))
            fi = ()
            if group in ("dot", "inner", "outer", "transposed", "sym") and rng.random() < 0.3:
                fi = (G.index(),)
            depth = rng.randint(0, 2)
            try:
                a = self.operand(G, sa, depth, fi)
                b = self.operand(G, sb, rng.randint(0, 2)) if sb is not None else None
                src = self.build(group, a, b)
                low = apply_algebra_lowering(src)
            except Exception as ex:  # noqa
                hist["build_failed"] = hist.get("build_failed", 0) + 1
                continue
            self.keep.append((G, a, b, src, low))
            hist[group] = hist.get(group, 0) + 1
            impl = "(ok %s)" % uflio.ser(low, memo)
            rq = "(lower %s %d %s%s)" % (group, g, uflio.ser(a, memo), (" " + uflio.ser(b, memo)) if b is not None else "")
            reqs.append(rq); meta.append((k, group, sa, sb, str(src)[:200], impl, low))
        replies = leandrv.run_driver("Lower", reqs)
        fails, unsupported, distinct = [], 0, set()
        self.mismatch = []
        for (k, group, sa, sb, srcs, impl, low), rq, rep in zip(meta, reqs, replies):
            if rep == "(unsupported)":
                unsupported += 1
                continue
            if rq.count("(O ") >= 2:
                distinct.add(rq)
            if canon(uflio.alpha(impl)) != canon(uflio.alpha(rep)):
                self.mismatch.append((k, group, srcs))
                if len(fails) < 10:
                    fails.append(Failure("correspondence", "lower:" + group, "case %d %s%s%s: %s | impl: %s | model: %s" % (
                        k, group, sa, sb or "", srcs, str(low)[:300], rep[:400]), case=rq[:4000]))
        ev.cov["evaluations"] = len(reqs)
        ev.cov["distinct_nontrivial"] = len(distinct)
        ev.cov["unsupported_skipped"] = unsupported
        ev.cov["traces_validated_against_impl"] = len(reqs) - unsupported
        ev.cov["operator_histogram"] = hist
        ev.cov["instances_regenerated"] = len(getattr(self, "insts", []))
        ev.cov["rule"] = ("operator x operand shapes from the family (dims 2,3) x generated operand expressions (index notation, re-used Index objects, free indices on "
                          "operands for dot/inner/outer/transposed/sym, conditionals, variables); non-trivial = distinct request whose operands contain >= 2 operator nodes")
        ev.cov["samples"] = [dict(op=m[1], shapes=[m[2], m[3]], expr=m[4]) for m in meta[:4]]
        for r in getattr(self, "family_errors", []):
            fails.append(Failure("translator", "family:%s%s" % (r["group"], r["shA"]), "the lowering refuses an operand shape of the instance family: " + r["error"]))
        return fails

    # ---------------- value oracle on the implementation (complex data)
    def cvals(self, rng, G):
        vals = {}
        def r():
            return complex(rng.randint(-6, 6) / rng.choice([1, 2, 4]), rng.randint(-6, 6) / rng.choice([1, 2, 4]))
        for t in G.terminals():
            if t is G.x:
                continue
            vals[t] = nest(t.ufl_shape, lambda c: r())
        tup = lambda v: tuple(tup(w) for w in v) if isinstance(v, list) else v
        return {t: tup(v) for t, v in vals.items()}

    def ev_all(self, e, x, m):
        return nest(e.ufl_shape, lambda c: complex(e(x, m, c)))

    def oracle_case(self, rng, k, fam):
        from ufl.algorithms.apply_algebra_lowering import apply_algebra_lowering
        import ufl
        group, opname, sa, sb, g = fam[k % len(fam)]
        G = gen.Gen(rng, gdim=2, math=False, compound=False, derivs=False, reuse=0.6, cond=False, variables=(k % 3 == 0), division=False, powers=(k % 2 == 0), minmax=False)
        a = self.operand(G, sa, rng.randint(0, 2))
        b = self.operand(G, sb, rng.randint(0, 2)) if sb is not None else None
        src = self.build(group, a, b)
        low = apply_algebra_lowering(src)
        m = self.cvals(rng, G)
        x = tuple(rng.randint(-3, 3) / 2 for _ in range(2))
        A = self.ev_all(a, x, m)
        B = self.ev_all(b, x, m) if b is not None else None
        L = self.ev_all(low, x, m)
        shL = tuple(low.ufl_shape)
        problems = []
        close = lambda u, v: abs(u - v) <= 1e-9 * max(1.0, abs(u), abs(v))
        if low.ufl_free_indices:
            problems.append("lowered expression has free indices %s" % (low.ufl_free_indices,))
        S = spec(group, A, B, sa, sb)
        if S is not None:
            want_shape = tuple(src.ufl_shape) if hasattr(src, "ufl_shape") else shL
            if shL != want_shape:
                problems.append("shape %s, operator has shape %s" % (shL, want_shape))
            else:
                for c in comps(shL):
                    if not close(get(L, c), get(S, c)):
                        problems.append("component %s: lowered %s, definition %s" % (list(c), get(L, c), get(S, c)))
                        break
        elif group == "inv":
            n = sa[0]
            d = det(A)
            if abs(d) > 1e-6:
                P = matmul(A, L)
                for i in range(n):
                    for j in range(n):
                        if not abs(P[i][j] - (1 if i == j else 0)) <= 1e-7 * max(1.0, 1 / abs(d)):
                            problems.append("A*inv(A)[%d,%d] = %s" % (i, j, P[i][j]))
        elif group == "pdet":
            Gm = matmul(transpose(A), A)
            # the pseudo-determinant is sqrt(det(A^T A)) (no conjugation in the code): compare squares
            if not close(L * L, det(Gm)):
                problems.append("pdet^2 = %s, det(A^T A) = %s" % (L * L, det(Gm)))
        elif group == "pinv":
            Gm = matmul(transpose(A), A)
            if abs(det(Gm)) > 1e-6:
                P = matmul(L, A)
                n = sa[1]
                if tuple(shL) != (sa[1], sa[0]):
                    problems.append("shape %s" % (shL,))
                else:
                    for i in range(n):
                        for j in range(n):
                            if not abs(P[i][j] - (1 if i == j else 0)) <= 1e-7 * max(1.0, 1 / abs(det(Gm))):
                                problems.append("pinv(A)*A[%d,%d] = %s" % (i, j, P[i][j]))
        return group, sa, sb, src, problems

    def oracle(self, ctx, ev):

        # zero operands (literal zeros and 0*A): the constructor shortcuts must give the shape and free indices of the operation
        import ufl as _u
        import gen as _g
        import random as _r
        rz = _r.Random(ctx.seed * 31 + 6)
        Gz = _g.Gen(rz, gdim=2, math=False, compound=False, derivs=False, reuse=0.5)
        self.zero_bad = []
        nz = 0
        mats = {sh: cs[0] for sh, cs in Gz.coeffs.items() if len(sh) == 2}
        vecs = {sh: cs[0] for sh, cs in Gz.coeffs.items() if len(sh) == 1}
        unary = [("transpose", _u.transpose), ("sym", _u.sym), ("skew", _u.skew), ("dev", _u.dev), ("tr", _u.tr)]
        for sh, A in mats.items():
            for nm, op in unary:
                if nm != "transpose" and sh[0] != sh[1]:
                    continue
                for Z in (_u.zero(*sh), 0 * A, _u.classes.Zero(sh)):
                    try:
                        want, got = op(A), op(Z)
                    except Exception:  # noqa
                        continue
                    nz += 1
                    if tuple(want.ufl_shape) != tuple(got.ufl_shape) or tuple(want.ufl_free_indices) != tuple(got.ufl_free_indices):
                        self.zero_bad.append("%s of a zero of shape %s has shape %s, of a non-zero operand %s" % (nm, sh, tuple(got.ufl_shape), tuple(want.ufl_shape)))
            for shv, v in vecs.items():
                for nm, op, a, b in (("dot", _u.dot, A, v), ("outer", _u.outer, A, v), ("dot", _u.dot, v, A), ("outer", _u.outer, v, A)):
                    for za, zb in ((0 * a, b), (a, 0 * b), (_u.zero(*a.ufl_shape), b)):
                        try:
                            want = op(a, b)
                        except Exception:  # noqa
                            continue
                        try:
                            got = op(za, zb)
                        except Exception as ex:  # noqa
                            self.zero_bad.append("%s with a zero operand of shapes %s, %s raises %s" % (nm, a.ufl_shape, b.ufl_shape, type(ex).__name__)); continue
                        nz += 1
                        if tuple(want.ufl_shape) != tuple(got.ufl_shape):
                            self.zero_bad.append("%s with a zero operand of shapes %s, %s has shape %s instead of %s" % (nm, a.ufl_shape, b.ufl_shape, tuple(got.ufl_shape), tuple(want.ufl_shape)))
        ev.cov["zero_operand_shape_checks"] = nz
        from translate import compound
        rng = random.Random(ctx.seed * 4243 + 606)
        fam = [f for f in compound.family() if f[0] not in compound.DIFF_GROUPS and f[0] != "innerswap"]
        # scalar-operand entry points of the constructors (conjugation conventions)
        fam += [("outer", "outer", (2,), (), 2), ("outer", "outer", (), (3,), 2), ("outer", "outer", (), (), 2), ("inner", "inner", (), (), 2),
                ("outer", "outer", (2, 2), (), 2)]
        n = len(fam) * (1 if ctx.quick else 12)
        out, seen, nchk = [], set(), 0
        for k in range(n):
            st = rng.getstate()
            try:
                group, sa, sb, src, problems = self.oracle_case(rng, k, fam)
            except ZeroDivisionError:
                continue          # singular operand data: nothing to compare
            except Exception as ex:  # noqa
                if "Division by zero" in str(ex):
                    continue      # structurally singular operand (a literal zero pivot): the inverse does not exist
                group, sa, sb, _, _ = fam[k % len(fam)][0], fam[k % len(fam)][2], fam[k % len(fam)][3], None, None
                key = "C06:raise:%s:%s:%s" % (group, sa, sb)
                if key not in seen:
                    seen.add(key)
                    out.append(Witness("lowering %s on operand shapes %s %s raises %s: %s" % (group, sa, sb, type(ex).__name__, str(ex)[:120]), key,
                                       dict(kind="raise", group=group, shA=sa, shB=sb, seed=ctx.seed, k=k)))
                continue
            nchk += 1
            if problems:
                key = "C06:value:%s:%s:%s" % (group, sa, sb)
                if key not in seen:
                    seen.add(key)
                    out.append(Witness("lowered %s of operand shapes %s %s: %s :: %s" % (group, sa, sb, problems[0], str(src)[:160]), key,
                                       dict(kind="value", group=group, shA=sa, shB=sb, seed=ctx.seed, k=k, problems=problems[:3])))
        out += self.diff_oracle(ctx, rng)
        for zb in getattr(self, "zero_bad", [])[:1]:
            out.append(Witness("compound operator on a zero operand: " + zb, "C06:zero-operand-shape:" + zb.split(" ")[0], dict(kind="zero-shape", seed=ctx.seed, detail=zb)))
        ev.cov["oracle_cases"] = nchk
        return out

    def diff_oracle(self, ctx, rng):
        """compound differential operators on a*f + b*g (f, g coefficients with random derivative data)"""
        import ufl
        from ufl.algorithms import expand_derivatives
        from translate import compound
        out = []
        for group, opname, sa, sb, g in [f for f in compound.family() if f[0] in compound.DIFF_GROUPS]:
            if not all(d in (2, 3) for d in sa):
                continue
            G = gen.Gen(rng, gdim=g, compound=False)
            if tuple(sa) not in G.coeffs:
                continue
            f = G.coeffs[tuple(sa)][0]
            c1, c2 = rng.choice([2, 3, -1]), rng.choice([0.5, 2.0])
            h = G.coeffs[()][0]
            e = c1 * f
            jets = {f: {}, h: {}}
            def mk(t):
                def fn(x, derivatives=()):
                    d = tuple(derivatives)
                    if d not in jets[t]:
                        jets[t][d] = nest(t.ufl_shape, lambda c: Fraction(rng.randint(-5, 5), rng.choice([1, 2])))
                    v = jets[t][d]
                    tup = lambda v: tuple(tup(w) for w in v) if isinstance(v, list) else v
                    return tup(v)
                return fn
            m = {f: mk(f), h: mk(h)}
            x = tuple(Fraction(1, 2) for _ in range(g))
            try:
                low = expand_derivatives(getattr(ufl, opname)(e))
                L = nest(low.ufl_shape, lambda c: low(x, m, c))
            except Exception as ex:  # noqa
                out.append(Witness("%s of a coefficient of shape %s raises %s" % (group, sa, type(ex).__name__), "C06:raise:%s:%s" % (group, sa), dict(kind="raise", group=group, shA=sa)))
                continue
            D = lambda c, i: c1 * get(m[f](x, (i,)), c)     # d e_c / d x_i
            if group == "div":
                S = nest(sa[:-1], lambda c: sum(D(c + (i,), i) for i in range(g)))
            elif group == "nabla_div":
                S = nest(sa[1:], lambda c: sum(D((i,) + c, i) for i in range(g)))
            elif group == "nabla_grad":
                S = nest((g,) + tuple(sa), lambda c: D(c[1:], c[0]))
            else:
                if sa == ():
                    S = [D((), 1), -D((), 0)]
                elif sa == (2,):
                    S = D((1,), 0) - D((0,), 1)
                else:
                    S = [D(((i + 2) % 3,), (i + 1) % 3) - D(((i + 1) % 3,), (i + 2) % 3) for i in range(3)]
            shS = tuple(low.ufl_shape)
            bad = None
            try:
                for c in comps(shS):
                    if get(L, c) != get(S, c):
                        bad = "component %s: %s, definition %s" % (list(c), get(L, c), get(S, c))
                        break
            except (IndexError, TypeError):
                bad = "shape %s differs from the operator's shape" % (shS,)
            if bad:
                out.append(Witness("lowered %s of a coefficient of shape %s: %s" % (group, sa, bad), "C06:value:%s:%s" % (group, sa), dict(kind="value", group=group, shA=sa)))
        return out

    def search(self, ctx, fails):
        # the oracle already ran on the implementation; run it deeper
        from copy import copy
        c2 = copy(ctx); c2.tier = "thorough"
        class E: cov = {}
        ws = self.oracle(c2, E())
        return ws[0] if ws else None

    def replay(self, ctx, data):
        d = data.get("data", {})
        if "k" not in d:
            ws = self.oracle(ctx, type("E", (), {"cov": {}})())
            return next((w for w in ws if w.key == data.get("key")), None)
        c2 = common.Ctx(pid="C06", tier="thorough", seed=int(d.get("seed", 0)))
        ws = self.oracle(c2, type("E", (), {"cov": {}})())
        return next((w for w in ws if w.key == data.get("key")), None)


PROP = C06()
