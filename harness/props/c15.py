"""C15 Integral grouping preserves what is integrated on each subdomain.
Tie (correspondence): the Lean model of group_form_integrals / rearrange_integrals_by_single_subdomains /
accumulate_integrands_with_same_metadata / build_integral_data / reconstruct_form_from_integral_data / canonicalize_metadata /
sorted_by_key / Form's integral ordering (Model/FormModel.lean, instantiated with the expression model in Model/FormExpr.lean,
Drivers/C15.lean) is compared integral-for-integral (order, subdomain tuples, metadata object, coordinate-derivative stack,
integrand tree after alpha-renaming) with the implementation on generated forms: int / tuple / everywhere / invalid subdomain
ids, metadata dicts with nested tuples, dicts and numpy arrays, coordinate derivatives (also the same directions in a different
order), several meshes, integral types and extra-domain maps, both append options, `domains` arguments that permute or omit meshes.
Oracle: the property read literally on the implementation's output: for every (domain, type, extra, subdomain label, metadata,
coordinate derivatives) the multiset of summands integrated there by the grouped form equals the multiset the original form
integrates there; every grouped integral lands in exactly one IntegralData with its own key."""
import random, collections, itertools, json, os, warnings
from fractions import Fraction
warnings.filterwarnings("ignore", message="Applying str.. to a metadata value")
import common
from common import Prop, Witness, Failure
import uflio, gen, leandrv
from props.c05 import canon as fcanon

leandrv.EXES["C15"] = "c15drv"

# Findings proposed by this property's builder that are not (yet) merged into known_findings.json: the lead either applies the
# proposed fix: commit or moves the entries into known_findings.json.  Until then they are honoured from this side file, through
# the same mechanism (a witness with a listed key prints KNOWN-FINDING; any other witness is a VIOLATION).
_SIDE = common.ROOT / "known_findings_C15.json"
_orig_load_known = common.load_known


def _load_known_with_side():
    k = _orig_load_known()
    if _SIDE.exists():
        have = {f.get("key") for f in k.get("findings", [])}
        for f in json.loads(_SIDE.read_text()).get("findings", []):
            if f.get("key") not in have:
                k.setdefault("findings", []).append(f)
    return k


common.load_known = _load_known_with_side


# ------------------------------------------------------------------ wire format
def E(s):
    r = uflio.enc(s)
    assert r, "empty atom"
    return r


def ser_md(v):
    import numpy as np
    if isinstance(v, dict):
        return "(dict (%s)%s)" % (" ".join(E(k) for k in v), "".join(" " + ser_md(x) for x in v.values()))
    if isinstance(v, (list, tuple)):
        return "(seq %d%s)" % (isinstance(v, tuple), "".join(" " + ser_md(x) for x in v))
    if isinstance(v, np.ndarray):
        return "(arr %s %s)" % (ser_md(v.tolist()), E(str(v)))
    if hasattr(v, "ufl_signature"):
        return "(leaf %s %s %s)" % (E(type(v).__name__), E(repr(v)), E(v.ufl_signature))
    return "(leaf %s %s %s)" % (E(type(v).__name__), E(repr(v)), E(str(v)))


def md_identity(v):
    """what 'the same metadata' means for the oracle: same nested structure and leaf values; a list and a tuple with the same
    items are the same value (the documented contract of canonicalize_metadata)"""
    import numpy as np
    if isinstance(v, dict):
        return ("dict", tuple(sorted((k, md_identity(x)) for k, x in v.items())))
    if isinstance(v, (list, tuple)):
        return ("seq", tuple(md_identity(x) for x in v))
    if isinstance(v, np.ndarray):
        return ("arr", str(v.dtype), v.shape, tuple(repr(x) for x in v.ravel().tolist()))
    return (type(v).__name__, repr(v))


def ser_canon(c):
    if isinstance(c, tuple):
        return "(t%s)" % "".join(" " + ser_canon(x) for x in c)
    if not isinstance(c, str):
        raise TypeError("canonical metadata element of type %s" % type(c).__name__)
    return "(s %s)" % E(c)


def ser_sid1(s):
    import numbers
    if isinstance(s, numbers.Integral):
        return "(int %d)" % int(s)
    if s == "otherwise":
        return "otherwise"
    if s == "everywhere":
        return "everywhere"
    return "bad"


def ser_sid(s):
    if isinstance(s, tuple):
        return "(tup%s)" % "".join(" " + ser_sid1(x) for x in s)
    return ser_sid1(s)


def split_top(s):
    """the top-level items of '(head item item ...)'"""
    assert s[0] == "(" and s[-1] == ")"
    body, out, depth, cur = s[1:-1], [], 0, []
    for ch in body:
        if ch == "(":
            depth += 1
        if ch == ")":
            depth -= 1
        if ch == " " and depth == 0:
            if cur:
                out.append("".join(cur))
            cur = []
        else:
            cur.append(ch)
    if cur:
        out.append("".join(cur))
    return out


def norm_reply(s):
    """alpha-rename indices per integral, round float literals"""
    if not s.startswith("(ok"):
        return s
    def norm_item(it):
        if it.startswith("(itg "):
            return fcanon(uflio.alpha(it))
        if it.startswith("(idata "):
            return "(" + " ".join(norm_item(x) for x in split_top(it)) + ")"
        return it
    return "(" + " ".join(norm_item(x) for x in split_top(s)) + ")"


class Ctxt:
    """per-case numbering of meshes, extra-domain maps and coordinate-derivative triples"""

    def __init__(self, meshes):
        from ufl.domain import sort_domains
        self.meshes = list(sort_domains(tuple(meshes)))
        self.extras = [()]
        self.cdtoks = []
        self.memo = {}
        self.keep = []

    def dom(self, m):
        for i, x in enumerate(self.meshes):
            if x is m or x == m:
                return i
        raise KeyError("mesh")

    def register_extras(self, integrals):
        seen = {(): ()}
        for itg in integrals:
            m = itg.extra_domain_integral_type_map()
            key = tuple((d._ufl_sort_key_(), t) for d, t in m.items())
            seen.setdefault(key, tuple(m.items()))
        self.extras = sorted(seen)           # () sorts first

    def extra(self, itg):
        key = tuple((d._ufl_sort_key_(), t) for d, t in itg.extra_domain_integral_type_map().items())
        return self.extras.index(key)

    def strip(self, e):
        from ufl.classes import CoordinateDerivative
        toks = []
        while isinstance(e, CoordinateDerivative):
            trip = tuple(e.ufl_operands[1:])
            for i, t in enumerate(self.cdtoks):
                if t == trip:
                    break
            else:
                self.cdtoks.append(trip)
                i = len(self.cdtoks) - 1
            toks.append((i,) + tuple(x._ufl_compute_hash_() for x in trip))
            e = e.ufl_operands[0]
        return toks, e

    def ser_integral(self, itg):
        toks, base = self.strip(itg.integrand())
        self.keep.append(base)
        return "(itg %s (cds%s) %s %d %s %s %d)" % (
            uflio.ser(base, self.memo), "".join(" (%d %d %d %d)" % t for t in toks), itg.integral_type(),
            self.dom(itg.ufl_domain()), ser_sid(itg.subdomain_id()), ser_md(itg.metadata()), self.extra(itg))

    def ser_integrals(self, integrals):
        return "(integrals%s)" % "".join(" " + self.ser_integral(i) for i in integrals)


def probe_cfg():
    """which canonicalisation of leaves the current tree implements (unchanged tree: '00'; fix_C15_1 applied: '10'; both: '11')"""
    import numpy as np
    from ufl.utils.sorting import canonicalize_metadata
    try:
        a = canonicalize_metadata({"a": np.array([1.0, 2.0])})[0][1]
        s = canonicalize_metadata({"a": "x"})[0][1]
    except Exception:
        return "00"
    return ("1" if isinstance(a, tuple) else "0") + ("1" if s == "'x'" else "0")


# ------------------------------------------------------------------ generation
MD_KEYS = ["quadrature_degree", "quadrature_rule", "scheme", "weights", "points", "opt", "sub", "element"]


class WithSignature:
    """a metadata value that is canonicalised by its `ufl_signature` attribute"""
    def __init__(self, sig): self.ufl_signature = sig
    def __repr__(self): return "WithSignature(%r)" % self.ufl_signature
    def __str__(self): return "<object>"
    def __eq__(self, o): return isinstance(o, WithSignature) and o.ufl_signature == self.ufl_signature
    def __hash__(self): return hash(self.ufl_signature)


class Opaque:
    """a metadata value of an unknown type: canonicalised by str() with a warning"""
    def __init__(self, name): self.name = name
    def __repr__(self): return "Opaque(%r)" % self.name
    def __str__(self): return "opaque-" + self.name
    def __eq__(self, o): return isinstance(o, Opaque) and o.name == self.name
    def __hash__(self): return hash(self.name)
WORDS = ["default", "vertex", "GLL", "canonical", "auto", "custom"]


def gen_md_value(rng, key, depth=0):
    import numpy as np
    if key == "element":
        return WithSignature(rng.choice(["P1", "P2", "RT1"])) if rng.random() < 0.6 else Opaque(rng.choice(["a", "b"]))
    if key in ("weights", "points"):
        r = rng.random()
        if r < 0.6:
            n = rng.randint(1, 4)
            return np.array([rng.choice([0.5, 0.25, 1.0, 0.125, 2.0, 0.75]) for _ in range(n)])
        if r < 0.8:
            return np.array([[rng.choice([0.5, 0.25, 1.0]) for _ in range(2)] for _ in range(rng.randint(1, 3))])
        if r < 0.9:
            return np.array([rng.randint(0, 5) for _ in range(rng.randint(1, 3))])
        return np.array(rng.choice([0.5, 2.0]))          # 0-d array
    r = rng.random()
    if r < 0.3:
        return rng.randint(0, 6)
    if r < 0.45:
        return rng.choice(WORDS)
    if r < 0.55:
        return rng.choice([0.5, 1.5, 2.0, 1e-3])
    if r < 0.62:
        return rng.choice([None, True, False])
    if r < 0.85 or depth >= 2:
        return tuple(gen_md_value(rng, "x", depth + 1) for _ in range(rng.randint(0, 3))) if depth < 2 else rng.randint(0, 3)
    return {k: gen_md_value(rng, k, depth + 1) for k in rng.sample(["a", "b", "degree"], rng.randint(0, 2))}


def gen_md(rng):
    r = rng.random()
    if r < 0.25:
        return {}
    ks = rng.sample(MD_KEYS, rng.randint(1, 3))
    return {k: gen_md_value(rng, k) for k in ks}


ITYPES_W = ["cell"] * 6 + ["exterior_facet"] * 2 + ["interior_facet", "vertex", "custom"]


class Case:
    pass


def gen_case(seed, quick=True, directed=None):
    """one form: integrals built directly (ids of every kind) and through measures"""
    import ufl
    import numpy as np
    from utils import LagrangeElement
    from ufl.classes import CoordinateDerivative, ExprList, ExprMapping
    rng = random.Random(seed)
    c = Case()
    c.seed = seed
    G = gen.Gen(rng, gdim=2, with_args=rng.random() < 0.5, math=False, compound=False, derivs=False, reuse=0.6,
                division=False, powers=False, minmax=False, cond=rng.random() < 0.3, variables=False)
    meshes = [G.mesh]
    if rng.random() < 0.3:
        meshes.append(ufl.Mesh(LagrangeElement(ufl.triangle, 1, (2,))))
    c.G = G
    c.meshes = meshes
    # integrand pool: generated scalars, two index-renamed copies of one contraction, literals
    pool = [G.expr((), (), rng.randint(0, 3)) for _ in range(rng.randint(2, 4))]
    f2, g2 = rng.choice(G.coeffs[(2,)]), rng.choice(G.coeffs[(2,)])
    i, j = ufl.Index(), ufl.Index()
    if rng.random() < 0.6:
        pool += [f2[i] * g2[i], f2[j] * g2[j]]
    if rng.random() < 0.4:
        pool += [ufl.as_ufl(rng.choice([2, 3, 0.5])), ufl.as_ufl(rng.choice([1, 0.25]))]
    if rng.random() < 0.3:
        pool.append(pool[0] + pool[1])
    pool = [ufl.as_ufl(p) for p in pool]
    VV = ufl.FunctionSpace(G.mesh, LagrangeElement(ufl.triangle, 1, (2,)))
    dirs = [ufl.Coefficient(VV) for _ in range(3)]
    X = G.x
    use_cd = rng.random() < 0.35

    def wrap(e):
        n = rng.choice([1, 1, 2, 2, 3])
        for v in [rng.choice(dirs[:2]) for _ in range(n)] if rng.random() < 0.7 else rng.sample(dirs, min(n, 3)):
            e = CoordinateDerivative(e, ExprList(X), ExprList(v), ExprMapping())
        return e

    mds = [gen_md(rng) for _ in range(rng.randint(1, 4))]
    if rng.random() < 0.3:
        mds.append(dict(mds[0]))                 # an equal copy: a different object with the same value
    idpool = rng.sample([0, 1, 2, 3, 4, 7, -1, 10], rng.randint(1, 4))
    n = rng.randint(1, 4) if rng.random() < 0.3 else rng.randint(3, 9)
    bad = None
    if rng.random() < 0.06:
        bad = rng.choice(["otherwise", ("otherwise",), "foo", (1, "otherwise")])     # 'foo' is what the model's `bad` label stands for
    integrals = []
    for q in range(n):
        e = rng.choice(pool)
        if use_cd and rng.random() < 0.6:
            e = wrap(e)
        t = rng.choice(ITYPES_W) if rng.random() < 0.8 else "cell"
        m = rng.choice(meshes)
        r = rng.random()
        if r < 0.3:
            sid = "everywhere"
        elif r < 0.65:
            sid = rng.choice(idpool)
        else:
            k = rng.choice([1, 2, 2, 3])
            sid = tuple(rng.choice(idpool) for _ in range(k)) if rng.random() < 0.2 else tuple(rng.sample(idpool, min(k, len(idpool))))
            if rng.random() < 0.04:
                sid = ()
        if bad is not None and q == n // 2:
            sid = bad
        md = rng.choice(mds)
        extra = None
        if len(meshes) > 1 and rng.random() < 0.25:
            other = [x for x in meshes if x is not m][0]
            extra = {other: rng.choice(["cell", "exterior_facet"])}
        integrals.append(ufl.Integral(e, t, m, sid, md, None, extra_domain_integral_type_map=extra))
    if directed:
        integrals = directed(ufl, np, G, pool, meshes)
    c.integrals = integrals
    c.opt = rng.random() < 0.6
    # the `domains` argument: the form's own domains, sometimes permuted, rarely with one missing
    r = rng.random()
    c.domains_mode = "own" if r < 0.8 else ("permuted" if r < 0.93 else "subset")
    c.pool = pool
    return c


# ------------------------------------------------------------------ the property, read literally
def flatten_sum(e):
    from ufl.classes import Sum
    out, todo = [], [e]
    while todo:
        x = todo.pop()
        if isinstance(x, Sum):
            todo.extend(x.ufl_operands)
        else:
            out.append(x)
    return out


def contribution(ctxt, integrand):
    """(sorted coordinate-derivative ids, multiset of non-literal summands, sum of the literal summands)"""
    from ufl.classes import IntValue, FloatValue, Zero
    toks, base = ctxt.strip(integrand)
    cnt, lit = collections.Counter(), Fraction(0)
    for s in flatten_sum(base):
        if isinstance(s, Zero):
            continue
        if isinstance(s, (IntValue, FloatValue)):
            lit += Fraction(s._value)
            continue
        cnt[fcanon(uflio.alpha(uflio.ser(s, ctxt.memo)))] += 1
    return tuple(sorted(t[0] for t in toks)), cnt, lit


def totals_add(tot, key, contrib, mult=1):
    cd, cnt, lit = contrib
    k = key + (cd,)
    c, l = tot.get(k, (collections.Counter(), Fraction(0)))
    c = c.copy()
    for s, n in cnt.items():
        c[s] += n * mult
    tot[k] = (c, l + lit * mult)


def clean(tot):
    return {k: (+c, l) for k, (c, l) in tot.items() if +c or l}


def expected_totals(ctxt, integrals, opt):
    import numbers
    buckets = collections.defaultdict(set)
    for itg in integrals:
        b = (ctxt.dom(itg.ufl_domain()), itg.integral_type(), ctxt.extra(itg))
        s = itg.subdomain_id()
        if isinstance(s, numbers.Integral):
            buckets[b].add(int(s))
        elif isinstance(s, tuple):
            buckets[b].update(int(x) for x in s)
    tot = {}
    for itg in integrals:
        b = (ctxt.dom(itg.ufl_domain()), itg.integral_type(), ctxt.extra(itg))
        mdk = md_identity(itg.metadata())
        con = contribution(ctxt, itg.integrand())
        s = itg.subdomain_id()
        if isinstance(s, numbers.Integral):
            totals_add(tot, b + (int(s), mdk), con)
        elif isinstance(s, tuple):
            for x in s:
                totals_add(tot, b + (int(x), mdk), con)
        elif s == "everywhere":
            totals_add(tot, b + ("otherwise", mdk), con)
            if opt:
                for x in sorted(buckets[b]):
                    totals_add(tot, b + (x, mdk), con)
    return clean(tot)


def actual_totals(ctxt, integrals):
    tot = {}
    for itg in integrals:
        b = (ctxt.dom(itg.ufl_domain()), itg.integral_type(), ctxt.extra(itg))
        mdk = md_identity(itg.metadata())
        con = contribution(ctxt, itg.integrand())
        s = itg.subdomain_id()
        for x in (s if isinstance(s, tuple) else (s,)):
            totals_add(tot, b + (x if x == "otherwise" else int(x), mdk), con)
    return clean(tot)


def describe_form(integrals, limit=6):
    return "; ".join("%s*%s(%s, md=%s)" % (str(i.integrand())[:40], i.integral_type(), i.subdomain_id(), str(i.metadata())[:60]) for i in integrals[:limit])


# ------------------------------------------------------------------ directed probes of the side conditions
def probe_forms():
    """(key, description, builder(ufl, np, G, pool, meshes) -> integrals): inputs on which the side condition of
    C15_meaning_partial / C15_no_merge_partial (canonicalisation injective on the form's metadata) fails"""
    def two(md1, md2, sid1=1, sid2=1):
        def b(ufl, np, G, pool, meshes):
            f, g = G.coeffs[()][0], G.coeffs[()][1]
            return [ufl.Integral(f, "cell", G.mesh, sid1, md1(np), None), ufl.Integral(g, "cell", G.mesh, sid2, md2(np), None)]
        return b
    def big(np, v):
        a = np.arange(1200.0)
        a[600] = v
        return a
    return [
        ("C15:metadata-merged:array-print-precision",
         "f*dx(1, metadata={'quadrature_weights': array([0.5, 0.5])}) + g*dx(1, metadata={'quadrature_weights': array([0.5, 0.5000000001])})",
         two(lambda np: {"quadrature_weights": np.array([0.5, 0.5])}, lambda np: {"quadrature_weights": np.array([0.5, 0.5000000001])})),
        ("C15:metadata-merged:array-summarised",
         "f*dx(1, metadata={'quadrature_points': arange(1200.)}) + g*dx(1, metadata={'quadrature_points': arange(1200.) with entry 600 := -7})",
         two(lambda np: {"quadrature_points": big(np, 600.0)}, lambda np: {"quadrature_points": big(np, -7.0)})),
        ("C15:metadata-merged:array-summarised-everywhere",
         "f*dx(metadata={'quadrature_points': arange(1200.)}) + g*dx(metadata={'quadrature_points': arange(1200.) with entry 600 := -7})",
         two(lambda np: {"quadrature_points": big(np, 600.0)}, lambda np: {"quadrature_points": big(np, -7.0)}, "everywhere", "everywhere")),
        ("C15:metadata-merged:int-vs-str",
         "f*dx(1, metadata={'quadrature_degree': 2}) + g*dx(1, metadata={'quadrature_degree': '2'})",
         two(lambda np: {"quadrature_degree": 2}, lambda np: {"quadrature_degree": "2"})),
        ("C15:metadata-merged:none-vs-str",
         "f*dx(1, metadata={'scheme': None}) + g*dx(1, metadata={'scheme': 'None'})",
         two(lambda np: {"scheme": None}, lambda np: {"scheme": "None"})),
    ]


# ------------------------------------------------------------------ end to end: compute_form_data / FormData
def pipeline_case(seed):
    """a rank-0 form over scalar coefficients built through measures; returns violations of the property read on
    compute_form_data(form).integral_data / .preprocessed_form and of the per-IntegralData coefficient bookkeeping"""
    import ufl
    from utils import LagrangeElement
    from ufl.algorithms import compute_form_data
    from ufl.algorithms.analysis import extract_coefficients
    from ufl.algorithms.replace import replace
    rng = random.Random(seed)
    cell = rng.choice([ufl.triangle, ufl.tetrahedron])
    gdim = 2 if cell == ufl.triangle else 3
    mesh = ufl.Mesh(LagrangeElement(cell, 1, (gdim,)))
    V = ufl.FunctionSpace(mesh, LagrangeElement(cell, rng.choice([1, 2])))
    fs = [ufl.Coefficient(V) for _ in range(rng.randint(2, 5))]
    mds = [gen_md(rng) for _ in range(rng.randint(1, 3))]

    def integrand():
        terms = []
        for _ in range(rng.randint(1, 3)):
            r = rng.random()
            a, b = rng.choice(fs), rng.choice(fs)
            terms.append(a if r < 0.4 else (rng.choice([2, 3, 0.5]) * a if r < 0.7 else a * b))
        e = terms[0]
        for t in terms[1:]:
            e = e + t
        return e
    pool = [integrand() for _ in range(rng.randint(2, 4))]

    def integrand_dS():
        # interior facets: every coefficient occurrence restricted at the terminal (what restriction propagation leaves untouched)
        terms = []
        for _ in range(rng.randint(1, 3)):
            r = rng.random()
            a, b = rng.choice(fs)(rng.choice("+-")), rng.choice(fs)(rng.choice("+-"))
            terms.append(a if r < 0.4 else (rng.choice([2, 3, 0.5]) * a if r < 0.7 else a * b))
        e = terms[0]
        for t in terms[1:]:
            e = e + t
        return e
    pool_dS = [integrand_dS() for _ in range(rng.randint(2, 4))]
    idpool = rng.sample([0, 1, 2, 3, 5], rng.randint(1, 3))
    form = None
    for _ in range(rng.randint(1, 7)):
        name = rng.choice(["dx", "dx", "dx", "ds", "ds", "dP", "dS", "dS"])
        r = rng.random()
        sid = "everywhere" if r < 0.35 else (rng.choice(idpool) if r < 0.7 else tuple(rng.sample(idpool, rng.randint(1, len(idpool)))))
        m = ufl.Measure(name, domain=mesh, subdomain_id=sid, metadata=rng.choice(mds))
        term = rng.choice(pool_dS if name == "dS" else pool) * m
        form = term if form is None else form + term
    opt = rng.random() < 0.6
    est = rng.random() < 0.6
    repl = rng.random() < 0.3
    out = []
    desc = describe_form(list(form.integrals()))
    try:
        fd = compute_form_data(form, do_append_everywhere_integrals=opt, do_estimate_degrees=est, do_replace_functions=repl)
    except Exception as ex:  # noqa
        if isinstance(ex, TypeError):
            # the only accepted raise: two integrals with the same integrand whose canonical metadata are not comparable with <
            # (sorted() inside accumulate_integrands_with_same_metadata; the model predicts it in the correspondence stream)
            from ufl.utils.sorting import canonicalize_metadata
            for a, b in itertools.combinations(mds, 2):
                try:
                    canonicalize_metadata(a) < canonicalize_metadata(b)
                except TypeError:
                    return [], "rejected: incomparable metadata", opt
        return [("pipeline-raises", "compute_form_data raised %s: %s" % (type(ex).__name__, str(ex)[:120]))], desc, opt
    ctxt = Ctxt([mesh])
    ctxt.register_extras(form.integrals())
    frm = fd.function_replace_map if repl else {}

    def strip_md(md):
        return {k: v for k, v in md.items() if k != "estimated_polynomial_degree"}

    class View:      # an integral seen with the metadata the user gave and the coefficients of the compiled form
        def __init__(self, itg, integrand=None, sid=None):
            self.i, self.e, self.s = itg, integrand, sid
        def ufl_domain(self): return self.i.ufl_domain()
        def integral_type(self): return self.i.integral_type()
        def extra_domain_integral_type_map(self): return self.i.extra_domain_integral_type_map()
        def subdomain_id(self): return self.i.subdomain_id() if self.s is None else self.s
        def metadata(self): return strip_md(self.i.metadata())
        def integrand(self): return self.i.integrand() if self.e is None else self.e
    exp = expected_totals(ctxt, [View(i, replace(i.integrand(), frm) if frm else None) for i in form.integrals()], opt)
    acts = {"integral_data": [View(i, sid=d.subdomain_id) for d in fd.integral_data for i in d.integrals],
            "preprocessed_form": [View(i) for i in fd.preprocessed_form.integrals()]}
    for nm, views in acts.items():
        act = actual_totals(ctxt, views)
        if act != exp:
            ks = sorted([k for k in set(exp) | set(act) if exp.get(k) != act.get(k)], key=str)
            k = ks[0]
            out.append(("pipeline-" + nm, "FormData.%s: on (%s, subdomain %s) with metadata %s it integrates %s, the original form %s" % (
                nm, k[1], k[3], str(k[4])[:100], _show(act.get(k)), _show(exp.get(k)))))
    for d in fd.integral_data:
        for i in d.integrals:
            if i.subdomain_id() != d.subdomain_id or i.integral_type() != d.integral_type:
                out.append(("pipeline-key", "integral over %s filed in IntegralData %s" % (i.subdomain_id(), d.subdomain_id)))
        inv = {v: k for k, v in frm.items()}
        used = set()
        for i in d.integrals:
            used.update(inv.get(c, c) for c in extract_coefficients(i.integrand()))
        if d.integral_coefficients is not None and set(d.integral_coefficients) != used:
            out.append(("pipeline-coefficients", "IntegralData %s lists coefficients %s, its integrands contain %s" % (
                d.subdomain_id, sorted(c.count() for c in d.integral_coefficients), sorted(c.count() for c in used))))
        if d.enabled_coefficients is not None and list(d.enabled_coefficients) != [c in used for c in fd.reduced_coefficients]:
            out.append(("pipeline-enabled", "IntegralData %s: enabled_coefficients %s for reduced coefficients %s but its integrands contain %s" % (
                d.subdomain_id, d.enabled_coefficients, [c.count() for c in fd.reduced_coefficients], sorted(c.count() for c in used))))
    return out, desc, opt


class C15(Prop):
    pid = "C15"
    lean_modules = ["UflVerif.Props.C15"]
    min_theorems = 13
    trusted = ["correspondence harness/props/c15.py + Drivers/C15.lean (Model/FormExpr.lean wire format)",
               "Python hash() of canonical metadata tuples is taken to be injective (the model groups by the canonical tuple itself); the Python hashes of "
               "coordinate-derivative operands are read from the live objects and summed by the model",
               "str() of metadata leaves (Python scalars, numpy arrays) is read from the live objects, not modelled",
               "modelled rather than verified: subdomain_data (dropped by group_form_integrals), the outermost-CoordinateDerivative check of strip_coordinate_derivatives, "
               "numpy integer subdomain ids; a TypeError inside sorted() is modelled by a pre-check (exact when at most two accumulated integrands tie; no other case has occurred in any run)"]
    assumptions = ["integrand operations are lawful (value of a+b is the sum of the values: C05; renumber_indices keeps values: C10); coordinate derivatives are additive",
                   "C15_meaning_partial / C15_no_merge_partial: canonicalisation (and hashing) injective on the metadata used in the form; coordinate-derivative stacks with the same hash sum act equally "
                   "(the sum is order-insensitive: stacks that are permutations of each other are merged)",
                   "domains without repetition containing every integral's domain; integral types registered in ufl.measure"]

    # ---------------- one case against model and property
    def run_case(self, c, cfg):
        """returns dict(req=[...], impl=[...], names=[...], oracle=[violation strings], info)"""
        import ufl
        from ufl.algorithms.domain_analysis import group_form_integrals, build_integral_data, reconstruct_form_from_integral_data
        from ufl.utils.sorting import canonicalize_metadata
        from ufl.measure import integral_types
        out = dict(req=[], impl=[], names=[], oracle=[], raised=False, n_out=0, merged=0)
        ctxt = Ctxt(c.meshes)
        ctxt.register_extras(c.integrals)
        c.ctxt = ctxt
        c.side_reqs, c.md_pairs = [], []
        itypes = "(%s)" % " ".join(integral_types())
        # Form.__init__ ordering
        try:
            form = ufl.Form(list(c.integrals))
            impl = "(ok%s)" % "".join(" " + ctxt.ser_integral(i) for i in form.integrals())
        except Exception as ex:  # noqa
            form, impl = None, "(raises)"
        out["req"].append("(sortform %s)" % ctxt.ser_integrals(c.integrals)); out["impl"].append(impl); out["names"].append("sortform")
        if form is None:
            return out
        own = [m for m in ctxt.meshes if any(i.ufl_domain() == m for i in form.integrals())]     # sort_domains order
        if c.domains_mode == "permuted":
            domains = list(reversed(own))
        elif c.domains_mode == "subset" and len(own) > 1:
            domains = own[:1]
        else:
            domains = own
        covered = all(any(i.ufl_domain() == d for d in domains) for i in form.integrals())
        try:
            Gf = group_form_integrals(form, domains, c.opt)
            gi = list(Gf.integrals())
            impl = "(ok%s)" % "".join(" " + ctxt.ser_integral(i) for i in gi)
        except Exception as ex:  # noqa
            Gf, gi, impl = None, None, "(raises)"
            out["raised"] = True
            out["raise_type"] = type(ex).__name__
        out["req"].append("(group %d %s %s (%s) %s)" % (c.opt, cfg, itypes, " ".join(str(ctxt.dom(d)) for d in domains), ctxt.ser_integrals(form.integrals())))
        out["impl"].append(impl); out["names"].append("group")
        c.form, c.grouped = form, Gf
        # metadata canonicalisation of every metadata object of the case, and comparisons of pairs
        mds = []
        for i in c.integrals:
            if not any(i.metadata() is m for m in mds):
                mds.append(i.metadata())
        for m in mds:
            try:
                impl = "(ok %s)" % ser_canon(canonicalize_metadata(m))
            except Exception:  # noqa
                impl = "(raises)"
            out["req"].append("(canon %s %s)" % (cfg, ser_md(m))); out["impl"].append(impl); out["names"].append("canon")
        for a, b in itertools.permutations(mds, 2):
            try:
                impl = "(ok %d)" % (canonicalize_metadata(a) < canonicalize_metadata(b))
            except TypeError:
                impl = "(raises)"
            out["req"].append("(mdlt %s %s %s)" % (cfg, ser_md(a), ser_md(b))); out["impl"].append(impl); out["names"].append("mdlt")
        # side condition of the theorems, evaluated by the MODEL's canonicalisation: distinct metadata have distinct canonical forms
        c.md_pairs = [(a, b) for a, b in itertools.combinations(mds, 2) if md_identity(a) != md_identity(b)]
        c.side_reqs = ["(mdeq %s %s %s)" % (cfg, ser_md(a), ser_md(b)) for a, b in c.md_pairs]
        if gi is None:
            return out
        out["n_out"] = len(gi)
        out["merged"] = sum(1 for i in gi if len(i.subdomain_id()) > 1)
        # build_integral_data / reconstruct on the grouped form
        try:
            ids = build_integral_data(Gf.integrals())
            impl = "(ok%s)" % "".join(" (idata %d %s %s %d%s)" % (ctxt.dom(d.domain), d.integral_type, ser_sid(d.subdomain_id),
                                      ctxt.extras.index(tuple((x._ufl_sort_key_(), t) for x, t in list(d.domain_integral_type_map.items())[1:])),
                                      "".join(" " + ctxt.ser_integral(i) for i in d.integrals)) for d in ids)
        except Exception:  # noqa
            ids, impl = None, "(raises)"
        out["req"].append("(build %s)" % ctxt.ser_integrals(gi)); out["impl"].append(impl); out["names"].append("build")
        if ids is not None:
            try:
                rf = reconstruct_form_from_integral_data(ids)
                impl = "(ok%s)" % "".join(" " + ctxt.ser_integral(i) for i in rf.integrals())
            except Exception:  # noqa
                impl = "(raises)"
            out["req"].append("(reconstruct %s)" % ctxt.ser_integrals(gi)); out["impl"].append(impl); out["names"].append("reconstruct")
            # literal reading of "grouped by domain, type, subdomain": a partition of the grouped integrals with matching keys
            seen_keys, n_in = set(), 0
            for d in ids:
                key = (ctxt.dom(d.domain), d.integral_type, d.subdomain_id, tuple(list(d.domain_integral_type_map.items())[1:]))
                if key in seen_keys:
                    out["oracle"].append(("integral-data-duplicate-key", "two IntegralData objects for %s" % (key[:3],)))
                seen_keys.add(key)
                for i in d.integrals:
                    n_in += 1
                    if (ctxt.dom(i.ufl_domain()), i.integral_type(), i.subdomain_id()) != key[:3]:
                        out["oracle"].append(("integral-data-key", "integral %s filed under %s" % (i.subdomain_id(), key[:3])))
            if n_in != len(gi):
                out["oracle"].append(("integral-data-count", "%d integrals in the integral data, %d in the grouped form" % (n_in, len(gi))))
        # build_integral_data directly on the ungrouped form (raises on 'everywhere' and non-tuple ids)
        try:
            ids0 = build_integral_data(form.integrals())
            impl = "(ok%s)" % "".join(" (idata %d %s %s %d%s)" % (ctxt.dom(d.domain), d.integral_type, ser_sid(d.subdomain_id),
                                      ctxt.extras.index(tuple((x._ufl_sort_key_(), t) for x, t in list(d.domain_integral_type_map.items())[1:])),
                                      "".join(" " + ctxt.ser_integral(i) for i in d.integrals)) for d in ids0)
        except Exception:  # noqa
            impl = "(raises)"
        import numbers
        if not any(i.subdomain_id() == "otherwise" or (isinstance(i.subdomain_id(), tuple) and any(not isinstance(x, numbers.Integral) and x != "otherwise" for x in i.subdomain_id()))
                   for i in form.integrals()):
            out["req"].append("(build %s)" % ctxt.ser_integrals(form.integrals())); out["impl"].append(impl); out["names"].append("build-raw")
        # the property
        if covered:
            exp = expected_totals(ctxt, list(form.integrals()), c.opt)
            act = actual_totals(ctxt, gi)
            if exp != act:
                ks = [k for k in set(exp) | set(act) if exp.get(k) != act.get(k)]
                k = sorted(ks, key=str)[0]
                kind = "meaning"
                # the same key up to metadata: integrands moved to another metadata value
                if any(k2[:4] == k[:4] and k2[5:] == k[5:] and k2[4] != k[4] for k2 in ks):
                    kind = "metadata-merged"
                out["oracle"].append((kind, "on (domain %s, %s, extra %s, subdomain %s) with metadata %s the grouped form integrates %s, the original form %s" % (
                    k[0], k[1], k[2], k[3], str(k[4])[:120], _show(act.get(k)), _show(exp.get(k)))))
        return out

    # ---------------- correspondence + oracle over the generated stream
    def correspondence(self, ctx, ev):
        base = random.Random(ctx.seed * 7919 + 15)
        n = 260 if ctx.quick else 5000
        cfg = probe_cfg()
        self.cfg = cfg
        self.bad, self.keep = [], []
        reqs, impls, meta = [], [], []
        side, sidemeta = [], []
        stats = collections.Counter()
        distinct = set()
        cases = []
        for k in range(n):
            seed = base.getrandbits(48)
            try:
                c = gen_case(seed, ctx.quick)
            except Exception as ex:  # noqa   (the generator itself hit a constructor check)
                stats["generator_rejected"] += 1
                continue
            try:
                r = self.run_case(c, cfg)
            except Exception as ex:  # noqa
                import traceback
                return [Failure("correspondence", "harness", "case seed %d: %s" % (seed, traceback.format_exc()[-1500:]))]
            self.keep.append(c)
            cases.append((c, r))
            for rq, im, nm in zip(r["req"], r["impl"], r["names"]):
                reqs.append(rq); impls.append(im); meta.append((seed, nm, c))
            for rq, pr in zip(c.side_reqs, c.md_pairs):
                side.append(rq); sidemeta.append((c, pr))
            stats["cases"] += 1
            stats["raised"] += r["raised"]
            stats["with_coordinate_derivatives"] += any(str(type(i.integrand()).__name__) == "CoordinateDerivative" for i in c.integrals)
            stats["two_meshes"] += len(c.meshes) > 1
            stats["opt_true"] += c.opt
            stats["domains_" + c.domains_mode] += 1
            stats["integrals_in"] += len(c.integrals)
            stats["integrals_out"] += r["n_out"]
            stats["out_with_several_subdomains"] += r["merged"]
            stats["everywhere_integrals"] += sum(1 for i in c.integrals if i.subdomain_id() == "everywhere")
            stats["tuple_ids"] += sum(1 for i in c.integrals if isinstance(i.subdomain_id(), tuple))
            stats["array_metadata"] += sum(1 for i in c.integrals if "arr" in ser_md(i.metadata()))
        replies = leandrv.run_driver("C15", reqs)
        fails, unsupported = [], 0
        by_name = collections.Counter()
        for (seed, nm, c), rq, im, rep in zip(meta, reqs, impls, replies):
            if rep == "(unsupported)":
                unsupported += 1
                continue
            by_name[nm] += 1
            a, b = norm_reply(im), norm_reply(rep)
            if a != b:
                if len(fails) < 8:
                    fails.append(Failure("correspondence", nm, "case seed %d (%s): impl %s | model %s" % (seed, describe_form(c.integrals, 4)[:300], a[:700], b[:700]), case=dict(seed=seed, request=rq[:4000])))
            elif nm == "group" and rq.count("(O ") >= 3 and a != "(raises)":
                distinct.add(a)
        # side condition (model canonicalisation injective on the case's metadata)
        srep = leandrv.run_driver("C15", side)
        violated = set()
        for (c, pr), rep in zip(sidemeta, srep):
            if rep == "(ok 1)":
                violated.add(id(c))
        stats["side_condition_violated_cases"] = len(violated)
        # a literal violation found in a case whose metadata the model canonicalises injectively is a defect of the grouping;
        # where the model itself predicts the merge, the case is one of the recorded canonicalisation findings
        self.random_violations = []
        for (c, r) in cases:
            for kind, what in r["oracle"]:
                tag = "canonicalisation" if id(c) in violated and kind == "metadata-merged" else kind
                self.random_violations.append((tag, what, dict(kind=tag, seed=c.seed, opt=c.opt, form=describe_form(c.integrals))))
        ev.cov["evaluations"] = len(reqs)
        ev.cov["distinct_nontrivial"] = len(distinct)
        ev.cov["requests_by_kind"] = dict(by_name)
        ev.cov["unsupported_skipped"] = unsupported
        ev.cov["traces_validated_against_impl"] = len(reqs) - unsupported
        ev.cov["canonicalisation_variant"] = cfg
        ev.cov["stream"] = dict(stats)
        ev.cov["rule"] = ("forms of 1-9 integrals built with ufl.Integral over 1-2 meshes, 11 weighted integral types, ids: everywhere / int / tuple (also with repeats, empty) / "
                          "6% invalid ('otherwise', strings, floats), metadata pools of 1-4 dicts (ints, words, floats, None/bool, nested tuples and dicts, numpy arrays 0-d/1-d/2-d) plus equal copies, "
                          "integrand pools with shared objects, index-renamed copies, literals and sums, 35% of cases with 1-3 nested CoordinateDerivatives over 2-3 directions (permuted orders occur), "
                          "extra-domain maps, both append options, domains argument own/permuted/subset; requests: Form ordering, group_form_integrals, build_integral_data (grouped and raw), "
                          "reconstruct_form_from_integral_data, canonicalize_metadata and < on every metadata pair; non-trivial = distinct grouped output with >= 3 operator nodes")
        ev.cov["samples"] = [dict(form=describe_form(c.integrals, 4), opt=c.opt, grouped=(describe_form(list(c.grouped.integrals()), 4) if getattr(c, "grouped", None) is not None else "raises"))
                             for c, r in cases[:3]]
        return fails

    # ---------------- oracle: random stream results + directed probes
    def run_probe(self, key, desc, builder, cfg):
        c = gen_case(12345, True, directed=builder)
        c.opt, c.domains_mode = True, "own"
        r = self.run_case(c, cfg)
        rep = leandrv.run_driver("C15", r["req"][:2] + c.side_reqs)
        model_merges = any(x == "(ok 1)" for x in rep[2:])
        agree = norm_reply(r["impl"][1]) == norm_reply(rep[1])
        return c, r, model_merges, agree

    def oracle(self, ctx, ev):
        out, seen = [], set()
        for tag, what, d in getattr(self, "random_violations", []):
            key = "C15:random:%s:%d" % (tag, d["seed"])
            if tag in seen:
                continue
            seen.add(tag)
            out.append(Witness(what="%s :: %s" % (what[:400], d["form"][:300]), key=key, data=d))
        # end to end through compute_form_data / FormData
        base = random.Random(ctx.seed * 6007 + 1515)
        npipe = 120 if ctx.quick else 2500
        nviol = nrej = 0
        for k in range(npipe):
            seed = base.getrandbits(48)
            viol, desc, opt = pipeline_case(seed)
            nrej += desc.startswith("rejected:")
            for kind, what in viol:
                nviol += 1
                if kind not in seen:
                    seen.add(kind)
                    out.append(Witness(what="%s :: %s" % (what[:400], desc[:300]), key="C15:%s:%d" % (kind, seed), data=dict(kind="pipeline", seed=seed, opt=opt, form=desc)))
        ev.cov["pipeline_cases"] = npipe
        ev.cov["pipeline_violations"] = nviol
        ev.cov["pipeline_rejected_incomparable_metadata"] = nrej
        cfg = getattr(self, "cfg", None) or probe_cfg()
        probes = {}
        for key, desc, builder in probe_forms():
            c, r, model_merges, agree = self.run_probe(key, desc, builder, cfg)
            viol = [w for k, w in r["oracle"]]
            probes[key] = dict(violates=bool(viol), model_predicts_merge=model_merges, model_agrees=agree)
            if not agree:
                out.append(Witness(what="model and implementation disagree on the probe %s" % desc, key=key + ":disagree", data=dict(kind="probe", probe=key, mode="disagree")))
            elif viol:
                out.append(Witness(what="%s :: %s" % (desc, viol[0][:300]), key=key, data=dict(kind="probe", probe=key, desc=desc)))
        ev.cov["side_condition_probes"] = probes
        # observation (not a verdict): stacks of coordinate derivatives that are permutations of each other share calc_hash
        # (C15_cd_key_order_insensitive) and are merged under the first stack; harmless iff the derivatives commute
        def cd_builder(ufl, np, G, pool, meshes):
            from ufl.classes import CoordinateDerivative, ExprList, ExprMapping
            from utils import LagrangeElement
            VV = ufl.FunctionSpace(G.mesh, LagrangeElement(ufl.triangle, 1, (2,)))
            v1, v2 = ufl.Coefficient(VV), ufl.Coefficient(VV)
            f, g = G.coeffs[()][0], G.coeffs[()][1]
            def cd(e, v):
                return CoordinateDerivative(e, ExprList(G.x), ExprList(v), ExprMapping())
            return [ufl.Integral(cd(cd(f, v1), v2), "cell", G.mesh, 1, {}, None), ufl.Integral(cd(cd(g, v2), v1), "cell", G.mesh, 1, {}, None)]
        c, r, _, agree = self.run_probe("cd-order", "permuted coordinate derivative stacks", cd_builder, cfg)
        ev.cov["observations"] = dict(permuted_coordinate_derivative_stacks_merged=(r["n_out"] == 1), model_agrees=agree)
        if not agree:
            out.append(Witness(what="model and implementation disagree on permuted coordinate-derivative stacks", key="C15:cd-order:disagree", data=dict(kind="probe", probe="cd-order")))
        return out

    def replay(self, ctx, data):
        d = data.get("data", data)
        cfg = probe_cfg()
        if d.get("kind") == "probe":
            for key, desc, builder in probe_forms():
                if key == d["probe"]:
                    c, r, model_merges, agree = self.run_probe(key, desc, builder, cfg)
                    if d.get("mode") == "disagree":
                        return None if agree else Witness(what="model and implementation disagree on the probe %s" % desc, key=key + ":disagree", data=d)
                    if r["oracle"]:
                        return Witness(what="%s :: %s" % (desc, r["oracle"][0][1][:300]), key=key, data=d)
                    return None
            return None
        if d.get("kind") == "pipeline":
            viol, desc, opt = pipeline_case(d["seed"])
            if viol:
                return Witness(what=viol[0][1][:400], key="C15:%s:%d" % (viol[0][0], d["seed"]), data=d)
            return None
        if "seed" in d:
            c = gen_case(d["seed"], True)
            c.opt = d.get("opt", c.opt)
            r = self.run_case(c, cfg)
            if r["oracle"]:
                return Witness(what=r["oracle"][0][1][:400], key="C15:random:%s:%d" % (r["oracle"][0][0], d["seed"]), data=d)
        return None

    def search(self, ctx, fails):
        for f in fails:
            if f.kind == "correspondence" and isinstance(f.case, dict) and "seed" in f.case:
                c = gen_case(f.case["seed"], True)
                r = self.run_case(c, probe_cfg())
                if r["oracle"]:
                    return Witness(what=r["oracle"][0][1][:400], key="C15:random:%s:%d" % (r["oracle"][0][0], f.case["seed"]),
                                   data=dict(kind=r["oracle"][0][0], seed=f.case["seed"], opt=c.opt, form=describe_form(c.integrals)))
        return None


def _show(v):
    if v is None:
        return "nothing"
    c, l = v
    return "{%s}%s" % (", ".join("%dx %s" % (n, s[:60]) for s, n in sorted(c.items())[:4]), (" + %s" % l) if l else "")


PROP = C15()
