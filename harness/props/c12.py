"""C12 Signatures do not depend on incidental numbering or process state.

Tie (correspondence, every run, same inputs for model and implementation):
  * rendering  : `CExpr.toExpr` (decimal reprs of structured terminals) == what harness/uflio.py serializes from the live objects
  * signature  : the model's pre-hash data (Model/Signature.lean `Sig.formData`), turned into a string by Python's own `str`
                 and hashed with sha512, == `form.signature()` — hex-exact, for forms built under shifted counters
  * ordering   : `cmp_expr` sign == `CExpr.cmpR` (== `Expr.cmp` of C29, theorem C12_cmpR_is_cmp) on pairs of sub-expressions
  * histories  : construction histories (Model/Renaming.lean `run`) executed with the real classes under a counter regime ==
                 the model's registers, tree for tree
  * renumbering: `renumber_indices` on integrands with large index counts == `Expr.renumber` (the model C10 ties), tree for tree
Oracle (the property read literally on the implementation): the same form program run under several states of the five
global counters (starting next to 9/10, 99/100, 999/1000 boundaries, with unrelated objects created in between) and, in
subprocesses, under several PYTHONHASHSEEDs, must give one signature; `renumber_indices` of the builds must agree too.
A failing case is attributed to its cause by comparing the two builds (which class of repr-compared terminals changed order,
or equal trees with different hash data); causes that are not among the recorded ones are reported as `C12:unexplained`.
"""
import json
import os
import random
import subprocess
import sys

import common
from common import Prop, Witness, Failure, LEAN, ROOT, write_if_changed
from translate import typecodes
import uflio, leandrv
import c12lib
from c12lib import Regime

leandrv.EXES["C12"] = "c12drv"
leandrv.EXES["C10"] = "c10drv"      # `(renumber e)`: the model of renumber_indices (Model/IndexPasses.lean)

def sign(x):
    return -1 if x < 0 else (1 if x > 0 else 0)


def impl_variant():
    """which comparators / Zero hash data the tree under test has (read from its own dispatch table and from one call)"""
    import ufl
    from ufl.classes import Zero
    from ufl.algorithms.signature import compute_terminal_hashdata
    from translate import ordervariant
    # the same translator output as Gen/OrderVariant.lean (`Expr.OrdCfg.live`, C29): "R" = repr comparators, "N" = numeric ones;
    # a mixture is neither of the two orderings this property analyses (theorem C12_live_variant does not compile either)
    order = ordervariant.variant()
    if order not in ("R", "N"):
        raise RuntimeError("ufl/sorting.py compares some of Constant / geometric quantities / Zero by repr and some by numbers: %r" % (ordervariant.read(),))
    z = Zero((), (5,), (2,))
    zfix = 0 if compute_terminal_hashdata(z, {})[z] == repr(z) else 1
    return order, zfix


# ---------------------------------------------------------------------------------------------- directed programs
def directed_programs():
    """small form programs, each exercising one counter class next to a digit boundary; name -> builder(C)"""
    import ufl
    from utils import LagrangeElement
    tri = ufl.triangle

    def mesh(C):
        C.other_meshes()
        return ufl.Mesh(LagrangeElement(tri, 1, (2,)))

    def S(m, deg=1, sh=()):
        return ufl.FunctionSpace(m, LagrangeElement(tri, deg, sh))

    def const_product(C):
        m = mesh(C); a, b = ufl.Constant(m), ufl.Constant(m)
        return (a * b) * ufl.dx(m)

    def const_sum_shapes(C):
        m = mesh(C); a, b = ufl.Constant(m), ufl.Constant(m, (2,))
        return (a + b[0] * b[1]) * ufl.dx(m)

    def mesh_geometry(C):
        m1, m2 = mesh(C), mesh(C)
        return ufl.CellVolume(m1) * ufl.CellVolume(m2) * ufl.dx(m1)

    def normal_sum(C):
        m1, m2 = mesh(C), mesh(C)
        return (ufl.FacetNormal(m1)[0] + ufl.FacetNormal(m2)[0]) * ufl.ds(m1)

    def coeff_product(C):
        m = mesh(C); f, g = ufl.Coefficient(S(m)), ufl.Coefficient(S(m))
        return (f * g + g) * ufl.dx(m)

    def index_contraction(C):
        m = mesh(C); v, w = ufl.Coefficient(S(m, 1, (2,))), ufl.Coefficient(S(m, 1, (2,)))
        i, j = ufl.Index(), ufl.Index()
        return ((v[i] * w[j]) * (w[i] * v[j])) * ufl.dx(m)

    def labels(C):
        m = mesh(C); f, g = ufl.Coefficient(S(m)), ufl.Coefficient(S(m))
        a, b = ufl.variable(f * g), ufl.variable(f + g)
        return (a * b + ufl.diff(a * a, a)) * ufl.dx(m)

    def zero_order(C):
        m = mesh(C); v = ufl.Coefficient(S(m, 1, (2,))); c1, c2 = ufl.Coefficient(S(m)), ufl.Coefficient(S(m))
        i, j = ufl.Index(), ufl.Index()
        A = ufl.conditional(ufl.lt(c1, 0), 0 * v[i], v[i]); B = ufl.conditional(ufl.lt(c2, 0), 0 * v[j], v[j])
        return ((A * B) * v[i]) * v[j] * ufl.dx(m)

    def zero_hashdata(C):
        m = mesh(C); v = ufl.Coefficient(S(m, 1, (2,))); c1 = ufl.Coefficient(S(m))
        i = ufl.Index()
        return ufl.conditional(ufl.lt(c1, 0), 0 * v[i], v[i]) * v[i] * ufl.dx(m)

    def two_domains(C):
        m1, m2 = mesh(C), mesh(C); f, g = ufl.Coefficient(S(m1)), ufl.Coefficient(S(m2))
        return f * ufl.dx(m2) + g * g * ufl.dx(m1) + f * ufl.ds(m1)

    def foreign_domain(C):
        m1, m2, m3 = mesh(C), mesh(C), mesh(C); f, g = ufl.Coefficient(S(m3)), ufl.Coefficient(S(m2))
        return (f * g) * ufl.dx(m1)

    return dict(const_product=const_product, const_sum_shapes=const_sum_shapes, mesh_geometry=mesh_geometry, normal_sum=normal_sum,
                coeff_product=coeff_product, index_contraction=index_contraction, labels=labels, zero_order=zero_order,
                zero_hashdata=zero_hashdata, two_domains=two_domains, foreign_domain=foreign_domain)


def directed_regimes():
    """each counter next to each boundary on its own, and all together"""
    out = [Regime(dict(index=0, coeff=0, const=0, label=0, mesh=0))]
    for b in (8, 9, 98, 99, 998, 999):
        out.append(Regime({k: b for k in ("index", "coeff", "const", "label", "mesh")}))
    for k in ("index", "coeff", "const", "label", "mesh"):
        for b in (9, 99):
            st = dict(index=3, coeff=3, const=3, label=3, mesh=3)
            st[k] = b
            out.append(Regime(st))
    out.append(Regime(dict(index=7, coeff=8, const=9, label=5, mesh=8), gapseed=11, pgap=0.5, maxgap=90))
    return out


def run_directed(name, regime):
    f = None
    with c12lib.counters(regime) as C:
        f = directed_programs()[name](C)
    return f


# ---------------------------------------------------------------------------------------------- attribution of a failing pair
def _rc_key(t):
    from ufl.classes import Constant, GeometricQuantity, Zero
    if type(t) is Constant:
        return ("Constant", t.count(), t.ufl_domain().ufl_id(), tuple(t.ufl_shape))
    if isinstance(t, GeometricQuantity):
        return (type(t).__name__, t._domain.ufl_id())
    if isinstance(t, Zero) and t.ufl_free_indices:
        return ("Zero", tuple(t.ufl_shape), tuple(t.ufl_free_indices), tuple(t.ufl_index_dimensions))
    return None


def _rc_terminals(form):
    from ufl.corealg.traversal import unique_pre_traversal
    out = {}
    for itg in form.integrals():
        for o in unique_pre_traversal(itg.integrand()):
            if o._ufl_is_terminal_:
                k = _rc_key(o)
                if k is not None:
                    out[k] = o
    return out


def _map_key(k, ca, cb):
    def m(cls, v):
        return cb[cls][ca[cls].index(v)]
    if k[0] == "Constant":
        return ("Constant", m("const", k[1]), m("mesh", k[2]), k[3])
    if k[0] == "Zero":
        return ("Zero", k[1], tuple(m("index", c) for c in k[2]), k[3])
    return (k[0], m("mesh", k[1]))


def attribute(fa, fb, commutes, zfix_equal):
    """why do two builds of one program have different signatures?  returns a sorted list of cause keys"""
    from ufl.sorting import cmp_expr
    from ufl.classes import Constant, Zero
    causes = set()
    if commutes:
        # the same objects up to renaming: only the hash data can differ
        if zfix_equal and any(k[0] == "Zero" for k in _rc_terminals(fa)):
            causes.add("C12:sigdata:Zero-free-index")
        return sorted(causes) or ["C12:unexplained:hashdata"]
    ca, cb = c12lib.count_sets(fa), c12lib.count_sets(fb)
    if any(len(ca[k]) != len(cb[k]) for k in ca):
        return ["C12:unexplained:different-objects"]
    ta, tb = _rc_terminals(fa), _rc_terminals(fb)
    ks = sorted(ta, key=repr)
    for i, k1 in enumerate(ks):
        for k2 in ks[i + 1:]:
            a1, a2 = ta[k1], ta[k2]
            if a1._ufl_typecode_ != a2._ufl_typecode_:
                continue
            try:
                b1, b2 = tb[_map_key(k1, ca, cb)], tb[_map_key(k2, ca, cb)]
            except (KeyError, ValueError):
                continue
            if sign(cmp_expr(a1, a2)) != sign(cmp_expr(b1, b2)):
                causes.add("C12:repr-order:" + ("Constant" if k1[0] == "Constant" else "Zero" if k1[0] == "Zero" else "GeometricQuantity"))
    if any(k[0] == "Zero" for k in ta) and not causes:
        pass
    return sorted(causes) or ["C12:unexplained:order"]


CAUSE_TEXT = {
    "C12:repr-order:Constant": "two Constants change their canonical order when a count or mesh id passes a power of ten (_cmp_terminal_by_repr compares decimal numerals as strings); Sum/Product store the operands in the other order and the signature changes",
    "C12:repr-order:GeometricQuantity": "two geometric quantities of one type on different meshes change their canonical order when a mesh id passes a power of ten (_cmp_terminal_by_repr); the signature changes",
    "C12:repr-order:Zero": "two Zeros with free indices change their canonical order when an index count passes a power of ten (_cmp_terminal_by_repr on a repr that contains index counts); the signature changes",
    "C12:sigdata:Zero-free-index": "the hash data of a Zero with free indices is its repr, which contains the raw index counts: the signature changes with the state of the Index counter although the form is the same up to renaming",
    "C12:hashseed:equal-count-constants": "two different Constants with the same explicitly given count are numbered in set iteration order by terminal_numbering: the signature depends on PYTHONHASHSEED",
}


class C12(Prop):
    pid = "C12"
    lean_modules = ["UflVerif.Props.C12"]
    min_theorems = 22
    trusted = ["translators harness/translate/typecodes.py (typecode table), harness/translate/ordervariant.py (which terminal comparators the tree has); correspondence harness/props/c12.py + harness/c12lib.py + Drivers/C12.lean",
               "Python's `str` of tuples/lists/bytes and hashlib.sha512 are applied by the harness to the model's pre-hash data to obtain the model's signature (so the comparison with form.signature() is hex-exact); "
               "equal pre-hash data gives equal signatures trivially; that different data gives different signatures is C11's assumption, not used here",
               "modelled rather than verified: CPython hash randomisation and set/dict iteration order (subprocess runs only); element reprs are opaque strings; "
               "Sum/Product are modelled past their argument checks and zero/literal folding (C05), every other constructor as plain node construction: that those never read a counter is checked on the "
               "implementation by the oracle (same program, shifted counters, trees equal up to renaming), not proved"]
    assumptions = ["domains are plain Mesh objects and spaces plain FunctionSpaces; integrals have an empty extra_domain_integral_type_map; metadata values are str/int/float/None; "
                   "MeshSequence, MixedFunctionSpace, BaseFormOperators and Cofunctions are outside the model",
                   "two meshes with the same ufl_id and different coordinate elements, and two Constants/Labels of one class with the same explicitly given count, are outside the model "
                   "(the latter is reported as a hash-seed finding by the oracle); every construction history creates objects with fresh counts",
                   "FloatValue reprs that are not exact short decimals travel as opaque strings"]

    def regenerate(self, ctx):
        text, n = typecodes.render()
        p = LEAN / "UflVerif/Gen/Typecodes.lean"
        return [(p.relative_to(LEAN), write_if_changed(p, text))]

    # ------------------------------------------------------------------------------------------ builds shared by tie and oracle
    def builds(self, ctx):
        if getattr(self, "_builds", None) is not None:
            return self._builds
        rng = random.Random(ctx.seed * 977 + 5)
        ncase = 40 if ctx.quick else 500
        nreg = 4 if ctx.quick else 6
        self.nreg = nreg
        self.regs = c12lib.regimes(rng, nreg)
        out = []          # (case, regime index, form | None, error)
        for c in range(ncase):
            for ri, r in enumerate(self.regs):
                try:
                    f, _ = c12lib.build_form(ctx.seed * 1000003 + c, r)
                    out.append((c, ri, f, None))
                except Exception as e:  # the program itself is rejected: must be rejected under every regime
                    out.append((c, ri, None, type(e).__name__))
        # clean stream: Constant counts and mesh ids stay inside one digit length, no Zero with free indices:
        # none of the recorded causes can occur, so any difference is new
        crng = random.Random(ctx.seed * 7919 + 3)
        self.clean_regs = []
        for _ in range(nreg):
            st = dict(index=crng.choice(c12lib.BOUNDARIES), coeff=crng.choice(c12lib.BOUNDARIES), label=crng.choice(c12lib.BOUNDARIES),
                      const=crng.choice([10, 20, 40, 100, 300, 1000]), mesh=crng.choice([10, 30, 60, 100, 500, 1000]))
            self.clean_regs.append(Regime(st, gapseed=crng.randrange(1 << 30), pgap=crng.choice([0.0, 0.3]), maxgap=2))
        clean = []
        for c in range(ncase):
            for ri, r in enumerate(self.clean_regs):
                try:
                    f, _ = c12lib.build_form(ctx.seed * 1000003 + 500000 + c, r, knobs=dict(zero_fi=False))
                    clean.append((c, ri, f, None))
                except Exception as e:
                    clean.append((c, ri, None, type(e).__name__))
        self._builds = (out, clean)
        return self._builds

    # ------------------------------------------------------------------------------------------ correspondence
    def correspondence(self, ctx, ev):
        import ufl
        from ufl.sorting import cmp_expr
        from ufl.corealg.traversal import unique_pre_traversal
        order, zfix = impl_variant()
        self.variant = (order, zfix)
        ev.cov["implementation_variant"] = dict(ordering="numeric comparators" if order == "N" else "repr comparators (current)",
                                               zero_hashdata="numbered free indices" if zfix else "repr (current)")
        fails = []
        builds, clean = self.builds(ctx)
        rng = random.Random(ctx.seed * 4243 + 12)
        keep = []

        # 1. signature: model data -> str -> sha512 == form.signature()
        sreqs, smeta = [], []
        skipped = 0
        for (c, ri, f, err) in builds + clean:
            if f is None:
                continue
            memo = {}
            try:
                rq = "(sig %d %s)" % (zfix, c12lib.form_s(f.integrals(), memo))
            except TypeError:
                skipped += 1
                continue
            keep.append((f, memo))
            sreqs.append(rq); smeta.append((c, ri, f))
        # directed programs too
        dprogs = directed_programs()
        dregs = directed_regimes()
        self.directed = {}
        for name in dprogs:
            for ri, r in enumerate(dregs):
                f = run_directed(name, r)
                self.directed[(name, ri)] = f
                memo = {}
                keep.append((f, memo))
                sreqs.append("(sig %d %s)" % (zfix, c12lib.form_s(f.integrals(), memo))); smeta.append((name, ri, f))
        def check_signatures(sreplies):
          nsig = 0
          for (c, ri, f), rq, rep in zip(smeta, sreqs, sreplies):
            nsig += 1
            impl = c12lib.sigof(f)
            if impl.startswith("raises:"):
                impl = "raises"
            model = "raises" if rep == "(raises)" else (c12lib.model_signature(rep) if rep.startswith("(ok") else rep)
            if impl != model and len(fails) < 8:
                fails.append(Failure("correspondence", "signature", "case %s regime %s: implementation %s model %s" % (c, ri, impl[:16], model[:16]), case=rq[:3000]))
          return nsig

        # 2. rendering of terminal reprs and 3. cmp_expr on pairs of sub-expressions
        treqs, creqs, cimpl, cmeta = [], [], [], []
        seen_t = set()
        for (c, ri, f, err) in builds:
            if f is None or ri > 1:
                continue
            nodes = []
            for itg in f.integrals():
                nodes += list(unique_pre_traversal(itg.integrand()))
            memo, memo2 = {}, {}
            keep.append((nodes, memo, memo2))
            try:
                for o in nodes:
                    if o._ufl_is_terminal_:
                        s = c12lib.cser(o, memo)
                        if s.startswith("(TP FloatValue") or s.startswith("(TP ComplexValue"):
                            continue      # a float literal whose repr is a rounded decimal / a complex literal travels as an opaque string (see cser)
                        if s not in seen_t and len(seen_t) < (400 if ctx.quick else 4000):
                            seen_t.add(s)
                            treqs.append("(toexpr %s %s)" % (s, uflio.ser(o, memo2)))
                scal = [o for o in nodes if not isinstance(o, (ufl.classes.MultiIndex, ufl.classes.Label))]
                pairs = []
                for _ in range(6 if ctx.quick else 10):
                    a, b = rng.choice(scal), rng.choice(scal)
                    pairs.append((a, b))
                # same-class pairs are where the terminal comparators are reached
                byc = {}
                for o in scal:
                    byc.setdefault(o._ufl_typecode_, []).append(o)
                for l in byc.values():
                    if len(l) >= 2:
                        pairs.append(tuple(rng.sample(l, 2)))
                for a, b in pairs:
                    creqs.append("(cmp %s %s)" % (c12lib.cser(a, memo), c12lib.cser(b, memo)))
                    cimpl.append(sign(cmp_expr(a, b)))
                    cmeta.append((c, ri, a, b))
            except TypeError:
                skipped += 1
        # directed terminal pairs next to the boundaries
        from utils import LagrangeElement
        ce = LagrangeElement(ufl.triangle, 1, (2,))
        dkeep = []
        for lo in (8, 9, 10, 98, 99, 100, 998, 999, 1000):
            m1, m2 = ufl.Mesh(ce, ufl_id=lo), ufl.Mesh(ce, ufl_id=lo + 1)
            V = ufl.FunctionSpace(m1, LagrangeElement(ufl.triangle, 1, (2,)))
            objs = [(ufl.Constant(m1, count=lo), ufl.Constant(m1, count=lo + 1)), (ufl.Constant(m1, count=5), ufl.Constant(m2, count=5)),
                    (ufl.Constant(m1, (2,), count=lo + 1), ufl.Constant(m1, (3,), count=lo)),
                    (ufl.CellVolume(m1), ufl.CellVolume(m2)), (ufl.FacetNormal(m1), ufl.FacetNormal(m2)),
                    (ufl.classes.Zero((), (lo,), (2,)), ufl.classes.Zero((), (lo + 1,), (2,))),
                    (ufl.classes.Zero((), (lo, lo + 1), (2, 3)), ufl.classes.Zero((), (lo + 1, lo + 2), (3, 2))),
                    (ufl.Coefficient(V, count=lo), ufl.Coefficient(V, count=lo + 1)),
                    (ufl.classes.Label(lo), ufl.classes.Label(lo + 1)),
                    (ufl.Coefficient(V, count=3)[ufl.Index(lo)], ufl.Coefficient(V, count=3)[ufl.Index(lo + 1)])]
            memo = {}
            dkeep.append((objs, memo))
            for a, b in objs:
                for x, y in ((a, b), (b, a)):
                    creqs.append("(cmp %s %s)" % (c12lib.cser(x, memo), c12lib.cser(y, memo)))
                    cimpl.append(sign(cmp_expr(x, y)))
                    cmeta.append(("directed", lo, x, y))
        # 4. construction histories (requests built here, one driver batch for everything below)
        hrng = random.Random(ctx.seed * 6151 + 77)
        nh = 40 if ctx.quick else 600
        hreqs, hexp, diverged = [], [], 0
        hsig = []
        for c in range(nh):
            I, spec = c12lib.gen_history(hrng, size=hrng.randint(10, 45 if ctx.quick else 70))
            for ri, r in enumerate(self.regs[:3] + self.clean_regs[:1]):
                try:
                    prog, nu, regs, form = c12lib.run_history(I, spec, r)
                except c12lib.Diverged:
                    diverged += 1
                    continue
                memo = {}
                keep.append((regs, memo, form))
                hreqs.append("(run %s %s %s)" % (order, nu, prog))
                hexp.append("(ok" + "".join(" " + c12lib.cser(x, memo) for x in regs) + ")")
                hsig.append((c, ri, form))
        allrep = leandrv.run_driver("C12", sreqs + treqs + creqs + hreqs)
        sreplies = allrep[:len(sreqs)]
        treplies = allrep[len(sreqs):len(sreqs) + len(treqs)]
        creplies = allrep[len(sreqs) + len(treqs):len(sreqs) + len(treqs) + len(creqs)]
        hreplies = allrep[len(sreqs) + len(treqs) + len(creqs):]
        nsig = check_signatures(sreplies)
        for rq, rep in zip(treqs, treplies):
            if rep != "(ok same)" and len(fails) < 12:
                fails.append(Failure("correspondence", "repr rendering", "model renders %s" % rep[:400], case=rq[:2000]))
        col = 0 if order == "R" else 1
        nz = 0
        for (c, ri, a, b), rq, i, rep in zip(cmeta, creqs, cimpl, creplies):
            nz += 1 if i else 0
            got = rep[4:-1].split() if rep.startswith("(ok ") else None
            if (got is None or int(got[col]) != i) and len(fails) < 16:
                fails.append(Failure("correspondence", "cmp_expr", "case %s/%s: implementation %d model %s on %s | %s" % (c, ri, i, rep, str(a)[:120], str(b)[:120]), case=rq[:2500]))

        for rq, e, rep in zip(hreqs, hexp, hreplies):
            if e != rep and len(fails) < 20:
                k = next((i for i, (x, y) in enumerate(zip(e, rep)) if x != y), 0)
                fails.append(Failure("correspondence", "construction history", "registers differ at char %d: implementation ...%s | model ...%s" % (k, e[max(0, k - 80):k + 200], rep[max(0, k - 80):k + 200]), case=rq[:4000]))
        self.hsig = hsig

        # 5. renumber_indices on the integrands of the histories and of the directed programs (large index counts) vs `Expr.renumber`
        from ufl.algorithms.renumbering import renumber_indices
        from props.c05 import canon
        rreqs, rimpl = [], []
        rmemo = {}
        rforms = [form for (_, _, form) in hsig][: (60 if ctx.quick else 600)] + [self.directed[k] for k in sorted(self.directed) if k[1] in (0, 2, 6)]
        # `Expr.renumber` rebuilds Sum/Product with `Expr.cmp` of Model/Order.lean, which follows the comparators of the tree under
        # test (Gen/OrderVariant.lean, regenerated by harness/common.py for every check)
        for form in rforms:
            for itg in form.integrals():
                e = itg.integrand()
                try:
                    r = renumber_indices(e)
                    impl = "(ok %s)" % uflio.ser(r, rmemo)
                except Exception as ex:  # noqa
                    r, impl = None, "(raises)"
                keep.append((e, r))
                rreqs.append("(renumber %s)" % uflio.ser(e, rmemo)); rimpl.append(impl)
        rreplies = leandrv.run_driver("C10", rreqs)
        runs = 0
        for rq, i, rep in zip(rreqs, rimpl, rreplies):
            if rep == "(unsupported)":
                runs += 1
                continue
            if canon(i) != canon(rep) and len(fails) < 24:
                fails.append(Failure("correspondence", "renumber_indices", "implementation %s | model %s" % (i[:300], rep[:300]), case=rq[:3000]))
        ev.cov["renumber_cases"] = len(rreqs)
        ev.cov["renumber_cases_unsupported_by_model"] = runs

        distinct = {rq for rq in sreqs if rq.count("(O ") >= 3}
        ev.cov["evaluations"] = len(sreqs) + len(treqs) + len(creqs) + len(hreqs) + len(rreqs)
        ev.cov["distinct_nontrivial"] = len(distinct)
        ev.cov["signature_cases_hex_exact"] = nsig
        ev.cov["terminal_reprs_rendered"] = len(treqs)
        ev.cov["cmp_pairs"] = len(creqs)
        ev.cov["cmp_pairs_nonzero"] = nz
        ev.cov["histories_run"] = len(hreqs)
        ev.cov["histories_rejected_by_generator_guard"] = diverged
        ev.cov["forms_outside_model_skipped"] = skipped
        ev.cov["regimes"] = [r.describe() for r in self.regs]
        ev.cov["traces_validated_against_impl"] = len(sreqs) + len(hreqs)
        ev.cov["rule"] = ("form programs (gen.Gen expressions + constants/geometric quantities/coefficients on 1-3 meshes, variables, Zeros with free indices, 1-4 integrals with subdomain ids and "
                          "metadata) built under %d counter regimes starting next to 9/10, 99/100, 999/1000 per counter with random gaps; model signature == implementation signature (hex) for every build; "
                          "cmp_expr sign == model on random and same-class sub-expression pairs and on directed boundary pairs; construction histories run for real vs Lean `run`; "
                          "non-trivial = distinct form request with >= 3 operator nodes" % len(self.regs))
        ev.cov["samples"] = [dict(case=c, regime=ri, signature=c12lib.sigof(f)[:16], form=str(f)[:160]) for (c, ri, f) in smeta[:4]]
        return fails

    # ------------------------------------------------------------------------------------------ oracle
    def _pair_witness(self, tag, case, ri0, fa, ri1, fb, regs, extra=None):
        """two builds of one program with different signatures: queued, attributed to their causes in one driver batch"""
        self.pending.append((tag, case, ri0, fa, ri1, fb, regs, extra))
        return []

    def _attribute_pending(self):
        reqs, slots, keep = [], [], []
        for k, (tag, case, ri0, fa, ri1, fb, regs, extra) in enumerate(self.pending):
            ca, cb = c12lib.count_sets(fa), c12lib.count_sets(fb)
            ren = c12lib.ren_s(ca, cb)
            try:
                ma, mb = {}, {}
                fas, fbs = c12lib.form_s(fa.integrals(), ma), c12lib.form_s(fb.integrals(), mb)
                keep.append((ma, mb))
                if ren is not None:
                    slots.append((k, len(reqs)))
                    reqs += ["(renform %s %s %s)" % (ren, fas, fbs), "(sig 1 %s)" % fas, "(sig 1 %s)" % fbs]
            except TypeError:
                pass
        rep = leandrv.run_driver("C12", reqs)
        info = {k: (rep[i] == "(ok true)", rep[i + 1] == rep[i + 2] and rep[i + 1].startswith("(ok")) for k, i in slots}
        out = []
        for k, (tag, case, ri0, fa, ri1, fb, regs, extra) in enumerate(self.pending):
            commutes, zeq = info.get(k, (False, False))
            for key in attribute(fa, fb, commutes, zeq):
                what = CAUSE_TEXT.get(key, "the same form program has different signatures under two states of the global counters (cause not among the recorded ones)")
                data = dict(kind=tag, case=case, seed=self.ctx_seed, regimes=[regs[ri0].describe(), regs[ri1].describe()], signatures=[c12lib.sigof(fa), c12lib.sigof(fb)],
                            trees_equal_up_to_renaming=commutes, forms=[str(fa)[:400], str(fb)[:400]])
                data.update(extra or {})
                out.append(Witness(what=what + " :: " + tag + " " + str(case), key=key, data=data))
        self.pending = []
        return out

    def _state_probe(self, tag, c, seed, reg):
        """a form g that shares every mesh / space / terminal with f but numbers the domains differently must get the signature
        it gets when it is the only form the process ever looked at (and vice versa).  False: not applicable; None: fine"""
        def derived(f):
            from ufl.domain import extract_domains
            from ufl import Form
            its = f.integrals()
            ms = list(extract_domains(f))
            if len(ms) >= 2:
                order = {m: k for k, m in enumerate(ms)}
                its = [it.reconstruct(domain=ms[(order[it.ufl_domain()] + 1) % len(ms)]) for it in its]
            elif len(its) >= 2:
                its = its[1:]
            return Form(list(its))

        def fresh():
            if tag == "random":
                return c12lib.build_form(seed * 1000003 + c, reg)[0]
            return run_directed(c, reg)
        try:
            g_alone = derived(fresh()); s_alone = c12lib.sigof(g_alone)
            f2 = fresh(); g2 = derived(f2)
            c12lib.sigof(f2); hash(f2); repr(f2)
            s_after = c12lib.sigof(g2)
            f3 = fresh(); s_f_alone = c12lib.sigof(f3)
            f4 = fresh(); g4 = derived(f4); c12lib.sigof(g4); s_f_after = c12lib.sigof(f4)
        except Exception:  # noqa
            return False
        if s_alone != s_after or s_f_alone != s_f_after:
            x, y = (s_alone, s_after) if s_alone != s_after else (s_f_alone, s_f_after)
            return Witness("the signature of a form depends on which other form sharing its spaces / terminals had its signature computed before "
                           "(process state): %s %s: alone %s.. / after the other form %s.." % (tag, c, x[:12], y[:12]),
                           "C12:unexplained:process-state", dict(kind="process-state", tag=tag, case=c, seed=seed, regime=reg.describe()))
        return None

    def oracle(self, ctx, ev):
        self.ctx_seed = ctx.seed
        self.pending = []
        from ufl.algorithms.renumbering import renumber_indices
        wit, seen = [], set()

        def add(ws):
            for w in ws:
                if w.key not in seen or w.key.startswith("C12:unexplained"):
                    seen.add(w.key)
                    wit.append(w)

        builds, clean = self.builds(ctx)
        ncmp = 0
        stats = dict(random_cases=0, random_cases_differing=0, clean_cases=0, directed_cases=0, directed_differing=0, renumber_checks=0)
        for tag, blist, regs in (("random", builds, self.regs), ("clean", clean, self.clean_regs)):
            bycase = {}
            for (c, ri, f, err) in blist:
                bycase.setdefault(c, []).append((ri, f, err))
            for c, lst in bycase.items():
                stats[tag + "_cases"] += 1
                errs = {e for (_, f, e) in lst if f is None}
                oks = [(ri, f) for (ri, f, e) in lst if f is not None]
                if errs and oks:
                    add([Witness("a form program is accepted under one state of the global counters and rejected under another :: %s %d" % (tag, c),
                                 "C12:unexplained:accept-reject", dict(kind=tag, case=c, seed=ctx.seed, errors=sorted(errs)))])
                    continue
                if not oks:
                    continue
                ri0, f0 = oks[0]
                differing = False
                for ri, f in oks[1:]:
                    ncmp += 1
                    if c12lib.sigof(f) != c12lib.sigof(f0):
                        differing = True
                        add(self._pair_witness(tag, c, ri0, f0, ri, f, regs))
                    else:
                        # renumber_indices must not re-introduce a dependence
                        if tag == "clean" or ri == 1:
                            stats["renumber_checks"] += 1
                            try:
                                if c12lib.sigof(renumber_indices(f)) != c12lib.sigof(renumber_indices(f0)):
                                    add([Witness("renumber_indices of the same form program differs under two states of the global counters :: %s %d" % (tag, c),
                                                 "C12:unexplained:renumber", dict(kind=tag, case=c, seed=ctx.seed))])
                            except Exception:
                                pass
                if differing and tag == "random":
                    stats["random_cases_differing"] += 1
        # histories built for the correspondence: same program, several regimes
        byh = {}
        for (c, ri, form) in getattr(self, "hsig", []):
            byh.setdefault(c, []).append((ri, form))
        hregs = self.regs[:3] + self.clean_regs[:1]
        for c, lst in byh.items():
            ri0, f0 = lst[0]
            for ri, f in lst[1:]:
                ncmp += 1
                if c12lib.sigof(f) != c12lib.sigof(f0):
                    add(self._pair_witness("history", c, ri0, f0, ri, f, hregs))
        # directed programs: every regime against the fresh process
        dregs = directed_regimes()
        failing_directed = {}
        for name in directed_programs():
            f0 = self.directed[(name, 0)] if hasattr(self, "directed") else run_directed(name, dregs[0])
            for ri in range(1, len(dregs)):
                f = self.directed[(name, ri)] if hasattr(self, "directed") else run_directed(name, dregs[ri])
                stats["directed_cases"] += 1
                ncmp += 1
                if c12lib.sigof(f) != c12lib.sigof(f0):
                    stats["directed_differing"] += 1
                    failing_directed.setdefault(name, []).append(ri)
                    add(self._pair_witness("directed", name, 0, f0, ri, f, dregs, extra=dict(program=name)))
        ev.cov["directed_programs_with_differing_signatures"] = {k: len(v) for k, v in failing_directed.items()}
        ev.cov["failing_pairs_attributed"] = len(self.pending)
        add(self._attribute_pending())

        # process state left on shared objects (see _state_probe)
        nstate = 0
        state_cases = [("random", c) for c in range(25 if ctx.quick else 250)] + [("directed", n) for n in ("two_domains", "foreign_domain", "mesh_geometry", "normal_sum")]
        for tag, c in state_cases:
            w = self._state_probe(tag, c, ctx.seed, self.regs[1 % len(self.regs)] if tag == "random" else dregs[0])
            if w is not False:
                nstate += 2
            if w:
                add([w])
        stats["process_state_checks"] = nstate
        ncmp += nstate

        # hash seeds and processes: the same (case, regime) built in a fresh interpreter under other PYTHONHASHSEEDs
        seeds = [0, 1] if ctx.quick else [0, 1, 2, 3, 7, 123456]
        nw = 30 if ctx.quick else 300
        here = {(c, ri): c12lib.sigof(f) for (c, ri, f, err) in builds if f is not None}
        hs_checked = 0
        for k, hseed in enumerate(seeds):
            ridx = k % self.nreg
            env = dict(os.environ, PYTHONHASHSEED=str(hseed))
            env["UFL_VERIF_REPO"] = str(common.REPO)
            p = subprocess.run([sys.executable, str(ROOT / "harness" / "c12lib.py"), "worker", str(ctx.seed), "0", str(nw), str(ridx), str(self.nreg)],
                               capture_output=True, text=True, env=env, timeout=3000)
            if p.returncode != 0:
                raise RuntimeError("hash-seed worker failed: " + p.stderr[-800:])
            for line in p.stdout.splitlines():
                parts = line.split()
                if len(parts) < 2 or parts[1] == "ERR":
                    continue
                c, s = int(parts[0]), parts[1]
                if (c, ridx) in here:
                    hs_checked += 1
                    if here[(c, ridx)] != s:
                        add([Witness("the same form program under the same counter state has another signature in a process with PYTHONHASHSEED=%d :: case %d" % (hseed, c),
                                     "C12:unexplained:hashseed", dict(kind="hashseed", case=c, seed=ctx.seed, regime=self.regs[ridx].describe(), hashseed=hseed,
                                                                    signatures=[here[(c, ridx)], s]))])
        # the one recorded hash-seed dependence: equal explicit counts of two Constants
        sigs = set()
        for hseed in ([0, 1, 2, 3] if ctx.quick else list(range(8))):
            p = subprocess.run([sys.executable, "-c", EQUAL_COUNT_PROBE], capture_output=True, text=True,
                               env=dict(os.environ, PYTHONHASHSEED=str(hseed), UFL_VERIF_REPO=str(common.REPO)), timeout=600)
            sigs.add(p.stdout.strip().splitlines()[-1] if p.stdout.strip() else "ERR " + p.stderr[-200:])
        if len(sigs) > 1 and not any(s.startswith("ERR") for s in sigs):
            add([Witness(CAUSE_TEXT["C12:hashseed:equal-count-constants"] + " :: Constant(m, (), count=5) * Constant(m, (2,), count=5)[0]**2 * dx",
                         "C12:hashseed:equal-count-constants", dict(kind="equal-count", signatures=sorted(sigs)))])
        ev.cov["oracle"] = dict(stats, signature_comparisons=ncmp, hashseed_processes=len(seeds), hashseed_signatures_compared=hs_checked,
                                equal_count_probe_signatures=len(sigs))
        ev.cov["evaluations"] += ncmp + hs_checked
        return wit

    # ------------------------------------------------------------------------------------------ replay
    def replay(self, ctx, data):
        d = data.get("data", data)
        self.ctx_seed = d.get("seed", 0)
        kind = d.get("kind")
        if kind == "process-state":
            return self._state_probe(d["tag"], d["case"], d["seed"], Regime.of(d["regime"])) or None
        if kind == "equal-count":
            sigs = set()
            for hseed in range(6):
                p = subprocess.run([sys.executable, "-c", EQUAL_COUNT_PROBE], capture_output=True, text=True,
                                   env=dict(os.environ, PYTHONHASHSEED=str(hseed), UFL_VERIF_REPO=str(common.REPO)), timeout=600)
                sigs.add(p.stdout.strip().splitlines()[-1] if p.stdout.strip() else "ERR")
            return Witness(CAUSE_TEXT["C12:hashseed:equal-count-constants"], "C12:hashseed:equal-count-constants", dict(signatures=sorted(sigs))) if len(sigs) > 1 else None
        if kind == "hashseed":
            r = Regime.of(d["regime"])
            f, _ = c12lib.build_form(d["seed"] * 1000003 + d["case"], r)
            return Witness("signature depends on the process / hash seed", "C12:unexplained:hashseed", d) if c12lib.sigof(f) != d["signatures"][1] else None
        if kind in ("random", "clean", "directed", "history"):
            r0, r1 = Regime.of(d["regimes"][0]), Regime.of(d["regimes"][1])
            if kind == "directed":
                fa, fb = run_directed(d["program"], r0), run_directed(d["program"], r1)
            elif kind == "history":
                hrng = random.Random(d["seed"] * 6151 + 77)
                I = spec = None
                for c in range(d["case"] + 1):
                    I, spec = c12lib.gen_history(hrng, size=hrng.randint(10, 45 if ctx.quick else 70))
                fa, fb = c12lib.run_history(I, spec, r0)[3], c12lib.run_history(I, spec, r1)[3]
            else:
                off = 500000 if kind == "clean" else 0
                kn = dict(zero_fi=False) if kind == "clean" else None
                fa, _ = c12lib.build_form(d["seed"] * 1000003 + off + d["case"], r0, knobs=kn)
                fb, _ = c12lib.build_form(d["seed"] * 1000003 + off + d["case"], r1, knobs=kn)
            if c12lib.sigof(fa) != c12lib.sigof(fb):
                return Witness("the same form program has signatures %s.. and %s.. under two states of the global counters" % (c12lib.sigof(fa)[:12], c12lib.sigof(fb)[:12]),
                               data.get("key", "C12:replay"), d)
            return None
        return None


EQUAL_COUNT_PROBE = r'''
import os, sys
sys.path.insert(0, os.environ.get("UFL_VERIF_REPO", "/repo")); sys.path.insert(1, os.path.join(os.environ.get("UFL_VERIF_REPO", "/repo"), "test"))
import ufl
from utils import LagrangeElement
m = ufl.Mesh(LagrangeElement(ufl.triangle, 1, (2,)), ufl_id=1)
f, g = ufl.Constant(m, (), count=5), ufl.Constant(m, (2,), count=5)
print(((f * g[0] ** 2) * ufl.dx(m)).signature())
'''

PROP = C12()
