"""C02 Gateaux derivatives are the true directional derivatives.
Ties.  (translator) Gen/DerivRules.lean holds the trees the real expand_derivatives returns for derivative(op(f, g), (f, g), (df, dg)) for
every scalar operator, and op(f, g) itself; Props/C02/Rules.lean proves each rule tree correct (Mathlib HasDerivAt), Props/C02/Tie.lean that
the hand model of the traversal reproduces every regenerated tree.  (correspondence) the hand model `gateauxD` (Model/Deriv.lean,
Drivers/C02.lean) is compared tree-for-tree with apply_derivatives(CoefficientDerivative(e, w, v, {})) on generated expressions (index
notation, algebra, powers, math functions, conditionals, min/max, variables, restrictions, gradients of form arguments, lowered
compound algebra) with whole coefficients w (one or two) and Coefficient / Argument directions; the driver also reports how often the
decidable side conditions DOK of the composition theorem C02_gateaux_value_partial (Props/C02/Compose.lean) hold.
Oracle / failing-input search on the implementation: the value of the expanded derivative against central finite differences of
tau -> F(w + tau v) over smooth polynomial fields, for whole coefficients, single components, tuples, second derivatives, gradient
terms and user-supplied coefficient_derivatives."""
import itertools, math, random, warnings
import common
from common import Prop, Witness, Failure, LEAN, write_if_changed
import uflio, gen, leandrv
import derivcommon as dc
from props.c05 import canon

leandrv.EXES["C02"] = "c02drv"

REFUSALS = (ValueError, NotImplementedError, ZeroDivisionError, ArithmeticError)


def at_kink(fun, h=1e-5):
    """one-sided difference quotients disagree: the sample point sits on a kink (min / max / abs / conditional at a tie), where no derivative exists;
    central differences at two step sizes agree there (piecewise linear), so derivcommon.fd alone does not notice"""
    f0, fp, fm = fun(0.0), fun(h), fun(-h)
    return any(abs((a - b) / h - (b - c) / h) > 1e-3 * max(1.0, abs(a - b) / h, abs(b - c) / h) for a, b, c in zip(fp, f0, fm))


# ------------------------------------------------------------------ fields for the finite-difference oracle
class CompDir:
    """direction that moves one component of a tensor: the scalar field `f` at component `comp`, zero elsewhere"""
    def __init__(self, shape, comp, f):
        self.shape, self.comp, self.f = tuple(shape), tuple(comp), f

    def __call__(self, x, derivatives=()):
        val = self.f(x, derivatives)
        def nest(sh, pre=()):
            if not sh:
                return val if pre == self.comp else 0.0
            return tuple(nest(sh[1:], pre + (i,)) for i in range(sh[0]))
        return nest(self.shape)


class CompOf:
    """the scalar field that is component `comp` of a tensor field"""
    def __init__(self, f, comp):
        self.f, self.comp, self.shape = f, tuple(comp), ()

    def __call__(self, x, derivatives=()):
        v = self.f(x, derivatives)
        for i in self.comp:
            v = v[i]
        return v


class Stack:
    """vector field made of scalar fields (a list-tensor direction)"""
    def __init__(self, fs):
        self.fs, self.shape = list(fs), (len(fs),)

    def __call__(self, x, derivatives=()):
        return tuple((f(x, derivatives) if f is not None else 0.0) for f in self.fs)


class Contract:
    """k |-> sum_j c[k + j] * v[j]  (a user-supplied derivative relation applied to the direction), with exact derivatives up to order 2"""
    def __init__(self, c, v, fshape):
        self.c, self.v, self.fshape = c, v, tuple(fshape)

    def comp(self, k, x, d):
        tot = 0.0
        for j in dc.comps(self.v.shape):
            a = lambda dd: self.c.comp(tuple(k) + tuple(j), x, dd)
            b = lambda dd: self.v.comp(tuple(j), x, dd)
            if len(d) == 0:
                tot += a(()) * b(())
            elif len(d) == 1:
                tot += a(d) * b(()) + a(()) * b(d)
            elif len(d) == 2:
                i, l = d
                tot += a(d) * b(()) + a((i,)) * b((l,)) + a((l,)) * b((i,)) + a(()) * b(d)
            else:
                raise OverflowError("derivative order > 2 of a product field")
        return tot

    def __call__(self, x, derivatives=()):
        d = tuple(derivatives)
        def nest(sh, pre=()):
            if not sh:
                return self.comp(pre, x, d)
            return tuple(nest(sh[1:], pre + (i,)) for i in range(sh[0]))
        return nest(self.fshape)


def fresh_like(ufl, w, rng, argument=False, number=7):
    V = w.ufl_function_space()
    return ufl.Argument(V, number) if argument else ufl.Coefficient(V)


class C02(Prop):
    pid = "C02"
    lean_modules = ["UflVerif.Props.C02.Compose", "UflVerif.Props.C02.Tie", "UflVerif.Props.C02.Rules"]
    theorem_prefix = "C02_"
    min_theorems = 34
    trusted = ["translator harness/translate/derivrules.py (embeds op(f, g) and the tree the real expand_derivatives returns for each operator)",
               "correspondence harness/props/c02.py + Drivers/C02.lean `(gateaux e (w v)*)`: hand model Model/Deriv.lean == apply_derivatives on the generated inputs only",
               "oracle harness/props/c02.py + harness/derivcommon.py: central finite differences (two step sizes, kinks skipped) of UFL's own point evaluation",
               "modelled rather than verified: differentiation with respect to single components / list-tensor variations, user-supplied coefficient_derivatives, "
               "derivatives that need fresh indices (tensor-valued intermediate products), erf / atan2 / Bessel functions, gradients of non-form-arguments (rewritten by the dispatcher's "
               "GradRuleset first), cellwise-constant coefficients under grad, the DAG caches (results are functions of structure), complex mode (the theorem is over the reals: conj = id, imag = 0); "
               "these are exercised by the oracle only"]
    assumptions = ["Smooth: non-zero denominators, positive bases of general powers (non-zero base or exponent >= 1 for a literal exponent), arguments off the kinks of abs / sqrt / ln / tan / acos / asin / "
                   "min / max, conditions locally constant in tau (C02_comparison_locally_constant: implied by a strictly decided comparison)",
                   "DOK (decidable, Model/DerivOK.lean; measured by the correspondence): the constructor simplifications met while building the derivative are those covered by the C05 value theorems "
                   "(no component tensor with a plain Indexed body under an indexing, no list-tensor collapse, as_tensor(A[ii], ii) -> A only when ii is not free in A), terminals named like a "
                   "differentiation variable are that Coefficient and its direction has the same shape",
                   "GFamily: the valuations along the line are the real interpretation and differ only in the differentiated coefficients (values and jets) by tau times the direction"]

    # ------------------------------------------------------------------ translator tie
    def regenerate(self, ctx):
        from translate import derivrules
        txt, recs = derivrules.render()
        self.recs = recs
        p = LEAN / "UflVerif" / "Gen" / "DerivRules.lean"
        return [(p, write_if_changed(p, txt))]

    # ------------------------------------------------------------------ generation
    def directed(self, rng, G, k):
        """expressions the property names that the type-directed generator does not (or rarely) produce"""
        import ufl
        from translate import derivrules
        E = G.expr
        C = G.coeffs
        kind = (k // 8) % 12
        us, fs = C[()][0], C[()][1]
        uv = C[(G.gdim,)][0]
        um = C[(G.gdim, G.gdim)][0]
        i, j = G.idxpool[0], G.idxpool[2]
        if kind in (0, 1, 2):      # one operator of the rule family on generated smooth operands (variable exponents, quotients, ...)
            names = sorted(derivrules.operators())
            name = names[(k // 96 + 5 * kind) % len(names)]
            ar, mk = derivrules.operators()[name]
            a = E((), (), rng.randint(0, 2))
            b = E((), (), rng.randint(0, 2))
            if name in ("power", "powerHalf5", "sqrt", "ln", "powerNeg1", "division"):
                a = a * a + 1 + rng.choice([0.25, 0.5])
            if name in ("acos", "asin"):
                a = ufl.sin(a) * 0.5
            return mk(a) if ar == 1 else mk(a, b)
        if kind == 3:              # gradient terms of the differentiated coefficient
            return rng.choice([lambda: ufl.inner(ufl.grad(us), ufl.grad(us)), lambda: ufl.inner(ufl.grad(uv), ufl.grad(uv)) * E((), (), 1),
                               lambda: ufl.dot(ufl.grad(us), ufl.grad(fs)) * us, lambda: us.dx(0) * E((), (), 1) + us * fs.dx(1),
                               lambda: ufl.div(uv) * us + ufl.div(uv) ** 2, lambda: ufl.grad(ufl.grad(us))[0, 1] * us,
                               lambda: ufl.grad(uv)[i, j] * ufl.grad(uv)[j, i] + ufl.grad(um)[0, 1, 0]])()
        if kind == 4:              # tensor-valued with gradients
            return rng.choice([lambda: ufl.grad(us) * us, lambda: ufl.grad(uv) * uv, lambda: ufl.sym(ufl.grad(uv)), lambda: ufl.as_vector(ufl.grad(uv)[i, j] * uv[j], i)])()
        if kind == 5:              # restrictions
            a = E((), (), 2)
            return rng.choice([lambda: a("+") * us("-"), lambda: (a * us)("+") + ufl.grad(us)("-")[0], lambda: ufl.jump(a * us), lambda: ufl.avg(uv)[0] * a("+")])()
        if kind == 6:              # variable exponent / literal base / nested powers
            a = E((), (), 1)
            base = a * a + 1.5
            return rng.choice([lambda: base ** us, lambda: 2 ** us, lambda: (us * us + 1) ** (fs * us), lambda: us ** 3 + us ** 0.5 + us ** -2, lambda: abs(us) ** 1.5])()
        if kind == 7:              # abs / sign / min / max / conditionals of the coefficient
            a = E((), (), 1)
            return rng.choice([lambda: abs(us * a), lambda: ufl.sign(us) * a, lambda: abs(uv[i]) * uv[i] * a, lambda: ufl.as_vector(abs(um[i, j]) * uv[j], i)[0],   # abs of an indexed operand: refused
                               lambda: ufl.max_value(us, a) * ufl.min_value(us * us, fs),
                               lambda: ufl.conditional(ufl.lt(us, a), us * us, a * us), lambda: ufl.conditional(ufl.And(ufl.gt(us, 0), ufl.lt(a, 1)), ufl.exp(us), us)])()
        if kind == 8:              # variables
            v1 = ufl.variable(us * fs)
            v2 = ufl.variable(ufl.sin(v1) + us)
            return v1 * v2 + ufl.variable(uv)[0] * v2
        if kind == 9:              # complex parts
            a = E((), (), 1)
            return ufl.conj(us * a) + ufl.real(us) * ufl.imag(a * us) + abs(ufl.conj(us))
        if kind == 10:             # index notation around the coefficient: transposes, own index re-use, list tensors of components
            return rng.choice([lambda: ufl.as_tensor(um[i, j], (j, i))[0, 1] * us, lambda: (lambda ii: ufl.as_vector([uv[(q + 1) % G.gdim] for q in range(G.gdim)])[ii] * uv[ii])(ufl.Index()),
                               lambda: ufl.as_tensor(um[i, j] * uv[j], (i,)), lambda: ufl.as_vector([uv[k0] for k0 in range(G.gdim)]),
                               lambda: ufl.as_matrix([[um[0, 0], us], [fs, um[1, 1] * us]]), lambda: ufl.as_tensor(uv[i] * uv[j], (i, j))[j, i]])()
        # kind == 11: lowered compound algebra
        return rng.choice([lambda: ufl.det(um), lambda: ufl.inner(um, um.T), lambda: ufl.tr(um * um), lambda: ufl.dev(um), lambda: ufl.cross(ufl.as_vector([us, fs, 1]), ufl.as_vector([1, us, 2]))])()

    def gen_case(self, rng, k):
        import ufl
        from ufl.algorithms.analysis import extract_coefficients
        g = rng.choice([2, 2, 3])
        G = gen.Gen(rng, gdim=g, with_args=(k % 5 == 1), math=(k % 2 == 0), compound=(k % 6 == 0), derivs=False, cond=(k % 3 == 0),
                    variables=(k % 4 == 0), reuse=0.7, minmax=(k % 5 == 0))
        e = None
        if k % 8 == 2:
            try:
                e = self.directed(rng, G, k)
            except Exception:   # noqa
                e = None
        if e is None:
            sh = rng.choice([(), (), (), (2,), (g,), (2, 2)])
            e = G.expr(sh, (), rng.randint(1, 4))
        e = ufl.as_ufl(e)
        if k % 9 == 4 and not e.ufl_free_indices:     # interior-facet restrictions of both sides
            try:
                e = e("+") * G.expr((), (), 1)("-") + e("-")
            except Exception:  # noqa
                pass
        pool = [c for cs in G.coeffs.values() for c in cs]
        present = list(extract_coefficients(e))
        ws = []
        n = 2 if k % 7 == 3 else 1
        for _ in range(n):
            cand = [c for c in (present if present and rng.random() < 0.9 else pool) if c not in ws]
            if cand:
                ws.append(rng.choice(cand))
        vs = [fresh_like(ufl, w, rng, argument=(k % 3 == 1), number=5 + t) for t, w in enumerate(ws)]
        return G, e, ws, vs

    # ------------------------------------------------------------------ correspondence
    def correspondence(self, ctx, ev):
        import ufl
        from ufl.algorithms.apply_algebra_lowering import apply_algebra_lowering
        from ufl.algorithms.apply_derivatives import apply_derivatives
        from ufl.classes import CoefficientDerivative, Zero
        fails = []
        for r in getattr(self, "recs", []):
            if "gateaux_error" in r:
                fails.append(Failure("translator", "rule:gateaux/" + r["name"], "expand_derivatives fails on an operator of the rule family: " + r["gateaux_error"]))
        rng = random.Random(ctx.seed * 9973 + 2)
        n = 260 if ctx.quick else 6000
        reqs, meta, keep = [], [], []
        memo = {}
        for k in range(n):
            try:
                G, e, ws, vs = self.gen_case(rng, k)
            except Exception:   # noqa   (generator dead end)
                continue
            keep.append((G, e, ws, vs))
            try:
                with warnings.catch_warnings():
                    warnings.simplefilter("ignore")
                    D = apply_algebra_lowering(ufl.derivative(e, tuple(ws), tuple(vs)))
            except Exception:   # noqa   (derivative() itself refuses)
                continue
            if not isinstance(D, CoefficientDerivative):
                continue
            e0, W, V, cd = D.ufl_operands
            try:
                with warnings.catch_warnings():
                    warnings.simplefilter("ignore")
                    r = apply_derivatives(D)
                impl = "(ok %s)" % uflio.ser(r, memo)
            except Exception as ex:  # noqa
                r, impl = None, "(raises)"
                keep.append(str(ex))
            keep.append((D, r))
            pairs = " ".join("(%s %s)" % (uflio.enc(repr(w)), uflio.ser(v, memo)) for w, v in zip(W.ufl_operands, V.ufl_operands))
            rq = "(gateaux %s %s)" % (uflio.ser(e0, memo), pairs)
            reqs.append(rq)
            reqs.append("(dok %s %s)" % (uflio.ser(e0, memo), pairs))
            meta.append((k, e, ws, vs, r, impl, e0))
        replies = leandrv.run_driver("C02", reqs)
        st = dict(agree=0, unsupported=0, both_raise=0, zero_result=0, wf=0, dok=0)
        distinct = set()
        classes = {}
        for t, (k, e, ws, vs, r, impl, e0) in enumerate(meta):
            rq, rep, okrep = reqs[2 * t], replies[2 * t], replies[2 * t + 1]
            if rep == "(unsupported)":
                st["unsupported"] += 1
                continue
            if canon(uflio.alpha(impl)) != canon(uflio.alpha(rep)):
                if len(fails) < 10:
                    fails.append(Failure("correspondence", "gateaux", "case %d: d/d(%s)[%s] of %s | impl: %s | model: %s" % (
                        k, ", ".join(str(w) for w in ws), ", ".join(str(v) for v in vs), str(e)[:200], (str(r)[:200] if r is not None else impl), rep[:300]), case=rq[:3000]))
                continue
            st["agree"] += 1
            if impl == "(raises)":
                st["both_raise"] += 1
                continue
            if isinstance(r, Zero):
                st["zero_result"] += 1
            elif rq.count("(O ") >= 3:
                distinct.add(rq)
                for o in set(x.split(" ")[0] for x in rq.split("(O ")[1:]):
                    classes[o] = classes.get(o, 0) + 1
            if okrep.startswith("(ok "):
                a, b = okrep[4:-1].split()
                st["wf"] += int(a)
                st["dok"] += int(a) * int(b)
        # the Grad handler on a coefficient with a user-supplied derivative relation: which of the two modelled variants is the code?
        variant = self.related_grad_variant(fails)
        ev.cov["grad_of_related_coefficient_handler"] = variant
        supported = st["agree"] - st["both_raise"]
        ev.cov["evaluations"] = len(meta)
        ev.cov["distinct_nontrivial"] = len(distinct)
        ev.cov["traces_validated_against_impl"] = st["agree"]
        ev.cov["correspondence_outcomes"] = st
        ev.cov["theorem_domain"] = dict(supported_results=supported, well_formed=st["wf"], side_conditions_DOK_hold=st["dok"])
        ev.cov["operator_classes_in_nontrivial_cases"] = dict(sorted(classes.items()))
        ev.cov["rules_regenerated"] = len(getattr(self, "recs", []))
        ev.cov["rule"] = ("correspondence: expand_derivatives(derivative(e, w, v)) on generated e (arithmetic, index notation with index re-use, math functions, division, powers, conditionals, min/max, "
                          "variables, lowered compound algebra; every 8th case directed: rule-family operators on generated operands, variable exponents, gradient terms of w, restrictions, "
                          "complex parts, transposes / list tensors of components) with one or two whole coefficients w and fresh Coefficient / Argument directions, tree-exact after alpha-renaming; "
                          "non-trivial = distinct request with >= 3 operator nodes whose derivative is not Zero; theorem_domain = in how many supported cases WF and the side conditions DOK hold")
        ev.cov["samples"] = [dict(expr=str(e)[:100], w=[str(w) for w in ws], v=[str(v) for v in vs], result=str(r)[:120]) for (k, e, ws, vs, r, impl, e0) in meta[:3]]
        return fails

    def related_grad_variant(self, fails):
        import ufl
        from utils import LagrangeElement
        from ufl.algorithms.apply_derivatives import GateauxDerivativeRuleset
        from ufl.classes import ExprList, ExprMapping, Grad
        cell = ufl.triangle
        mesh = ufl.Mesh(LagrangeElement(cell, 1, (2,)))
        seen = set()
        for sh in [(), (2,), (2, 2)]:
            V = ufl.FunctionSpace(mesh, LagrangeElement(cell, 2, sh))
            S = ufl.FunctionSpace(mesh, LagrangeElement(cell, 2))
            f, c, w, v = ufl.Coefficient(V), ufl.Coefficient(V), ufl.Coefficient(S), ufl.Coefficient(S)
            for g in (Grad(f), Grad(Grad(f))):
                rs = GateauxDerivativeRuleset(ExprList(w), ExprList(v), ExprMapping(f, c))
                try:
                    impl = "(ok %s)" % uflio.ser(rs(g))
                except NotImplementedError:
                    impl = "(raises)"
                except Exception as ex:  # noqa
                    impl = "(crash %s)" % type(ex).__name__
                reps = leandrv.run_driver("C02", ["(gradrelated 0 %s)" % uflio.ser(g), "(gradrelated 1 %s)" % uflio.ser(g)])
                which = [name for name, rep in zip(("returns Zero (the relation is ignored: wrong value, C02_cd_grad_counterexample)", "raises (C02_cd_grad_refuses)"), reps) if canon(rep) == canon(impl)]
                if not which:
                    fails.append(Failure("correspondence", "grad-of-related-coefficient", "grad handler on a coefficient with a user-supplied derivative: impl %s, model variants %s" % (impl[:200], reps)))
                seen |= set(which)
        return sorted(seen)

    # ------------------------------------------------------------------ oracle
    KINDS = ["whole", "whole", "component", "tuple", "second", "grad", "cd", "whole", "directed", "cdgrad", "gradcomp", "cd2"]

    def fields(self, rng, G, exprs, extra=()):
        import ufl
        from ufl.algorithms.analysis import extract_type
        m = {}
        g = G.gdim
        ts = set(extra)
        for ex in exprs:
            for cls in (ufl.classes.Coefficient, ufl.classes.Constant, ufl.classes.Argument):
                ts |= set(extract_type(ex, cls))
        for t in sorted(ts, key=lambda t: (type(t).__name__, repr(t))):
            if isinstance(t, ufl.classes.Constant):
                def nest(sh):
                    return tuple(nest(sh[1:]) for _ in range(sh[0])) if sh else rng.uniform(0.5, 1.5)
                m[t] = nest(tuple(t.ufl_shape))
            else:
                m[t] = dc.Field(rng, t.ufl_shape, g)
        return m

    def one(self, rng, k):
        """returns (kind, description, problems) or None"""
        import ufl
        from ufl.algorithms import expand_derivatives
        from ufl.algorithms.analysis import extract_coefficients
        kind = self.KINDS[k % len(self.KINDS)]
        g = rng.choice([2, 2, 3])
        G = gen.Gen(rng, gdim=g, math=(k % 2 == 0), compound=(k % 3 == 0), derivs=False, cond=(k % 5 == 0), variables=(k % 4 == 0), reuse=0.6, minmax=(k % 7 == 0))
        C = G.coeffs
        sh = rng.choice([(), (), (), (2,), (g,), (2, 2)])
        pool = [c for cs in C.values() for c in cs]
        dirs = {}        # coefficient -> direction callable factory (given the field mapping)
        cdmap = None
        moves2 = None
        if kind == "directed":
            F = self.directed(rng, G, 8 * rng.randrange(12 * 40) + 2)
            F = ufl.as_ufl(F)
            if any(isinstance(o, ufl.classes.Restricted) for o in ufl.corealg.traversal.unique_pre_traversal(F)):
                return None
        elif kind in ("grad", "cdgrad", "gradcomp"):
            us, fs, uv = C[()][0], C[()][1], C[(g,)][0]
            E = G.expr((), (), 2)
            F = rng.choice([lambda: ufl.inner(ufl.grad(us), ufl.grad(us)) * E, lambda: ufl.inner(ufl.grad(uv), ufl.grad(uv)) + E * us,
                            lambda: ufl.dot(ufl.grad(us), ufl.grad(fs)) * us + E, lambda: us.dx(0) * E + ufl.sin(us.dx(g - 1)) * fs,
                            lambda: ufl.div(uv) * E * us + ufl.div(uv * us), lambda: ufl.inner(ufl.grad(ufl.grad(us)), ufl.grad(uv)) * us,
                            lambda: ufl.exp(ufl.inner(ufl.grad(us), ufl.grad(us)) * 0.1) + ufl.grad(us * fs)[0]])()
        else:
            F = G.expr(sh, (), rng.randint(1, 3))
        F = ufl.as_ufl(F)
        if kind == "gradcomp":      # make sure both a scalar and a vector coefficient occur, also under gradients
            us, uv = C[()][0], C[(g,)][0]
            F = F + rng.choice([lambda: ufl.inner(ufl.grad(uv), ufl.grad(uv)) * us, lambda: ufl.div(uv) * us.dx(0) + uv[0] * us,
                                lambda: ufl.dot(ufl.grad(us), uv) + ufl.grad(uv)[0, g - 1] ** 2])()
        if kind == "component" and not any(len(c.ufl_shape) == 2 for c in extract_coefficients(F)):
            wt, wm = C[(g,)][0], C[(2, 3)][0]
            F = F * (wt[0] * wt[g - 1] + 2) + F * (wm[0, 1] * wm[1, 0] + wm[1, 2] * wm[0, 2])
        if kind == "tuple" and len(extract_coefficients(F)) < 2:
            F = F * (C[()][0] + C[()][1] * C[()][1] + 2)
        present = list(extract_coefficients(F))
        if not present or F.ufl_free_indices:
            return None
        desc = kind
        with warnings.catch_warnings():
            warnings.simplefilter("ignore")
            if kind in ("whole", "directed", "grad", "second"):
                w = rng.choice(present)
                v = fresh_like(ufl, w, rng, argument=(k % 3 == 1))
                dF = ufl.derivative(F, w, v)
                moves = [(w, lambda m, v=v: m[v])]
                extra = [v]
                if kind == "second":
                    v2 = fresh_like(ufl, w, rng)
                    base = expand_derivatives(dF)
                    dF = ufl.derivative(dF, w, v2)
                    moves = [(w, lambda m, v2=v2: m[v2])]
                    extra = [v, v2]
                    Fbase = base
                else:
                    Fbase = F
                desc += " derivative w.r.t. a coefficient of shape %s of an expression of shape %s" % (tuple(w.ufl_shape), tuple(F.ufl_shape))
            elif kind == "component":
                cand = [c for c in present if c.ufl_shape]
                if not cand:
                    return None
                rank2 = [c for c in cand if len(c.ufl_shape) == 2]
                w = rng.choice(rank2) if rank2 and rng.random() < 0.6 else rng.choice(cand)
                comp = tuple(rng.randrange(d) for d in w.ufl_shape)
                if len(comp) == 2 and comp[0] == comp[1]:          # off-diagonal components tell (i, j) from (j, i)
                    comp = (comp[0], (comp[1] + 1) % w.ufl_shape[1])
                v0 = ufl.Coefficient(ufl.FunctionSpace(G.mesh, gen_scalar_element(G)))
                dF = ufl.derivative(F, w[comp], v0)
                moves = [(w, lambda m, w=w, comp=comp, v0=v0: CompDir(w.ufl_shape, comp, m[v0]))]
                extra = [v0]
                Fbase = F
                desc += " derivative w.r.t. component %s of a coefficient of shape %s" % (list(comp), tuple(w.ufl_shape))
            elif kind == "gradcomp":
                # components / indexed directions / list-tensor directions with gradient terms in F (the Grad handler's case analysis)
                us, uv = C[()][0], C[(g,)][0]
                S = ufl.FunctionSpace(G.mesh, gen_scalar_element(G))
                vv = ufl.Coefficient(uv.ufl_function_space())
                v0, v1 = ufl.Coefficient(S), ufl.Coefficient(S)
                var = rng.randrange(4)
                Fbase = F
                if var == 0 and uv in present:      # d/dt [w[c] + t v0]
                    comp = (rng.randrange(g),)
                    dF = ufl.derivative(F, uv[comp], v0)
                    moves = [(uv, lambda m, comp=comp, v0=v0: CompDir(uv.ufl_shape, comp, m[v0]))]
                    extra = [v0]
                    desc += " w[c] with a scalar direction"
                elif var == 1 and uv in present:    # d/dt [w[c] + t vv[j]]
                    comp, j = (rng.randrange(g),), (rng.randrange(g),)
                    dF = ufl.derivative(F, uv[comp], vv[j])
                    moves = [(uv, lambda m, comp=comp, j=j, vv=vv: CompDir(uv.ufl_shape, comp, CompOf(m[vv], j)))]
                    extra = [vv]
                    desc += " w[c] with an indexed direction vv[j]"
                elif var == 2 and us in present:    # d/dt [w + t vv[j]], w scalar
                    j = (rng.randrange(g),)
                    dF = ufl.derivative(F, us, vv[j])
                    moves = [(us, lambda m, j=j, vv=vv: CompOf(m[vv], j))]
                    extra = [vv]
                    desc += " scalar w with an indexed direction vv[j]"
                elif var == 3 and uv in present:    # d/dt [w + t <v0, 0, v1..>]
                    parts = [v0, 0, v1][:g] if g == 3 else [v0, v1]
                    if rng.random() < 0.5:
                        parts[rng.randrange(len(parts))] = 0
                    dF = ufl.derivative(F, uv, ufl.as_vector(parts))
                    moves = [(uv, lambda m, parts=parts: Stack([(m[p_] if not isinstance(p_, int) else None) for p_ in parts]))]
                    extra = [p_ for p_ in parts if not isinstance(p_, int)]
                    desc += " w with a list-tensor direction"
                else:
                    return None
            elif kind == "tuple":
                if len(present) < 2:
                    return None
                w1, w2 = rng.sample(present, 2)
                v1, v2 = fresh_like(ufl, w1, rng), fresh_like(ufl, w2, rng)
                dF = ufl.derivative(F, (w1, w2), (v1, v2))
                moves = [(w1, lambda m, v1=v1: m[v1]), (w2, lambda m, v2=v2: m[v2])]
                extra = [v1, v2]
                Fbase = F
                desc += " derivative w.r.t. a pair of coefficients of shapes %s, %s" % (tuple(w1.ufl_shape), tuple(w2.ufl_shape))
            else:   # cd / cdgrad: a user-supplied relation f = f(w) with df/dw = c
                cand = [c for c in present if not c.ufl_shape] or present
                f = rng.choice(present)
                wc = [c for c in pool if c is not f and len(c.ufl_shape) <= 1 and len(c.ufl_shape) + len(f.ufl_shape) <= 2]
                if not wc:
                    return None
                w = rng.choice([c for c in wc if c in present] or wc)
                v = fresh_like(ufl, w, rng)
                cshape = tuple(f.ufl_shape) + tuple(w.ufl_shape)
                from utils import LagrangeElement
                cell = {1: ufl.interval, 2: ufl.triangle, 3: ufl.tetrahedron}[g]
                c = ufl.Coefficient(ufl.FunctionSpace(G.mesh, LagrangeElement(cell, 2, cshape)))
                dF = ufl.derivative(F, w, v, coefficient_derivatives={f: c})
                moves = [(w, lambda m, v=v: m[v]), (f, lambda m, c=c, v=v, f=f: Contract(m[c], m[v], f.ufl_shape))]
                extra = [v, c, w]
                if kind == "cd2":
                    # two derivative nodes with the same coefficient and direction but DIFFERENT user relations, expanded in one call
                    c2 = ufl.Coefficient(ufl.FunctionSpace(G.mesh, LagrangeElement(cell, 2, cshape)))
                    dF = dF + 2 * ufl.derivative(F, w, v, coefficient_derivatives={f: c2})
                    moves2 = [(w, lambda m, v=v: m[v]), (f, lambda m, c2=c2, v=v, f=f: Contract(m[c2], m[v], f.ufl_shape))]
                    extra = [v, c, c2, w]
                Fbase = F
                from ufl.classes import Grad
                has_grad_f = any(isinstance(o, Grad) and o.ufl_operands[0] == f for o in ufl.corealg.traversal.unique_pre_traversal(expand_derivatives(F)))
                desc = ("coefficient_derivatives={f: c}: f of shape %s depends on w of shape %s" % (tuple(f.ufl_shape), tuple(w.ufl_shape))) + (", F contains grad(f)" if has_grad_f else "")
                cdmap = has_grad_f
            try:
                X = expand_derivatives(dF)
            except REFUSALS as ex:
                return ("refused", desc, [])
            Fx = expand_derivatives(Fbase)
        m = self.fields(rng, G, [Fx, X], list(extra) + [w_ for w_, _ in moves])
        x0 = tuple(rng.uniform(-0.5, 0.5) for _ in range(g))
        dirf = [(w, mk(m)) for w, mk in moves]

        def fun(h):
            m2 = dict(m)
            for w, d in dirf:
                m2[w] = dc.Combo(m[w], d, h)
            return dc.evaluate(Fx, x0, m2)
        want, ok = dc.fd(fun)
        if not ok or at_kink(fun):
            return ("nonsmooth", desc, [])
        if moves2 is not None:
            dirf2 = [(w, mk(m)) for w, mk in moves2]

            def fun2(h):
                m2 = dict(m)
                for w, d in dirf2:
                    m2[w] = dc.Combo(m[w], d, h)
                return dc.evaluate(Fx, x0, m2)
            want2, ok2 = dc.fd(fun2)
            if not ok2 or at_kink(fun2):
                return ("nonsmooth", desc, [])
            want = [a + 2 * b for a, b in zip(want, want2)]
            desc += "; sum of two derivative nodes with different relations df/dw in one expansion"
        problems = []
        if tuple(X.ufl_shape) != tuple(Fx.ufl_shape):
            problems.append("shape %s, the differentiated expression has shape %s" % (tuple(X.ufl_shape), tuple(Fx.ufl_shape)))
        else:
            got = dc.evaluate(X, x0, m)
            for c_, a, b in zip(dc.comps(X.ufl_shape), got, want):
                if not dc.close([a], [b], 3e-5):
                    problems.append("component %s of the expanded derivative evaluates to %.9g, finite differences of tau -> F(w + tau v) give %.9g" % (list(c_), a, b))
                    break
        return ("checked", desc, problems, cdmap)

    def oracle(self, ctx, ev):
        rng = random.Random(ctx.seed * 5381 + 2)
        n = 130 if ctx.quick else 4000
        out, seen, stats, samples = [], set(), {"checked": 0, "nonsmooth": 0, "refused": 0, "skipped": 0}, []
        per_kind = {}
        for k in range(n):
            try:
                r = self.one(rng, k)
            except ZeroDivisionError:
                stats["nonsmooth"] += 1
                continue
            except (OverflowError, ValueError) as ex:
                if "math domain" in str(ex) or isinstance(ex, OverflowError):
                    stats["nonsmooth"] += 1
                    continue
                stats["refused"] += 1         # evaluation refuses (e.g. restricted terms): not a value
                continue
            except REFUSALS:
                stats["refused"] += 1
                continue
            except TypeError as ex:
                if "complex" in str(ex):       # a fractional power / root of a negative number: outside the real domain
                    stats["nonsmooth"] += 1
                    continue
                r = ("crashed", "%s case %d" % (self.KINDS[k % len(self.KINDS)], k), ["expand_derivatives / evaluation crashed with TypeError: %s" % str(ex)[:160]], None)
            except Exception as ex:  # noqa   an internal error is not a refusal
                r = ("crashed", "%s case %d" % (self.KINDS[k % len(self.KINDS)], k), ["expand_derivatives / evaluation crashed with %s: %s" % (type(ex).__name__, str(ex)[:160])], None)
            if r is None:
                stats["skipped"] += 1
                continue
            kind, desc, problems = r[0], r[1], r[2]
            stats[kind] = stats.get(kind, 0) + 1
            if kind == "checked":
                kk = self.KINDS[k % len(self.KINDS)]
                per_kind[kk] = per_kind.get(kk, 0) + 1
            if len(samples) < 5 and kind == "checked":
                samples.append(desc)
            if problems:
                if len(r) > 3 and r[3]:
                    key = "C02:coefficient-derivatives:grad-of-related-coefficient-dropped"
                    what = ("with user-supplied coefficient_derivatives={f: c} the terms of F in grad(f) differentiate to zero instead of raising (%s): %s" % (desc, problems[0]))
                else:
                    key = "C02:" + kind + ":" + desc.split(" of ")[0].split(":")[0][:60] + ":" + problems[0].split(" ")[0]
                    what = "%s: %s" % (desc, problems[0])
                if key not in seen and len(out) < 5:
                    seen.add(key)
                    out.append(Witness(what, key, dict(kind="value", seed=ctx.seed, k=k, tier=ctx.tier, problems=problems[:3])))
        ev.cov["oracle_evaluations"] = n
        ev.cov["oracle_outcomes"] = stats
        ev.cov["oracle_checked_by_kind"] = per_kind
        ev.cov["oracle_rule"] = ("value of expand_derivatives(derivative(F, w, v[, coefficient_derivatives])) at a random point vs central differences of tau -> F(w + tau v): whole coefficients, "
                                 "single components, pairs, second derivatives, gradient terms, directed operator cases, user-supplied relations (f moves by tau * c.v, including its gradient)")
        ev.cov["oracle_samples"] = samples
        return out

    def replay(self, ctx, data):
        d = data.get("data", {})
        rng = random.Random(int(d.get("seed", 0)) * 5381 + 2)
        r = None
        for k in range(int(d.get("k", 0)) + 1):
            try:
                r = self.one(rng, k)
            except Exception as ex:  # noqa
                r = ("raised", "case", [str(ex)]) if k == int(d.get("k", 0)) else None
        if r and r[2]:
            return Witness("%s: %s" % (r[1], r[2][0]), data.get("key", "C02"), d)
        return None


def gen_scalar_element(G):
    import ufl
    from utils import LagrangeElement
    cell = {1: ufl.interval, 2: ufl.triangle, 3: ufl.tetrahedron}[G.gdim]
    return LagrangeElement(cell, 2)


PROP = C02()
