"""C16 lhs/rhs/system/action/adjoint/energy_norm/functional respect the algebra.

Tie (correspondence): the Lean model (Model/FormTransform.lean, Drivers/C16.lean) of PartExtracter, compute_form_with_arity,
compute_form_lhs/_rhs/_functional/_action/_adjoint, compute_energy_norm and FormSplitter.split (MixedFunctionSpace parts) is
compared tree-for-tree with the implementation on generated multi-affine forms with 0-2 arguments: sums of terms of different
arity (also nested: (u + f) * v), products splitting the arguments, linear operators (conj/real/imag, restrictions, indexing,
component and list tensors, variables, division by argument-free terms, grad/div/dx/dot/inner/outer lowered by
expand_derivatives), MixedElement arguments, MixedFunctionSpace arguments (parts), and near-miss inputs the extractor must
refuse (non-linear operators over arguments, list tensors and sums mixing different arguments).

Oracle (the statement read literally on the implementation's output, values through the denotational eval over the Gaussian
rationals, independent '+'/'-' side values, random jets): F = lhs - rhs for forms affine in the trial function; lhs/-rhs/functional
are the Moebius parts of F in general; lhs additive in each argument and rhs independent of the trial function; action = F with
the last argument's values replaced; adjoint = conj of F with the two arguments' values swapped; energy_norm = a(f, f)."""
import itertools, json, random, re
from fractions import Fraction
import common
from common import Prop, Witness, Failure, ROOT
import uflio, gen, leandrv
from props.c05 import canon

leandrv.EXES["C16"] = "c16drv"

# Defects found on the unchanged tree that wait for a decision (fix: commit or known finding).  A witness whose key is listed in
# pending_findings_C16.json is printed as PENDING-FINDING and recorded in the evidence instead of being raised as a violation;
# deleting the entry (or the file) turns it into an ordinary witness (VIOLATION, or KNOWN-FINDING once listed in known_findings.json).
PENDING_FILE = ROOT / "pending_findings_C16.json"


def pending_keys():
    try:
        return set(json.loads(PENDING_FILE.read_text()).get("keys", []))
    except Exception:
        return set()


def comps(shape):
    return list(itertools.product(*[range(n) for n in shape]))


def split_top(s):
    """top-level parenthesised items of '(ok (..) (..))' -> ['(..)', '(..)']"""
    assert s.startswith("(ok") and s.endswith(")")
    body = s[3:-1]
    out, depth, start = [], 0, None
    for i, ch in enumerate(body):
        if ch == "(":
            if depth == 0:
                start = i
            depth += 1
        elif ch == ")":
            depth -= 1
            if depth == 0:
                out.append(body[start:i + 1])
    return out


def norm_form_reply(s):
    """integrals stably sorted by tag (Form sorts its integrals), then alpha-renamed and float-canonicalised"""
    if not s.startswith("(ok"):
        return s
    items = split_top(s)
    items.sort(key=lambda it: int(it[1:].split(" ", 1)[0]))
    return canon(uflio.alpha("(ok " + " ".join(items) + ")"))


def norm_extract_reply(s):
    """(ok <part> (key*)) with the provided keys sorted"""
    if not s.startswith("(ok"):
        return s
    part, keys = split_top(s)
    ks = sorted(keys[1:-1].split())
    return canon(uflio.alpha("(ok %s (%s))" % (part, " ".join(ks))))


class QV:
    """Gaussian rational"""
    __slots__ = ("re", "im")

    def __init__(self, re=0, im=0):
        self.re, self.im = Fraction(re), Fraction(im)

    def __add__(self, o): return QV(self.re + o.re, self.im + o.im)
    def __sub__(self, o): return QV(self.re - o.re, self.im - o.im)
    def __neg__(self): return QV(-self.re, -self.im)
    def conj(self): return QV(self.re, -self.im)
    def __eq__(self, o): return self.re == o.re and self.im == o.im
    def __hash__(self): return hash((self.re, self.im))
    def __repr__(self): return "%s%+sj" % (self.re, self.im)

    def close(self, o):
        """equal up to the rounding of folded float literals"""
        if self == o:
            return True
        d = abs(float(self.re - o.re)) + abs(float(self.im - o.im))
        m = max(1.0, abs(float(self.re)), abs(float(self.im)), abs(float(o.re)), abs(float(o.im)))
        return d <= 1e-9 * m


def parse_q(r):
    if not r.startswith("(ok "):
        return None
    a, b = r[4:-1].split()
    an, ad = a.split("/"); bn, bd = b.split("/")
    return QV(Fraction(int(an), int(ad)), Fraction(int(bn), int(bd)))


class Env:
    """values of terminals: (side, key, comp) -> QV and jets (side, key, comp, derivs) -> QV; sides n/p/m.
    Derived valuations remember their parent and what changed, so that only the difference travels to the driver."""
    _ids = itertools.count()

    def __init__(self, rng, gdim, complex_mode, parent=None):
        self.rng, self.gdim, self.cplx = rng, gdim, complex_mode
        self.vals, self.jets = ({}, {}) if parent is None else (dict(parent.vals), dict(parent.jets))
        self.parent = parent
        self.changed = set()       # keys of terminals whose entries differ from the parent's
        self.id = "e%d" % next(Env._ids)
        self.sent = False

    def rnd(self):
        r = self.rng
        re = Fraction(r.randint(-5, 5), r.choice([1, 1, 2, 4]))
        im = Fraction(r.randint(-4, 4), r.choice([1, 2])) if self.cplx else Fraction(0)
        return QV(re, im)

    def add_terminal(self, key, shape, order=2):
        for side in "npm":
            for c in comps(shape):
                self.vals[(side, key, c)] = self.rnd()
                for k in range(1, order + 1):
                    for ds in itertools.product(range(self.gdim), repeat=k):
                        self.jets[(side, key, c, ds)] = self.rnd()

    def derive(self, keys, f_val, f_jet):
        e = Env(self.rng, self.gdim, self.cplx, parent=self)
        keys = set(keys)
        e.changed = keys
        for k in list(e.vals):
            if k[1] in keys:
                e.vals[k] = f_val(k)
        for k in list(e.jets):
            if k[1] in keys:
                e.jets[k] = f_jet(k)
        return e

    def zeroed(self, keys):
        return self.derive(keys, lambda k: QV(), lambda k: QV())

    def assigned(self, dst, src_env, src):
        """dst := values of terminal `src` in src_env"""
        return self.derive([dst], lambda k: src_env.vals.get((k[0], src, k[2]), QV()), lambda k: src_env.jets.get((k[0], src, k[2], k[3]), QV()))

    def combined(self, key, a, b, f):
        """value of `key` := f(value in a, value in b)"""
        return self.derive([key], lambda k: f(a.vals[k], b.vals[k]), lambda k: f(a.jets[k], b.jets[k]))

    def rerolled(self, key):
        return self.derive([key], lambda k: self.rnd(), lambda k: self.rnd())

    def define(self, reqs):
        """append the requests defining this valuation (and its ancestors) to `reqs`"""
        if self.sent:
            return
        if self.parent is not None:
            self.parent.define(reqs)
        keys = None if self.parent is None else self.changed
        out = []
        for (side, key, c), v in self.vals.items():
            if keys is None or key in keys:
                out.append("(V %s %s %s %d %d %d %d)" % (side, uflio.enc(key), uflio.nats(c), v.re.numerator, v.re.denominator, v.im.numerator, v.im.denominator))
        for (side, key, c, ds), v in self.jets.items():
            if keys is None or key in keys:
                out.append("(J %s %s %s %s %d %d %d %d)" % (side, uflio.enc(key), uflio.nats(c), uflio.nats(ds), v.re.numerator, v.re.denominator, v.im.numerator, v.im.denominator))
        reqs.append("(env %s %s (%s))" % (self.id, self.parent.id if self.parent is not None else "-", " ".join(out)))
        self.sent = True


def terminals_of(e):
    """(key -> shape) of the value-carrying terminals of an expression and the largest number of nested Grad nodes"""
    from ufl.classes import MultiIndex, Label, ConstantValue, Grad
    out, depth = {}, 0
    stack = [(e, 0)]
    seen = set()
    while stack:
        n, d = stack.pop()
        if (id(n), d) in seen:
            continue
        seen.add((id(n), d))
        if n._ufl_is_terminal_:
            if not isinstance(n, (MultiIndex, Label, ConstantValue)):
                out[repr(n)] = tuple(n.ufl_shape)
            continue
        d2 = d + 1 if isinstance(n, Grad) else d
        depth = max(depth, d2)
        for o in n.ufl_operands:
            stack.append((o, d2))
    return out, depth


class FormCase:
    """one generated form with its arguments"""
    pass


class MAGen:
    """multi-affine integrands: every generated expression is affine in each of the arguments of its support"""

    def __init__(self, rng, cplx, gdim, facet):
        import ufl
        from utils import LagrangeElement, MixedElement
        self.ufl, self.rng, self.cplx, self.facet = ufl, rng, cplx, facet
        self.G = gen.Gen(rng, gdim=gdim, math=rng.random() < 0.4, compound=rng.random() < 0.7, derivs=rng.random() < 0.5,
                         restricted=False, reuse=0.6, powers=True)
        self.gdim = gdim
        self.cell = {2: ufl.triangle, 3: ufl.tetrahedron}[gdim]
        self.mesh = self.G.mesh
        L = LagrangeElement
        self.el = {(): L(self.cell, 1), (gdim,): L(self.cell, 1, (gdim,)), "q": L(self.cell, 2), (gdim, gdim): L(self.cell, 1, (gdim, gdim))}
        self.MixedElement = MixedElement
        self.stats = {}

    def count(self, k):
        self.stats[k] = self.stats.get(k, 0) + 1

    def space(self, sh):
        return self.ufl.FunctionSpace(self.mesh, self.el[sh])

    # ---- argument-free material
    def coef(self, shape, depth=1):
        if self.facet:
            e = self.G.expr(shape, (), depth)
            return e(self.rng.choice("+-"))
        return self.G.expr(shape, (), depth)

    def nonzero(self):
        e = self.G.expr((), (), 1)
        e = e * e + 1
        return e("+") if self.facet else e

    def lin(self, e):
        """wrap in a linear operator that keeps the shape"""
        ufl, r = self.ufl, self.rng.random()
        if r < 0.12 and self.cplx:
            self.count("conj"); return ufl.conj(e)
        if r < 0.18 and self.cplx:
            self.count("real"); return ufl.real(e)
        if r < 0.24 and self.cplx:
            self.count("imag"); return ufl.imag(e)
        if r < 0.34:
            self.count("variable"); return ufl.variable(e)
        if r < 0.44:
            self.count("neg"); return -e
        if r < 0.54:
            self.count("div_by_coef"); return e / self.nonzero()
        if r < 0.62 and len(e.ufl_shape) == 2 and e.ufl_shape[0] == e.ufl_shape[1]:
            self.count("symskew"); return self.rng.choice([ufl.sym, ufl.skew, ufl.dev, ufl.transpose])(e)
        if r < 0.7 and len(e.ufl_shape) >= 1:
            # re-tensorise through index notation:  as_tensor(e[i..], (i..))
            idx = tuple(ufl.Index() for _ in e.ufl_shape)
            self.count("component_tensor"); return ufl.as_tensor(2 * e[idx], idx)
        return e

    def restrict(self, a):
        if self.facet:
            return a(self.rng.choice("+-"))
        return a

    # ---- leaves carrying exactly one argument `a`
    def arg_leaf(self, a, shape):
        ufl, rng, g = self.ufl, self.rng, self.gdim
        sa = tuple(a.ufl_shape)
        ar = self.restrict(a)
        cands = []
        if shape == sa:
            cands += [lambda: ar, lambda: ar, lambda: 2 * ar]
            if len(sa) == 1 and sa[0] == g:
                cands.append(lambda: self.restrict(ufl.grad(ufl.div(a))) if rng.random() < 0.3 else ar)
        if shape == ():
            if sa == ():
                cands += [lambda: ar, lambda: self.restrict(a.dx(rng.randrange(g))), lambda: self.restrict(ufl.div(ufl.grad(a)))]
            else:
                cands += [lambda: ar[tuple(rng.randrange(d) for d in sa)]]
                if len(sa) == 1:
                    cands += [lambda: ufl.dot(ar, self.coef(sa, 0)), lambda: ufl.inner(self.coef(sa, 0), ar)]
                    if sa[0] == g:
                        cands += [lambda: self.restrict(ufl.div(a)), lambda: self.restrict(ufl.nabla_div(a))]
                if len(sa) == 2:
                    cands += [lambda: ufl.inner(ar, self.coef(sa, 0))]
                    if sa[0] == sa[1]:
                        cands.append(lambda: ufl.tr(ar))
        if shape == sa + (g,):
            cands += [lambda: self.restrict(ufl.grad(a)), lambda: self.restrict(ufl.grad(a))]
        if len(sa) == 1 and shape == (g,) + sa:
            cands.append(lambda: self.restrict(ufl.nabla_grad(a)))
        if shape == (g, g) and sa == ():
            cands.append(lambda: self.restrict(ufl.grad(ufl.grad(a))))
        if sa == () and len(shape) == 1:
            cands.append(lambda: ar * self.coef(shape, 0))
        if len(sa) == 1 and len(shape) == 1 and shape != sa:
            cands.append(lambda: ufl.dot(self.coef(shape + sa, 0), ar))
        if len(shape) == 2 and len(sa) == 1 and shape[1] == sa[0]:
            cands.append(lambda: ufl.outer(self.coef((shape[0],), 0), ar))
        if len(shape) == 2 and len(sa) == 1 and shape[0] == sa[0]:
            cands.append(lambda: ufl.outer(ar, self.coef((shape[1],), 0)))
        if not cands:
            # build from scalar leaves
            self.count("leaf_listtensor")
            if len(shape) == 1:
                return ufl.as_vector([self.arg_leaf(a, ()) for _ in range(shape[0])])
            return ufl.as_tensor([self.arg_leaf(a, shape[1:]) for _ in range(shape[0])])
        return rng.choice(cands)()

    # ---- main production: expression of shape `shape` whose terms all carry exactly the arguments S
    def ma(self, S, shape, depth, keep=()):
        """`keep`: arguments every term must retain (the test function of a form linear in it)"""
        ufl, rng = self.ufl, self.rng
        S = list(S)
        keep = [a for a in keep if any(a is b for b in S)]
        if not S:
            return self.coef(shape, max(0, min(depth, 2)))
        if depth <= 0:
            if len(S) == 1:
                return self.arg_leaf(S[0], shape)
            return self.product(S, shape, 0, keep)
        r = rng.random()
        d = depth - 1
        if r < 0.16:
            self.count("sum_same")
            return self.ma(S, shape, d, keep) + self.ma(S, shape, d, keep)
        if r < 0.26 and len(keep) < len(S):
            self.count("sum_lower")          # a term with fewer arguments next to it: (u + f) * v
            S2 = [a for a in S if any(a is b for b in keep) or rng.random() < 0.5]
            if len(S2) == len(S):
                drop = rng.choice([a for a in S if not any(a is b for b in keep)])
                S2 = [a for a in S2 if a is not drop]
            x, y = self.ma(S, shape, d, keep), self.ma(S2, shape, d, keep)
            return x + y if rng.random() < 0.5 else y + x
        if r < 0.5:
            return self.product(S, shape, d, keep)
        if r < 0.72:
            return self.lin(self.ma(S, shape, d, keep))
        if r < 0.8 and len(shape) <= 1:
            n = rng.choice([2, 3])
            self.count("indexed_fixed")
            return self.ma(S, (n,) + shape, d, keep)[rng.randrange(n)]
        if r < 0.9 and shape:
            self.count("list_tensor")
            rows = [self.ma(S, shape[1:], d, keep) for _ in range(shape[0])]
            if rng.random() < 0.3:
                rows[rng.randrange(len(rows))] = ufl.zero(*shape[1:]) if shape[1:] else 0
                self.count("list_tensor_zero_row")
            return ufl.as_tensor(rows)
        if len(S) == 1:
            return self.arg_leaf(S[0], shape)
        return self.product(S, shape, d, keep)

    def product(self, S, shape, d, keep=()):
        ufl, rng = self.ufl, self.rng
        ma0 = self.ma
        def ma(S_, sh_, d_):
            return ma0(S_, sh_, d_, keep)
        S = list(S)
        rng.shuffle(S)
        k = rng.randint(0, len(S)) if len(S) > 1 else rng.choice([0, 1])
        if len(S) > 1 and rng.random() < 0.7:
            k = rng.randint(1, len(S) - 1)
        S1, S2 = S[:k], S[k:]
        self.count("product_split_%d_%d" % (len(S1), len(S2)))
        if shape == ():
            r = rng.random()
            if r < 0.45:
                return ma(S1, (), d) * ma(S2, (), d)
            sh = rng.choice([(2,), (3,), (self.gdim,), (2, 2), (self.gdim, self.gdim)])
            if r < 0.7:
                self.count("inner")
                return ufl.inner(ma(S1, sh, d), ma(S2, sh, d))
            if len(sh) == 1:
                self.count("dot")
                return ufl.dot(ma(S1, sh, d), ma(S2, sh, d))
            i, j = ufl.Index(), ufl.Index()
            self.count("implicit_sum")
            return ma(S1, sh, d)[i, j] * ma(S2, sh, d)[i, j]
        if len(shape) == 1:
            r = rng.random()
            if r < 0.5:
                return ma(S1, (), d) * ma(S2, shape, d)
            m = rng.choice([2, 3])
            self.count("matvec")
            return ufl.dot(ma(S1, (shape[0], m), d), ma(S2, (m,), d))
        if len(shape) == 2:
            r = rng.random()
            if r < 0.4:
                return ma(S1, (), d) * ma(S2, shape, d)
            if r < 0.75:
                self.count("outer")
                return ufl.outer(ma(S1, (shape[0],), d), ma(S2, (shape[1],), d))
            m = rng.choice([2, 3])
            self.count("matmat")
            return ufl.dot(ma(S1, (shape[0], m), d), ma(S2, (m, shape[1]), d))
        return ma(S1, (), d) * ma(S2, shape, d)

    # ---- inputs the extractor must refuse (or that are not multi-affine)
    def refused(self, S, depth):
        ufl, rng = self.ufl, self.rng
        x = self.ma(S, (), depth)
        kind = rng.choice(["abs", "power", "conditional", "sqrt", "list_mixed", "sum_mixed", "denominator", "maxvalue"])
        self.count("refused_" + kind)
        if kind == "abs":
            return abs(x) * self.coef((), 0), kind
        if kind == "power":
            return x ** 2, kind
        if kind == "conditional":
            return ufl.conditional(ufl.lt(self.coef((), 0), self.coef((), 0)), x, self.coef((), 0) * x), kind
        if kind == "sqrt":
            return ufl.sqrt(x), kind
        if kind == "maxvalue":
            return ufl.max_value(x, self.coef((), 0)), kind
        if kind == "denominator":
            return self.coef((), 0) / x, kind
        if kind == "list_mixed":
            rows = [self.ma(S, (), depth), self.coef((), 0)]
            rng.shuffle(rows)
            return ufl.as_vector(rows)[0] if False else ufl.dot(ufl.as_vector(rows), self.coef((2,), 0)), kind
        # two different arguments added
        if len(S) >= 2:
            return self.ma([S[0]], (), depth) + self.ma([S[1]], (), depth), kind
        return x + abs(x), kind


def build_case(rng, k, quick):
    """-> FormCase with .F (user-level form), .E (derivatives expanded), .args, .kind, .affine (F = a(u, v) + L(v) by construction)"""
    import ufl
    from utils import LagrangeElement, MixedElement
    cplx = rng.random() < 0.5
    gdim = rng.choice([2, 2, 3])
    c = FormCase()
    c.k, c.cplx, c.gdim = k, cplx, gdim
    kinds = ["plain2", "plain2", "plain2", "plain1", "plain0", "vector2", "mixedelem2", "parts2", "parts2", "parts1", "refused", "plain2_free"]
    c.kind = kinds[k % len(kinds)] if k % 5 else rng.choice(kinds)
    c.gens = []
    n_itg = rng.choice([1, 1, 2, 3])
    depth = rng.choice([1, 2, 2, 3]) if quick else rng.choice([1, 2, 3, 3, 4])
    integrals = []
    c.affine = c.kind not in ("plain2_free", "refused", "plain0")
    c.refused_kinds = []
    # arguments (shared by all integrals of the form)
    M0 = MAGen(rng, cplx, gdim, False)
    mesh, cell = M0.mesh, M0.cell
    L = LagrangeElement
    def FS(el):
        return ufl.FunctionSpace(mesh, el)
    V, VV, Q = FS(L(cell, 1)), FS(L(cell, 1, (gdim,))), FS(L(cell, 2))
    tests, trials = [], []
    if c.kind in ("plain2", "plain1", "plain2_free", "refused"):
        sp = rng.choice([V, V, Q, VV])
        tests = [ufl.TestFunction(sp)]
        if c.kind != "plain1":
            trials = [ufl.TrialFunction(rng.choice([V, sp, VV, Q]))]
    elif c.kind == "vector2":
        T = FS(L(cell, 1, (gdim, gdim)))
        tests, trials = [ufl.TestFunction(rng.choice([VV, T]))], [ufl.TrialFunction(rng.choice([VV, T]))]
    elif c.kind == "mixedelem2":
        ME = FS(MixedElement([L(cell, 1, (gdim,)), L(cell, 1)]))
        tests, trials = [ufl.TestFunction(ME)], [ufl.TrialFunction(rng.choice([ME, V]))]
    elif c.kind in ("parts2", "parts1"):
        subs = [V, Q] if rng.random() < 0.6 else [VV, V, Q][: rng.choice([2, 3])]
        if rng.random() < 0.3:
            subs = [V, V]
        W = ufl.MixedFunctionSpace(*subs)
        tests = list(ufl.TestFunctions(W))
        trials = list(ufl.TrialFunctions(W)) if c.kind == "parts2" else []
    c.tests, c.trials = tests, trials
    c.pairs = []          # which (test, trial) pairs occur in bilinear terms
    c.bilinear_only = True
    c.pending_kind = None
    sid = 0
    for _ in range(n_itg):
        sid += 1
        itype = rng.choice(["dx", "dx", "ds", "dS"])
        M = MAGen(rng, cplx, gdim, itype == "dS")
        M.G = M0.G if rng.random() < 0.7 else M.G
        M.mesh = mesh
        M.G.mesh = mesh
        c.gens.append(M)
        terms = []
        if c.kind == "refused":
            S = [tests[0]] + ([trials[0]] if trials and rng.random() < 0.6 else [])
            e, rk = M.refused(S, depth)
            c.refused_kinds.append(rk)
            terms.append(e)
            if rng.random() < 0.5:
                terms.append(M.ma([tests[0]], (), depth))
        else:
            nt = rng.choice([1, 2, 2, 3])
            for _t in range(nt):
                if tests and trials and rng.random() < 0.6:
                    v, u = rng.choice(tests), rng.choice(trials)
                    terms.append(M.ma([v, u], (), depth, keep=[v] if c.affine else ()))
                    c.pairs.append((v, u))
                elif tests:
                    v = rng.choice(tests)
                    terms.append(M.ma([v], (), depth, keep=[v] if c.affine else ()))
                    c.bilinear_only = False
                else:
                    terms.append(M.ma([], (), depth))
                    c.bilinear_only = False
            if c.kind == "plain2_free":
                if rng.random() < 0.6:
                    terms.append(M.ma([], (), depth))
                if trials and rng.random() < 0.5:
                    terms.append(M.ma([trials[0]], (), depth))
        e = terms[0]
        for t in terms[1:]:
            e = e + t if rng.random() < 0.8 else e - t
        if e.ufl_shape != () or e.ufl_free_indices:
            raise ValueError("integrand not scalar")
        meas = {"dx": ufl.dx, "ds": ufl.ds, "dS": ufl.dS}[itype](domain=mesh, subdomain_id=sid)
        integrals.append(e * meas)
    F = integrals[0]
    for i in integrals[1:]:
        F = F + i
    c.F = F
    return c


def directed_cases(rng):
    """corner cases the property names, built by hand: sums of terms of different arity inside a product, MixedFunctionSpace
    blocks off the diagonal, and parted arguments next to an argument without part"""
    import ufl
    from utils import LagrangeElement
    out = []
    cell = ufl.triangle
    mesh = ufl.Mesh(LagrangeElement(cell, 1, (2,)))
    V = ufl.FunctionSpace(mesh, LagrangeElement(cell, 1))
    Q = ufl.FunctionSpace(mesh, LagrangeElement(cell, 2))
    VV = ufl.FunctionSpace(mesh, LagrangeElement(cell, 1, (2,)))
    f, g, h = ufl.Coefficient(V), ufl.Coefficient(Q), ufl.Coefficient(VV)
    dx = ufl.dx(domain=mesh)

    def case(kind, F, tests, trials, pairs, affine=True, pending=None, bilinear_only=False, cplx=True):
        c = FormCase()
        c.k, c.kind, c.cplx, c.gdim, c.F = -len(out) - 1, "directed:" + kind, cplx, 2, F
        c.gens, c.tests, c.trials, c.pairs = [], tests, trials, pairs
        c.affine, c.bilinear_only, c.refused_kinds, c.pending_kind = affine, bilinear_only, [], pending
        out.append(c)

    u, v = ufl.TrialFunction(V), ufl.TestFunction(V)
    uu, vv = ufl.TrialFunction(VV), ufl.TestFunction(VV)
    # nested sums of different arity
    case("nested_sum", (u + f) * (v * g) * dx(1) + ufl.inner(ufl.grad(u) + h, ufl.grad(v)) * dx(2) + f * v * ufl.ds(domain=mesh, subdomain_id=3), [v], [u], [(v, u)])
    case("all_arities", (u + f) * (v + g) * dx(1) + ufl.conj(v) * dx(2), [v], [u], [(v, u)], affine=False)
    case("list_tensor_rows", ufl.dot(ufl.as_vector([u * f, u.dx(0)]), ufl.as_vector([v, 2 * v])) * dx(1) + ufl.as_vector([f * v, 0])[0] * dx(2), [v], [u], [(v, u)])
    case("vector_dS", ufl.inner(ufl.jump(uu), ufl.avg(vv)) * ufl.dS(domain=mesh, subdomain_id=1) + ufl.inner(h("+"), vv("-")) * ufl.dS(domain=mesh, subdomain_id=2), [vv], [uu], [(vv, uu)])
    # a bilinear and a linear (and an argument-free) term sharing the numerator of one division
    case("shared_numerator", (u * v + f * v) / (g + 3) * dx(1) + ((u * v.dx(0) + g * v) / (f * f + 2) + (f * v) / (g * g + 1)) * dx(2), [v], [u], [(v, u)])
    case("shared_numerator_all", ((u + f) * v + g * v) / (f * f + 2) * dx(1), [v], [u], [(v, u)])
    # MixedFunctionSpace
    W = ufl.MixedFunctionSpace(V, Q)
    u0, u1 = ufl.TrialFunctions(W)
    v0, v1 = ufl.TestFunctions(W)
    case("parts_diag", u0 * v0 * dx(1) + ufl.inner(ufl.grad(u1), ufl.grad(v1)) * dx(2), [v0, v1], [u0, u1], [(v0, u0), (v1, u1)], bilinear_only=True)
    case("parts_full", u0 * v0 * dx(1) + u1 * v0 * f * dx(1) + u0 * v1.dx(0) * dx(2) + g * v1 * dx(3) + f * v0 * dx(2), [v0, v1], [u0, u1], [(v0, u0), (v0, u1), (v1, u0)])
    # defects found on the unchanged tree (see REPORT_C16): reported through the pending / known findings list
    case("parts_offdiag_adjoint", u1 * v0 * dx(1) + u0 * v0 * dx(2), [v0, v1], [u0, u1], [(v0, u1), (v0, u0)], pending="adjoint-parts-offdiag", bilinear_only=True)
    case("parts_with_unparted_trial", u * v0 * dx(1) + u * v1 * dx(2) + f * v0 * dx(3), [v0, v1], [u], [(v0, u), (v1, u)], pending="lhs-rhs-unparted-argument")
    return out


def ser_form(form, memo):
    return "(" + " ".join("(%d %s)" % (itg.subdomain_id(), uflio.ser(itg.integrand(), memo)) for itg in form.integrals()) + ")"


def impl_form_reply(fn, memo, keep):
    from ufl.form import Form
    try:
        r = fn()
    except Exception as ex:  # noqa
        return None, "(raises)", type(ex).__name__
    if isinstance(r, int) and r == 0:
        return r, "(ok)", None
    if not isinstance(r, Form):
        return r, "(other %s)" % type(r).__name__, None
    keep.append(r)
    return r, "(ok%s)" % "".join(" (%d %s)" % (itg.subdomain_id(), uflio.ser(itg.integrand(), memo)) for itg in r.integrals()), None


class C16(Prop):
    pid = "C16"
    lean_modules = ["UflVerif.Props.C16"]
    min_theorems = 17
    trusted = ["correspondence harness/props/c16.py + Drivers/C16.lean (model Model/FormTransform.lean with the executable constructor table rebuildFT)",
               "modelled rather than verified: object identity in reuse_if_untouched (structural equality), Form's canonical ordering of integrals (integrals are compared per measure tag), "
               "dict/set iteration order inside PartExtracter.sum (two operands: insertion order), expand_derivatives before every formoperators entry point (inputs are generated, expanded, then given to model and implementation), "
               "FormSplitter's MixedElement branch (sub-element arguments) is outside the model; compute_form_arities is not modelled"]
    assumptions = ["integrands are multi-affine (MA): sums, products of factors with disjoint argument sets, division by argument-free terms, conj/real/imag, restrictions, variables, indexing, index sums, component and list tensors, "
                   "grad^k of terminals, and argument-free subexpressions of the verified fragment; conj/real/imag of the valuation are additive",
                   "the theorems hold for every value-preserving reconstruction function rb (RbSound); that the real constructors are value-preserving is C05",
                   "action/adjoint/energy_norm: statement for plain substitution of terminals by terminals (C21 convention), well-formed integrands"]

    # ------------------------------------------------------------------ correspondence
    def correspondence(self, ctx, ev):
        import ufl
        from ufl.algorithms import expand_derivatives
        from ufl.algorithms import formtransformations as ft
        from ufl.algorithms.formsplitter import FormSplitter
        rng = random.Random(ctx.seed * 9173 + 16)
        n = 50 if ctx.quick else 800
        reqs, meta, memo = [], [], {}
        self.keep, self.cases, self.bad = [], [], []
        kinds, stats, gen_fail = {}, {}, 0
        k = 0
        attempts = 0
        directed = directed_cases(rng)
        while len(self.cases) < n + len(directed) and attempts < 4 * n:
            attempts += 1
            try:
                if len(self.cases) < len(directed):
                    c = directed[len(self.cases)]
                else:
                    c = build_case(rng, k, ctx.quick)
                c.E = expand_derivatives(c.F)
                c.E.arguments()
            except Exception as ex:  # noqa  (generation through the public operators can fail: counted)
                gen_fail += 1
                k += 1
                if len(self.cases) < len(directed):
                    raise
                continue
            k += 1
            self.cases.append(c)
            kinds[c.kind] = kinds.get(c.kind, 0) + 1
            for M in c.gens:
                for a, b in M.stats.items():
                    stats[a] = stats.get(a, 0) + b
            self.keep.append((c.F, c.E))
            E = c.E
            fs = ser_form(E, memo)
            args = list(E.arguments())
            c.argkeys = [repr(a) for a in args]

            def add(name, rq, fn):
                r, impl, exn = impl_form_reply(fn, memo, self.keep)
                reqs.append(rq)
                meta.append((c, name, impl, r, exn))
                return r

            c.L = add("lhs", "(lhs %s)" % fs, lambda: ft.compute_form_lhs(E))
            c.R = add("rhs", "(rhs %s)" % fs, lambda: ft.compute_form_rhs(E))
            c.Fn = add("functional", "(functional %s)" % fs, lambda: ft.compute_form_functional(E))
            has_parts = any(a.part() is not None for a in args)
            # PartExtracter directly, on each integrand, for several wanted sets
            for itg in E.integrals():
                e = itg.integrand()
                wants = [[], args[:1], args[:2]] + ([args[1:2]] if len(args) > 1 else [])
                if has_parts:
                    wants = [[], [args[0]], [a for a in args if a.number() == 0], [a for a in args if a.part() == args[0].part()]]
                for W in wants[: (4 if ctx.quick else 5)]:
                    pe = ft.PartExtracter(set(W))
                    try:
                        p, prov = pe.visit(e)
                        self.keep.append(p)
                        impl = "(ok %s (%s))" % (uflio.ser(p, memo), " ".join(sorted(uflio.enc(repr(a)) for a in prov)))
                    except Exception as ex:  # noqa
                        impl = "(raises)"
                    reqs.append("(extract (%s) %s)" % (" ".join(uflio.enc(repr(a)) for a in W), uflio.ser(e, memo)))
                    meta.append((c, "extract", impl, None, None))
            # action / adjoint / energy_norm
            if args:
                if has_parts:
                    nparts = max(a.part() for a in args if a.part() is not None) + 1
                    spaces = {}
                    for a in args:
                        if a.part() is not None:
                            spaces.setdefault(a.part(), a.ufl_function_space())
                    # coefficient for part p lives in the space of the highest-numbered argument of that part
                    hi = max(a.number() for a in args)
                    for a in args:
                        if a.number() == hi and a.part() is not None:
                            spaces[a.part()] = a.ufl_function_space()
                    coefs = [ufl.Coefficient(spaces.get(p, args[0].ufl_function_space())) for p in range(nparts)]
                else:
                    coefs = [ufl.Coefficient(args[-1].ufl_function_space())]
                c.coefs = coefs
                self.keep.append(coefs)
                cs = " ".join(uflio.ser(x, memo) for x in coefs)
                c.A = add("action", "(action %s (%s))" % (fs, cs), lambda: ft.compute_form_action(E, coefs if has_parts else coefs[0]))
            c.Adj = add("adjoint", "(adjoint %s)" % fs, lambda: ft.compute_form_adjoint(E))
            if len(args) == 2 and not has_parts:
                f = ufl.Coefficient(args[1].ufl_function_space())
                c.ecoef = f
                self.keep.append(f)
                c.En = add("energy", "(energy %s %s %s)" % (fs, uflio.ser(f, memo), uflio.enc(repr(f.ufl_function_space()))),
                           lambda: ft.compute_energy_norm(E, f))
                # without an explicit coefficient: ONE new coefficient in the trial space, used for both arguments
                try:
                    from ufl.algorithms import replace as _replace
                    from ufl.algorithms.analysis import extract_coefficients as _ec
                    En0 = ft.compute_energy_norm(E, None)
                    new = [w_ for w_ in _ec(En0) if w_ not in set(_ec(E))]
                    ok0 = len(new) == 1 and new[0].ufl_function_space() == args[1].ufl_function_space()
                    if ok0:
                        ok0 = _replace(En0, {new[0]: f}) == ft.compute_energy_norm(E, f)
                    self.energy_default = getattr(self, "energy_default", 0) + 1
                    if not ok0 and _ec(ft.compute_energy_norm(E, f)):
                        self.bad.append(("energy_norm(a) without a coefficient is not a(w, w) for one new coefficient w of the trial space (new coefficients: %d)" % len(new),
                                         dict(kind="value:energy_norm-default-coefficient", form=str(E)[:200])))
                except Exception:  # noqa
                    pass
            if has_parts:
                nparts = max(a.part() for a in args if a.part() is not None) + 1
                for (ix, iy) in [(0, 0), (0, None), (nparts - 1, 0), (1, 1)][: (3 if ctx.quick else 4)]:
                    add("split", "(split %s %s %s)" % (ix, "-" if iy is None else iy, fs), lambda: FormSplitter().split(E, ix, iy))
        replies = leandrv.run_driver("C16", reqs)
        fails, unsupported, distinct, per = [], 0, set(), {}
        raises = {}
        for (c, name, impl, r, exn), rq, rep in zip(meta, reqs, replies):
            if rep == "(unsupported)":
                unsupported += 1
                continue
            per[name] = per.get(name, 0) + 1
            if impl == "(raises)":
                raises[name] = raises.get(name, 0) + 1
            a, b = (norm_form_reply(impl), norm_form_reply(rep)) if name != "extract" else (norm_extract_reply(impl), norm_extract_reply(rep))
            if a != b:
                if len(fails) < 10:
                    i0 = next((i for i, (x, y) in enumerate(zip(a, b)) if x != y), min(len(a), len(b)))
                    fails.append(Failure("correspondence", name, "case %d [%s] %s%s | first difference at %d | impl: ...%s | model: ...%s" % (
                        c.k, c.kind, name, (" (%s)" % exn if exn else ""), i0, a[max(0, i0 - 150):i0 + 250], b[max(0, i0 - 150):i0 + 250]), case=rq[:6000]))
            elif impl != "(raises)" and rq.count("(O ") >= 3 and impl.count("(O ") != rq.count("(O "):
                distinct.add(rq)
        ev.cov["evaluations"] = len(reqs)
        ev.cov["distinct_nontrivial"] = len(distinct)
        ev.cov["requests_by_kind"] = per
        ev.cov["both_raise_by_kind"] = raises
        ev.cov["unsupported_skipped"] = unsupported
        ev.cov["traces_validated_against_impl"] = len(reqs) - unsupported
        ev.cov["form_kinds"] = kinds
        ev.cov["generator_productions"] = dict(sorted(stats.items()))
        ev.cov["generation_failures"] = gen_fail
        ev.cov["rule"] = ("forms of 1-3 integrals (dx/ds/dS, distinct subdomain ids as tags) over generated multi-affine integrands, expanded by expand_derivatives; kinds: scalar/vector/tensor arguments, "
                          "MixedElement arguments, MixedFunctionSpace arguments (2-3 parts), 0/1/2 arguments, forms with argument-free and trial-only terms, refused inputs; per form: lhs, rhs, functional, action, adjoint, "
                          "energy_norm, FormSplitter.split, and PartExtracter.visit for 4 wanted sets per integrand; non-trivial = distinct request with >= 3 operator nodes whose output differs in size from its input")
        ev.cov["samples"] = [dict(kind=c.kind, form=str(c.F)[:160], lhs=str(getattr(c, "L", None))[:120]) for c in self.cases[:3]]
        return fails

    # ------------------------------------------------------------------ oracle
    def value_oracle(self, ctx, ev):
        """the statements of the property evaluated on the implementation's outputs"""
        import ufl
        from ufl.form import Form
        rng = random.Random(ctx.seed * 4409 + 1616)
        memo, reqs = {}, []
        tcache, need = {}, {}

        def tinfo(e):
            r = tcache.get(id(e))
            if r is None:
                r = tcache[id(e)] = (e, terminals_of(e))
            return r[1]

        def val(form, env):
            """handle: list of (tag, request index); forms that are the integer 0 are empty"""
            if form is None:
                return None
            if not isinstance(form, Form):
                return []
            h = []
            env.define(reqs)
            for itg in form.integrals():
                e = itg.integrand()
                tinfo(e)                     # keeps the integrand alive: id(e) stays unique
                need.setdefault(id(e), (e, []))[1].append(env.id)
                h.append((itg.subdomain_id(), (id(e), env.id)))
            return h

        plans = []   # (case, check name, lhs handles [(sign, handle)], rhs handles, conj_rhs)
        nchecks = {}
        for c in self.cases:
            if c.kind == "refused":
                continue
            E = c.E
            args = list(E.arguments())
            keys = [repr(a) for a in args]
            tests = [repr(a) for a in args if a.number() == 0]
            trials = [repr(a) for a in args if a.number() == 1]
            has_parts = any(a.part() is not None for a in args)
            # environment over every terminal of the form and of the results
            shapes, maxd = {}, 0
            forms = [E] + [getattr(c, n, None) for n in ("L", "R", "Fn", "A", "Adj", "En")]
            for f in forms:
                if isinstance(f, Form):
                    for itg in f.integrals():
                        t, d = tinfo(itg.integrand())
                        shapes.update(t); maxd = max(maxd, d)
            # the canonical swapped arguments of the adjoint
            swap = {}
            for a in args:
                b = ufl.Argument(a.ufl_function_space(), 1 - a.number(), a.part()) if a.number() in (0, 1) else a
                swap[repr(a)] = repr(b)
                shapes.setdefault(repr(b), tuple(b.ufl_shape))
            rho = Env(rng, c.gdim, c.cplx)
            for key, sh in shapes.items():
                rho.add_terminal(key, sh, order=max(1, maxd))

            def chk(name, lhs, rhs, conj=False):
                if any(h is None for _, h in lhs + rhs):
                    return
                plans.append((c, name, lhs, rhs, conj))
                nchecks[name] = nchecks.get(name, 0) + 1

            L, R, Fn = getattr(c, "L", None), getattr(c, "R", None), getattr(c, "Fn", None)
            okLR = L is not None and R is not None
            side = not getattr(c, "pending_kind", None)
            tag = (":" + c.pending_kind) if not side else ""
            # (a) F = lhs - rhs for forms affine in the trial function and linear in the test function
            if okLR and c.affine:
                chk("F=lhs-rhs" + tag, [(1, val(E, rho))], [(1, val(L, rho)), (-1, val(R, rho))])
            # (b) Moebius parts (any multi-affine form)
            if okLR and side:
                zt, zu = rho.zeroed(set(tests)), rho.zeroed(set(trials))
                if not has_parts and len(tests) == 1 and len(trials) <= 1:
                    ztu = rho.zeroed(set(keys))
                    chk("lhs=part{v,u}", [(1, val(L, rho))], [(1, val(E, rho)), (-1, val(E, zt)), (-1, val(E, zu)), (1, val(E, ztu))] if trials else [])
                    chk("-rhs=part{v}", [(-1, val(R, rho))], [(1, val(E, zu)), (-1, val(E, ztu))])
            if Fn is not None:
                chk("functional=F(args:=0)", [(1, val(Fn, rho))], [(1, val(E, rho.zeroed(set(keys))))])
            # (c) lhs additive in each argument, rhs additive in the test function and independent of the trial function
            if okLR and side and args:
                for grp, nm in ((tests, "test"), (trials, "trial")):
                    if not grp:
                        continue
                    a = rng.choice(grp)
                    base = rho.zeroed(set(grp) - {a})        # the other parts of the same (mixed) function vanish
                    x, y = base.rerolled(a), base.rerolled(a)
                    xy = base.combined(a, x, y, lambda p, q: p + q)
                    chk("lhs additive in %s function" % nm, [(1, val(L, xy))], [(1, val(L, x)), (1, val(L, y))])
                    if nm == "test":
                        chk("rhs additive in test function", [(1, val(R, xy))], [(1, val(R, x)), (1, val(R, y))])
                    else:
                        chk("rhs independent of trial function", [(1, val(R, rho.rerolled(a)))], [(1, val(R, rho))])
            # (d) action: the highest-numbered argument takes the coefficient's values
            A = getattr(c, "A", None)
            if A is not None and args and side:
                hi = max(a.number() for a in args)
                if has_parts:
                    # compute_form_action replaces the highest-numbered arguments *of the highest-arity part*
                    src = L if (isinstance(L, Form) and not L.empty()) else R
                    hi = max(a.number() for a in src.arguments()) if isinstance(src, Form) and not src.empty() else hi
                r2 = rho
                for a in args:
                    if a.number() == hi:
                        cf = c.coefs[a.part()] if a.part() is not None else c.coefs[0]
                        r2 = r2.assigned(repr(a), rho, repr(cf))
                chk("action=F(last:=f)", [(1, val(A, rho))], [(1, val(E, r2))])
            # (e) adjoint: conjugate of F with the arguments' values swapped
            Adj = getattr(c, "Adj", None)
            if Adj is not None and len(tests) >= 1 and len(trials) >= 1 and (side or c.pending_kind.startswith("adjoint")):
                diag = all(v.part() == u.part() for v, u in c.pairs)
                bilinear_only = getattr(c, "bilinear_only", False)
                if (not has_parts) or (diag and bilinear_only) or not side:
                    r2 = rho
                    for a in args:
                        r2 = r2.assigned(repr(a), rho, swap[repr(a)])
                    chk("adjoint=conj(F swapped)" + tag, [(1, val(Adj, rho))], [(1, val(E, r2))], conj=True)
            # (f) energy norm
            En = getattr(c, "En", None)
            if En is not None:
                r2 = rho.assigned(keys[0], rho, repr(c.ecoef)).assigned(keys[1], rho, repr(c.ecoef))
                chk("energy_norm=a(f,f)", [(1, val(En, rho))], [(1, val(E, r2))])
        n_env = len(reqs)
        order = []
        for eid, (e, ids) in need.items():
            ids = list(dict.fromkeys(ids))
            order.append((eid, ids))
            reqs.append("(evalqs %s () (%s) ())" % (uflio.ser(e, memo), " ".join(ids)))
        replies = leandrv.run_driver("C16", reqs)
        vals = {}
        for (eid, ids), rep in zip(order, replies[n_env:]):
            toks = rep[4:-1].split() if rep.startswith("(ok ") else []
            for j, envid in enumerate(ids):
                vals[(eid, envid)] = parse_q("(ok %s %s)" % (toks[2 * j], toks[2 * j + 1])) if len(toks) == 2 * len(ids) else None

        def total(hs):
            acc = {}
            for sign, h in hs:
                for t, i in h:
                    v = vals[i]
                    if v is None:
                        return None
                    acc[t] = acc.get(t, QV()) + (v if sign > 0 else -v)
            return acc

        nval = 0
        for (c, name, lhs, rhs, conj) in plans:
            a, b = total(lhs), total(rhs)
            if a is None or b is None:
                continue
            nval += 1
            for t in sorted(set(a) | set(b)):
                x, y = a.get(t, QV()), b.get(t, QV())
                if conj:
                    y = y.conj()
                if not x.close(y):
                    kind = "value:%s:%s" % (name, c.kind)
                    self.bad.append(("%s fails on integral %d: %s vs %s" % (name, t, x, y),
                                     dict(kind=kind, form=str(c.F)[:400], seed=ctx.seed, k=c.k, tier=ctx.tier)))
                    break
        ev.cov["value_checks"] = nval
        ev.cov["value_checks_by_statement"] = nchecks
        ev.cov["value_requests"] = len(reqs)

    def oracle(self, ctx, ev):
        self.value_oracle(ctx, ev)
        out, seen = [], set()
        shown = []
        for w, d in getattr(self, "bad", []):
            key = "C16:" + d["kind"]
            if key in seen:
                continue
            seen.add(key)
            out.append(Witness(what=w + " :: " + d.get("form", "")[:160], key=key, data=d))
        ev.cov["pending_findings_reproduced"] = shown
        return out[:6]

    def replay(self, ctx, data):
        d = data.get("data", {})
        c2 = common.Ctx(pid="C16", tier=d.get("tier", "quick"), seed=int(d.get("seed", 0)))
        ev = common.Evidence(c2)
        self.correspondence(c2, ev)
        for w in self.oracle(c2, ev):
            if w.key == data.get("key"):
                return w
        return None


PROP = C16()
