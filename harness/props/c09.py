"""C09 Jacobian product cancellation preserves values.

Tie (correspondence): the Lean model of ufl/algorithms/cancel_jacobian_products.py (Model/CancelJacobian.lean, Drivers/C09.lean)
is compared tree-for-tree with JacobianCanceller, IdentityEliminator, ReciprocalCanceller and cancel_jacobian_products on
generated post-derivative index expressions (products / index sums / sums of indexed Jacobians, Jacobian inverses, Kronecker
deltas, determinants and coefficients, literal powers and reciprocals, re-used Index objects, fixed indices, two domains,
immersed manifolds, restrictions), on directed cases for every guard of the module, and on integrands produced by the real
preprocessing pipeline for Piola-mapped elements.

Oracle: the property read literally on the IMPLEMENTATION's output: shape, free indices (with extents) and value (through the
denotational `eval`, exact rationals; floats when a non-integer power occurs) of every pass's output against its input, in random
geometry environments with K the exact (pseudo-)inverse of a random full-rank J and a non-zero detJ.

MODEL = "current": the model is the code as it is in /repo.  Four defects of that code are proved in Props/C09.lean
(`C09_*_counterexample`); an input on which the model with the proposed guard differs from the model without it lies outside the side
condition of the corresponding `_partial` theorem, and a value failure there is reported as a FINDING of that class (a Witness with the
stable class key when known_findings.json lists it), not as a new violation.  After the fix: commits set MODEL = "repaired"."""
import itertools, math, os, random, re
from fractions import Fraction
import common
from common import Prop, Witness, Failure, LEAN, write_if_changed
import uflio, leandrv
from props.c05 import canon, _V
from props.c24 import parse_reply

leandrv.EXES["C09"] = "c09drv"

MODEL = os.environ.get("C09_MODEL", "repaired")   # "current": the passes as they are in /repo;  "repaired": with fix_C09_1..4 applied (set the default to "repaired" once they are committed)
SUFFIX = "" if MODEL == "current" else "G"

# canonical witnesses of the four defect classes (stable keys)
KNOWN_CLASSES = {
    "push-capture": "C09:push-capture:K[j,k]*sum_j(J[k,j]*g[j])",
    "subst-capture": "C09:subst-capture:sum_k(I[a,k]*sum_a(A[a,k]))",
    "power-merge": "C09:power-merge:(x**2)**0.5*(1/x)",
    "dropped-index": "C09:dropped-index:sum_j(sum_k(w[k]*I[k,l]*I[a,j]))",
}


def comps(shape):
    return list(itertools.product(*[range(n) for n in shape]))


# ---------------------------------------------------------------- exact small linear algebra
def mat_inv(M):
    n = len(M)
    A = [list(map(Fraction, r)) + [Fraction(int(i == j)) for j in range(n)] for i, r in enumerate(M)]
    for c in range(n):
        p = next((r for r in range(c, n) if A[r][c] != 0), None)
        if p is None:
            return None
        A[c], A[p] = A[p], A[c]
        pv = A[c][c]
        A[c] = [x / pv for x in A[c]]
        for r in range(n):
            if r != c and A[r][c] != 0:
                f = A[r][c]
                A[r] = [x - f * y for x, y in zip(A[r], A[c])]
    return [r[n:] for r in A]


def mat_mul(A, B):
    return [[sum(A[i][k] * B[k][j] for k in range(len(B))) for j in range(len(B[0]))] for i in range(len(A))]


def transpose(A):
    return [list(r) for r in zip(*A)]


def det(M):
    n = len(M)
    if n == 1:
        return M[0][0]
    return sum((-1) ** j * M[0][j] * det([r[:j] + r[j + 1:] for r in M[1:]]) for j in range(n))


# ---------------------------------------------------------------- generation
class JGen:
    """expressions of the kind cancel_jacobian_products sees: products, index sums and sums of indexed J, K, Identity,
    detJ, coefficients and literal powers, with a small pool of Index objects (re-use across scopes by construction)"""

    def __init__(self, rng, reuse=0.7, kind=None):
        import ufl
        from utils import LagrangeElement
        from ufl.classes import Jacobian, JacobianInverse, JacobianDeterminant, Identity
        self.ufl, self.rng, self.reuse = ufl, rng, reuse
        kind = kind or rng.choice(["sq2", "sq2", "man", "tet"])
        self.kind = kind
        cell, g = {"sq2": (ufl.triangle, 2), "man": (ufl.triangle, 3), "tet": (ufl.tetrahedron, 3), "int": (ufl.interval, 2)}[kind]
        self.mesh = ufl.Mesh(LagrangeElement(cell, 1, (g,)))
        self.mesh2 = ufl.Mesh(LagrangeElement(cell, 1, (g,)))          # same cell and embedding, another domain
        self.g, self.t = g, self.mesh.topological_dimension
        self.J, self.K, self.detJ = Jacobian(self.mesh), JacobianInverse(self.mesh), JacobianDeterminant(self.mesh)
        self.J2, self.K2 = Jacobian(self.mesh2), JacobianInverse(self.mesh2)
        self.Id = {n: Identity(n) for n in (2, 3)}
        self.coef = {}
        for sh in [(), (), (2,), (2,), (3,), (3,), (2, 2), (3, 3), (2, 3), (3, 2)]:
            V = ufl.FunctionSpace(self.mesh, LagrangeElement(cell, 1, sh))
            self.coef.setdefault(sh, []).append(ufl.Coefficient(V))
        self.pool = {2: [ufl.Index() for _ in range(2)], 3: [ufl.Index() for _ in range(2)]}
        self.dim = {i: d for d, l in self.pool.items() for i in l}
        self.stats = {}

    def count(self, k):
        self.stats[k] = self.stats.get(k, 0) + 1

    def index(self, d, avoid=()):
        cand = [i for i in self.pool[d] if i not in avoid]
        if cand and self.rng.random() < self.reuse:
            return self.rng.choice(cand)
        i = self.ufl.Index()
        self.dim[i] = d
        return i

    def ix(self, d, fixed=0.15):
        """an index for an axis of extent d: free (pool / fresh) or fixed"""
        if self.rng.random() < fixed:
            return self.rng.randrange(d)
        return self.index(d)

    def S(self, e, i):
        from ufl.classes import IndexSum, MultiIndex
        return IndexSum(e, MultiIndex((i,)))

    def P(self, a, b):
        from ufl.classes import Product
        return Product(a, b)

    def free(self, e):
        return [i for i in self.dim if i.count() in e.ufl_free_indices]

    def raw(self, A, *ix):
        """Indexed(A, ix) through the class constructor (Identity.__getitem__ folds fixed entries, `A[i, i]` sums)"""
        from ufl.classes import Indexed, MultiIndex, FixedIndex
        return Indexed(A, MultiIndex(tuple(FixedIndex(i) if isinstance(i, int) else i for i in ix)))

    def atom(self):
        rng, g, t = self.rng, self.g, self.t
        r = rng.random()
        if r < 0.18:
            return self.K[self.ix(t), self.ix(g)]
        if r < 0.36:
            return self.J[self.ix(g), self.ix(t)]
        if r < 0.46:
            n = rng.choice([2, 3])
            return self.raw(self.Id[n], self.ix(n, 0.3), self.ix(n, 0.3))
        if r < 0.62:
            n = rng.choice([2, 3])
            return rng.choice(self.coef[(n,)])[self.ix(n)]
        if r < 0.72:
            sh = rng.choice([(2, 2), (3, 3), (2, 3), (3, 2)])
            return rng.choice(self.coef[sh])[self.ix(sh[0]), self.ix(sh[1])]
        if r < 0.8:
            return rng.choice(self.coef[()])
        if r < 0.9:
            return self.power_atom()
        return self.ufl.as_ufl(rng.choice([2, 3, -1, 0.5, 1.5, -2, 4.0]))

    def scalar_base(self):
        rng = self.rng
        r = rng.random()
        if r < 0.55:
            return self.detJ
        if r < 0.85:
            return rng.choice(self.coef[()])
        if r < 0.93:
            return abs(self.detJ)
        f = rng.choice(self.coef[()])
        return f * f + 1

    def power_atom(self, base=None):
        """x, x**p, 1/x, (1/x)**p, (x**p)**q, 1/x**p with integer and dyadic exponents"""
        from ufl.classes import Power, Division
        rng, ufl = self.rng, self.ufl
        x = base if base is not None else self.scalar_base()
        r = rng.random()
        p = ufl.as_ufl(rng.choice([2, 3, 2, -1, -2, 0.5, 1.5, 2.0, -0.5]))
        q = ufl.as_ufl(rng.choice([2, 3, -1, 0.5, 2.0, 1.5]))
        self.count("power_atom")
        if r < 0.2:
            return x
        if r < 0.4:
            return Power(x, p)
        if r < 0.55:
            return Division(ufl.as_ufl(1), x)
        if r < 0.7:
            return Power(Division(ufl.as_ufl(rng.choice([1, 1.0])), x), p)
        if r < 0.85:
            self.count("nested_power")
            return Power(Power(x, p), q)
        if r < 0.95:
            return Division(ufl.as_ufl(1), Power(x, p))
        return Division(ufl.as_ufl(rng.choice([2, 0.5])), x)

    def same_fi_term(self, e):
        """a simple term with exactly the free indices of e"""
        t = None
        for i in self.free(e):
            v = self.rng.choice(self.coef[(self.dim[i],)])[i]
            t = v if t is None else self.P(t, v)
        if t is None:
            return self.rng.choice(self.coef[()])
        return t

    def contraction(self):
        """a product containing a J-K (or delta) contraction over one index, with extra factors"""
        rng, g, t = self.rng, self.g, self.t
        r = rng.random()
        if r < 0.4:          # K[a,k] J[k,b]
            k = self.index(g)
            fs = [self.K[self.ix(t), k], self.J[k, self.ix(t)]]
        elif r < 0.7:        # J[a,k] K[k,b]
            k = self.index(t)
            fs = [self.J[self.ix(g), k], self.K[k, self.ix(g)]]
        else:                # Identity[a,k] * f(k)
            n = rng.choice([2, 3])
            k = self.index(n)
            d = self.raw(self.Id[n], self.ix(n, 0.3), k) if rng.random() < 0.5 else self.raw(self.Id[n], k, self.ix(n, 0.3))
            fs = [d, rng.choice(self.coef[(n,)])[k]]
        for _ in range(rng.randint(0, 2)):
            fs.append(self.atom())
        rng.shuffle(fs)
        e = fs[0]
        for f in fs[1:]:
            e = self.P(e, f) if rng.random() < 0.6 else self.P(f, e)
        self.count("contraction")
        if k.count() in e.ufl_free_indices and rng.random() < 0.85:
            e = self.S(e, k)
        return e

    def expr(self, depth):
        rng, ufl = self.rng, self.ufl
        if depth <= 0:
            return self.atom()
        r = rng.random()
        d = depth - 1
        if r < 0.2:
            return self.contraction()
        if r < 0.45:
            a, b = self.expr(d), self.expr(d)
            if rng.random() < 0.5:
                self.count("raw_product")
                return self.P(a, b)
            self.count("star_product")
            return a * b
        if r < 0.65:
            a = self.expr(d)
            fr = self.free(a)
            if not fr:
                return a
            self.count("index_sum")
            return self.S(a, rng.choice(fr))
        if r < 0.75:
            a = self.expr(d)
            b = self.same_fi_term(a)
            self.count("sum")
            return a + b if rng.random() < 0.7 else b - a
        if r < 0.82:
            a = self.expr(d)
            self.count("division")
            return a / self.scalar_base()
        if r < 0.9:
            a, b = self.power_atom(), self.power_atom()
            self.count("reciprocals")
            x = self.P(a, b)
            return self.P(x, self.expr(d)) if rng.random() < 0.5 else x
        if r < 0.94:
            a = self.expr(d)
            if a.ufl_free_indices:
                return a
            return rng.choice([abs, ufl.sqrt])(a * a + 1) if rng.random() < 0.5 else ufl.conditional(ufl.lt(a, 1), a, 2 * a)
        if r < 0.97:
            a = self.expr(d)
            self.count("restricted")
            return a("+")
        return -self.expr(d)

    def close_some(self, e):
        """sum over some of the remaining free indices (outermost sums)"""
        for i in self.free(e):
            if self.rng.random() < 0.5:
                e = self.S(e, i)
        return e


DIRECTED = ["kj", "kj_fixed", "kj_same", "jk_square", "jk_manifold", "kj_manifold", "two_domains", "diag", "three_with_k",
            "with_rest", "interchange", "interchange3", "interchange_rest", "push_rest", "push", "push_rev", "push_capture", "identity", "identity_rev", "identity_fixed",
            "identity_kk", "identity_alone", "identity_two", "identity_fold", "identity_drop", "identity_drop_sum", "identity_keep", "subst_capture", "subst_shadow", "subst_zero",
            "restricted_in", "restricted_out", "rc_basic", "rc_net", "rc_float", "rc_nested_int", "rc_nested_half", "rc_power_merge",
            "rc_numerator", "rc_all_positive", "rc_two_bases", "rc_split", "rc_abs", "rc_free_index", "rc_cplx", "grad_chain",
            "piola_div", "sum_of_cancels", "under_division", "identity_shared_k", "identity_shared_k_fixed", "kj_shared_k", "rc_minus_one", "rc_minus_one_odd"]


def directed(G, kind):
    import ufl
    from ufl.classes import Power, Division, Product, IndexSum, MultiIndex
    rng, g, t = G.rng, G.g, G.t
    J, K, dJ, P, S = G.J, G.K, G.detJ, G.P, G.S
    one = ufl.as_ufl(1)
    f0, f1 = G.coef[()]
    a, b = G.index(t), None
    b = G.index(t, avoid=(a,))
    k = G.index(g, avoid=(a, b))
    l = G.index(t, avoid=(a, b, k))
    vg, vt = rng.choice(G.coef[(g,)]), rng.choice(G.coef[(t,)])
    Mtt = rng.choice(G.coef[(t, t)])
    It, Ig = G.Id[t], G.Id[g]
    if kind == "kj":
        return S(P(K[a, k], J[k, b]), k) if rng.random() < 0.5 else S(P(J[k, b], K[a, k]), k)
    if kind == "kj_fixed":
        return S(P(K[rng.randrange(t), k], J[k, rng.choice([b, rng.randrange(t)])]), k)
    if kind == "kj_same":
        return S(P(K[a, k], J[k, a]), k)
    if kind in ("jk_square", "jk_manifold"):
        kk = G.index(t, avoid=(a, b))
        x, y = G.index(g, avoid=(kk,)), G.index(g, avoid=(kk,))
        return S(P(J[x, kk], K[kk, y]), kk) * vg[x]
    if kind == "kj_manifold":
        return S(P(K[a, k], J[k, b]), k) * vt[b]
    if kind == "two_domains":
        return S(P(K[a, k], G.J2[k, b]), k) + S(P(G.K2[a, k], G.J2[k, b]), k)
    if kind == "diag":
        if g == t:
            return S(P(K[k, k], J[k, b]), k) + S(P(K[b, k], J[k, k]), k)
        return S(P(J[k, a], K[a, k]), k)
    if kind == "three_with_k":
        return S(P(P(K[a, k], J[k, b]), vg[k]), k)
    if kind == "with_rest":
        e = P(P(f0, K[a, k]), P(vt[b], P(J[k, b], f1)))
        return S(e, k)
    if kind == "interchange":
        # sum_k sum_j K[a,k] J[k,j] v[j]   (the inner sum has k free)
        return S(S(P(P(K[a, k], J[k, l]), vt[l]), l), k)
    if kind == "interchange3":
        m = G.index(g, avoid=(a, b, k, l))
        c = G.index(t, avoid=(a, b, k, l, m))
        inner = S(P(P(K[a, k], J[k, l]), P(K[l, m], J[m, c])), l)
        return S(S(P(inner, vt[c]), m), k)
    if kind == "interchange_rest":
        # the recursive _cancel sees a factor without k next to an inner sum: sum_k sum_j g[j] * (sum_l K[a,k] J[k,l] M[l,j])
        jj = G.index(t, avoid=(a, b, k, l))
        return S(S(P(vt[jj], S(P(P(K[a, k], J[k, l]), Mtt[l, jj]), l)), jj), k)
    if kind == "push_rest":
        # ... and next to an Indexed factor that is pushed into the inner sum: sum_k sum_j g[j] * K[a,k] * (sum_l J[k,l] M[l,j])
        jj = G.index(t, avoid=(a, b, k, l))
        return S(S(P(P(vt[jj], K[a, k]), S(P(J[k, l], Mtt[l, jj]), l)), jj), k)
    if kind == "push":
        return S(P(K[a, k], S(P(J[k, l], vt[l]), l)), k)
    if kind == "push_rev":
        return S(P(S(P(vt[l], J[k, l]), l), K[a, k]), k)
    if kind == "push_capture":
        # the free index of K is the index bound by the inner sum
        return S(P(K[l, k], S(P(J[k, l], vt[l]), l)), k)
    if kind == "identity":
        return S(P(It[a, l], vt[l]), l)
    if kind == "identity_rev":
        return S(P(Mtt[l, b], It[l, a]), l)
    if kind == "identity_fixed":
        return S(P(It[rng.randrange(t), l], P(vt[l], Mtt[l, a])), l)
    if kind == "identity_kk":
        from ufl.classes import Indexed
        return P(S(Indexed(It, MultiIndex((l, l))), l), f0)
    if kind == "identity_alone":
        return P(S(It[a, l], l), vt[a])
    if kind == "identity_two":
        return S(P(It[a, l], It[l, b]), l)
    if kind == "identity_fold":
        return P(G.raw(It, 0, 1), f0) + P(G.raw(It, 1, 1), f1) + S(P(It[0, l], vt[l]), l) + P(G.raw(It, 1, 0), G.raw(It, 0, 0))
    if kind == "identity_drop":
        # after the inner elimination the delta I[a,l'] is the only factor with l': eliminating it drops the free index a
        kk = G.index(t, avoid=(a, b, k, l))
        return S(S(P(P(It[kk, b], It[a, l]), vt[kk]), kk), l)
    if kind == "identity_drop_sum":
        kk = G.index(t, avoid=(a, b, k, l))
        return S(S(S(P(P(It[kk, b], It[a, l]), vt[kk]), kk), l), a)
    if kind == "identity_keep":
        # the free index of the delta also occurs in the remaining factors: nothing is lost
        kk = G.index(t, avoid=(a, b, k, l))
        return S(S(P(P(It[kk, b], It[a, l]), P(vt[kk], vt[a])), kk), l)
    if kind == "subst_capture":
        # the replacement index a is bound again inside the other factor
        return S(P(It[a, l], S(Mtt[a, l], a)), l)
    if kind == "subst_shadow":
        # the summation index l is bound again inside another factor, next to a use of a
        inner = S(P(vt[l], Mtt[l, a]), l)
        return S(P(P(It[a, l], vt[l]), P(inner, Mtt[l, l])), l)
    if kind == "subst_zero":
        from ufl.classes import Zero
        z = Zero((), (l.count(),), (t,))
        # (a zero with the free index l survives only where the constructors do not fold it: in a branch of a conditional)
        if rng.random() < 0.5:
            return S(P(It[a, l], ufl.conditional(ufl.lt(f0, f1), z, vt[l])), l)
        return S(P(It[l, rng.randrange(t)], ufl.conditional(ufl.gt(f0, f1), vt[l], z)), l)
    if kind == "restricted_in":
        return S(P(K("+")[a, k], J("+")[k, b]), k)
    if kind == "restricted_out":
        return S(P(K[a, k], J[k, b]), k)("+") * vt("-")[b]
    if kind == "rc_basic":
        return P(Power(dJ, ufl.as_ufl(2)), Power(Division(one, dJ), ufl.as_ufl(2)))
    if kind == "rc_net":
        return P(Power(dJ, ufl.as_ufl(3)), Power(Division(one, dJ), ufl.as_ufl(2))) * f0
    if kind == "rc_float":
        return P(P(Power(dJ, ufl.as_ufl(0.5)), f0), Power(Division(one, dJ), ufl.as_ufl(1.5)))
    if kind == "rc_nested_int":
        return P(Power(Power(f0, ufl.as_ufl(0.5)), ufl.as_ufl(2)), Division(one, f0))
    if kind == "rc_nested_half":
        return P(Power(Power(dJ, ufl.as_ufl(-1)), ufl.as_ufl(-2)), Division(one, Power(dJ, ufl.as_ufl(2))))
    if kind == "rc_power_merge":
        return P(Power(Power(f0, ufl.as_ufl(2)), ufl.as_ufl(0.5)), Division(one, f0))
    if kind == "rc_numerator":
        return P(Division(ufl.as_ufl(2), dJ), dJ) + P(Division(ufl.as_ufl(1.0), dJ), dJ)
    if kind == "rc_all_positive":
        return P(Power(dJ, ufl.as_ufl(2)), P(dJ, f0))
    if kind == "rc_two_bases":
        return P(P(dJ, Division(one, f0)), P(P(f0, f0), Division(one, Power(dJ, ufl.as_ufl(3)))))
    if kind == "rc_split":
        return P(P(f1, dJ), P(vt[a], P(Division(one, dJ), Division(one, dJ))))
    if kind == "rc_abs":
        return P(abs(dJ), Division(one, abs(dJ))) * f0
    if kind == "rc_free_index":
        return P(P(vt[a], dJ), P(Division(one, dJ), vt[a]))
    if kind == "rc_cplx":
        return P(Power(dJ, ufl.as_ufl(2)), Division(one, dJ)) * Power(f0, ufl.as_ufl(2))
    if kind == "grad_chain":
        # K[a,k] J[k,l] K[l,m] J[m,b] with all contractions
        m = G.index(g, avoid=(a, b, k, l))
        return S(S(S(P(P(K[a, k], J[k, l]), P(K[l, m], J[m, b])), l), m), k) * vt[b]
    if kind == "piola_div":
        # (1/detJ) J[i,j] v[j] differentiated and contracted with K:   sum_i sum_k K[k,i] * (1/detJ * J[i,j]) * M[j,k]
        i = G.index(g, avoid=(a, b, k, l))
        e = P(P(K[l, i], P(Division(one, dJ), J[i, a])), Mtt[a, l])
        return P(S(S(S(e, i), a), l), dJ)
    if kind == "sum_of_cancels":
        return S(P(K[a, k], J[k, b]), k) * vt[b] + S(P(It[a, l], vt[l]), l)
    if kind == "identity_shared_k":
        # ONE Index object is the summation index of two delta contractions with different partners (free a vs b)
        return P(S(P(It[a, l], vt[l]), l), S(P(It[b, l], Mtt[l, b]), l)) if rng.random() < 0.5 else S(P(It[a, l], vt[l]), l) * vt[a] + S(P(It[b, l], vt[l]), l) * vt[b]
    if kind == "identity_shared_k_fixed":
        return S(P(It[0, l], vt[l]), l) * f0 + S(P(It[1, l], vt[l]), l) * f1 + S(P(It[l, t - 1], Mtt[l, 0]), l)
    if kind == "kj_shared_k":
        return S(P(K[a, k], J[k, b]), k) * Mtt[a, b] + S(P(K[b, k], J[k, a]), k) * Mtt[a, b] + S(P(K[0, k], J[k, a]), k) * vt[a]
    if kind == "rc_minus_one":
        # a reciprocal with numerator -1 is not a pure power of its denominator
        m1 = ufl.as_ufl(rng.choice([-1, -1.0]))
        return P(Power(dJ, ufl.as_ufl(2)), Division(m1, dJ)) + P(P(f0, f0), Division(m1, f0)) * f1
    if kind == "rc_minus_one_odd":
        m1 = ufl.as_ufl(-1)
        return P(Power(dJ, ufl.as_ufl(4)), Power(Division(m1, dJ), ufl.as_ufl(3))) + P(dJ, Division(m1, Power(dJ, ufl.as_ufl(2)))) * f0
    if kind == "under_division":
        return S(P(K[a, k], J[k, a]), k) / (dJ * dJ) * dJ
    raise KeyError(kind)


def pipeline_cases():
    """integrands as the preprocessing hands them to cancel_jacobian_products (Piola-mapped elements)"""
    import ufl
    from utils import FiniteElement, LagrangeElement
    from ufl.algorithms.apply_algebra_lowering import apply_algebra_lowering
    from ufl.algorithms.apply_derivatives import apply_derivatives
    from ufl.algorithms.apply_function_pullbacks import apply_function_pullbacks
    from ufl.algorithms.remove_component_tensors import remove_component_tensors
    out = []
    for cell, g in [(ufl.triangle, 2), (ufl.triangle, 3), (ufl.tetrahedron, 3)]:
        t = cell.topological_dimension
        mesh = ufl.Mesh(LagrangeElement(cell, 1, (g,)))
        RT = FiniteElement("Raviart-Thomas", cell, 1, (t,), ufl.contravariant_piola, ufl.HDiv)
        NED = FiniteElement("N1curl", cell, 1, (t,), ufl.covariant_piola, ufl.HCurl)
        for el, forms in [(RT, ("div", "mass", "grad")), (NED, ("mass", "grad"))]:
            try:
                V = ufl.FunctionSpace(mesh, el)
                u, v = ufl.TrialFunction(V), ufl.TestFunction(V)
                for name in forms:
                    if name == "div" and g == t:
                        F = ufl.inner(ufl.div(u), ufl.div(v)) * ufl.dx
                    elif name == "mass":
                        F = ufl.inner(u, v) * ufl.dx
                    elif name == "grad" and g == t:
                        F = ufl.inner(ufl.grad(u), ufl.grad(v)) * ufl.dx
                    else:
                        continue
                    f = apply_function_pullbacks(F)
                    f = apply_algebra_lowering(f)
                    f = apply_derivatives(f)
                    f = remove_component_tensors(f)
                    out.append(("pipeline:%s:%s:%d" % (el._family if hasattr(el, "_family") else "el", name, g), f.integrals()[0].integrand()))
            except Exception:  # element/shape combination not supported by the test element classes
                continue
    return out


# ---------------------------------------------------------------- value environments
def value_env(rng, exprs, memo_ser):
    """exact values for every terminal of the expressions: J random full rank, K its (pseudo-)inverse, detJ != 0"""
    import ufl
    from ufl.classes import Jacobian, JacobianInverse, JacobianDeterminant, Coefficient, Constant
    from ufl.corealg.traversal import unique_pre_traversal
    terms = {}
    for e in exprs:
        for o in unique_pre_traversal(e):
            if o._ufl_is_terminal_ and isinstance(o, (Jacobian, JacobianInverse, JacobianDeterminant, Coefficient, Constant)):
                terms[repr(o)] = o
    geo = {}
    out = []

    def geom(mesh):
        key = repr(mesh)
        if key not in geo:
            g, t = mesh.geometric_dimension, mesh.topological_dimension
            while True:
                Jm = [[Fraction(rng.randint(-4, 4), rng.choice([1, 1, 2])) for _ in range(t)] for _ in range(g)]
                JtJ = mat_mul(transpose(Jm), Jm)
                inv = mat_inv(JtJ)
                if inv is not None:
                    break
            Km = mat_mul(inv, transpose(Jm))
            d = det(Jm) if g == t else Fraction(rng.choice([-3, -1, 1, 2, 5]), rng.choice([1, 2, 4]))
            if rng.random() < 0.5:
                d = abs(d)
            geo[key] = (Jm, Km, d)
        return geo[key]

    def flat(v, pre=()):
        if isinstance(v, (list, tuple)):
            for i, w in enumerate(v):
                yield from flat(w, pre + (i,))
        else:
            yield pre, v

    def rnd(shape, positive):
        if not shape:
            q = Fraction(rng.randint(1, 6), rng.choice([1, 1, 2, 4]))
            return q if (positive or rng.random() < 0.5) else -q
        return [rnd(shape[1:], positive) for _ in range(shape[0])]

    positive = rng.random() < 0.5
    for key, o in sorted(terms.items()):
        if isinstance(o, Jacobian):
            v = geom(o.ufl_domain())[0]
        elif isinstance(o, JacobianInverse):
            v = geom(o.ufl_domain())[1]
        elif isinstance(o, JacobianDeterminant):
            v = geom(o.ufl_domain())[2]
        else:
            v = rnd(o.ufl_shape, positive)
        k = uflio.enc(key)
        for c, q in flat(v):
            out.append("(V %s %s %d %d)" % (k, uflio.nats(c), q.numerator, q.denominator))
    return "(" + " ".join(out) + ")"


def needs_float(e):
    """a power whose exponent is not an integer literal: the exact evaluator has no value for it"""
    from ufl.classes import Power, IntValue, MathFunction
    from ufl.corealg.traversal import unique_pre_traversal
    for o in unique_pre_traversal(e):
        if isinstance(o, Power) and not isinstance(o.ufl_operands[1], IntValue):
            return True
        if isinstance(o, MathFunction):
            return True
    return False


def fi_dict(e):
    return dict(zip(e.ufl_free_indices, e.ufl_index_dimensions))


class C09(Prop):
    pid = "C09"
    lean_modules = ["UflVerif.Props.C09"]
    min_theorems = 4
    trusted = ["correspondence harness/props/c09.py + Drivers/C09.lean (model Model/CancelJacobian.lean); value oracle through Drivers/Expr.lean `eval`",
               "modelled rather than verified: the DAGTraverser caches (results are functions of structure, C19), object identity in reuse_if_untouched / `is summand` modelled by structural equality, "
               "Python int/float exponent arithmetic modelled by exact rationals (generated exponents are dyadic), mesh equality modelled by equality of repr(mesh), "
               "the recursion depth of _cancel bounded by 3*size+8 frames (a model that runs out of fuel answers `raises` and the correspondence fails)",
               "IndexReplacer is the model of C10 (`replIdx`), tied there and again here through IdentityEliminator"]
    assumptions = ["GeomOK: K is a left inverse of J on every domain (and a right inverse when gdim = tdim); Defined: denominators and bases of negative powers are non-zero, "
                   "bases of non-integer powers are positive; free-index values and components lie inside their extents",
                   "whole-pass theorems: expressions without ComponentTensor / ListTensor nodes (the pass runs after remove_component_tensors) whose Indexed nodes index terminals or their derivatives"]

    def regenerate(self, ctx):
        # the real-number instance (Real.rpow) is heavy to audit: quick tier checks the field-generic theorems only
        self.lean_modules = ["UflVerif.Props.C09", "UflVerif.Props.C09Live"] + ([] if ctx.quick else ["UflVerif.Props.C09Real"])
        # translator tie for the four guards the whole-pass theorem C09_all needs: which of them does the source under test have?
        import inspect
        import ufl.algorithms.cancel_jacobian_products as mod
        src = inspect.getsource(mod)
        body = lambda name: inspect.getsource(getattr(mod, name)) if hasattr(mod, name) else ""
        iss, ie, abe = body("IndexSumSimplifier"), body("IdentityEliminator"), body("_as_base_exponent")
        flags = dict(
            push=bool(re.search(r"if\s+j\.count\(\)\s+in\s+f1\.ufl_free_indices\s*:[^\n]*\n(\s*#[^\n]*\n)*\s*continue", iss)),
            subst=bool(re.search(r"if\s+touched\s*&\s*_bound_index_counts\(product\)\s*:[^\n]*\n(\s*#[^\n]*\n)*\s*return None", ie)),
            pow=bool(re.search(r"if\s+float\(exponent\._value\)\.is_integer\(\)\s*:", abe)),
            keep=bool(re.search(r"k\.count\(\)\s+not\s+in\s+fi\s+and\s+a\.count\(\)\s+not\s+in\s+fi\s*:[^\n]*\n(\s*#[^\n]*\n)*\s*return None", ie)))
        self.live_guards = flags
        b = lambda v: "true" if v else "false"
        text = ("/- GENERATED by harness/props/c09.py from the source of ufl/algorithms/cancel_jacobian_products.py: which of the four guards\n"
                "   (Model/CancelJacobian.lean, `Guards`) the code under test has.  Do not edit. -/\n"
                "import UflVerif.Model.CancelJacobian\n\nnamespace UflVerif\nnamespace Expr\n\n"
                "def liveGuards : Guards := ⟨%s, %s, %s, %s⟩\n\nend Expr\nend UflVerif\n" % (b(flags["push"]), b(flags["subst"]), b(flags["pow"]), b(flags["keep"])))
        p = LEAN / "UflVerif/Gen/CancelGuards.lean"
        return [(p.relative_to(LEAN), write_if_changed(p, text))]

    # ---------------- case streams
    def cases(self, ctx):
        rng = random.Random(ctx.seed * 9001 + 9)
        n_rand = 220 if ctx.quick else 4000
        reps = 2 if ctx.quick else 10
        self.gstats = {}
        for r in range(reps):
            for kind in DIRECTED:
                mk = ["sq2", "man", "tet", "sq2"][(r + len(kind)) % 4]
                if kind in ("jk_square",):
                    mk = ["sq2", "tet"][r % 2]
                if kind in ("jk_manifold", "kj_manifold"):
                    mk = "man"
                G = JGen(rng, reuse=1.0, kind=mk)
                try:
                    e = directed(G, kind)
                except Exception as ex:  # noqa
                    self.directed_failed.append("%s/%s: %s" % (kind, mk, type(ex).__name__))
                    continue
                yield G, e, kind
        for name, e in self.pipe:
            yield None, e, name
        for k in range(n_rand):
            G = JGen(rng, reuse=[0.0, 0.5, 0.9, 1.0][k % 4])
            try:
                e = G.expr(rng.randint(1, 4))
                if k % 3 == 0:
                    e = G.close_some(e)
            except Exception as ex:  # noqa  (the public operators reject the combination)
                self.rejected += 1
                continue
            for s, v in G.stats.items():
                self.gstats[s] = self.gstats.get(s, 0) + v
            if not isinstance(e, G.ufl.core.expr.Expr):      # the operators folded everything into a Python number
                e = G.ufl.as_ufl(e)
            yield G, e, "random"

    def run(self, ctx, ev):
        from ufl.algorithms.cancel_jacobian_products import (JacobianCanceller, IdentityEliminator, ReciprocalCanceller, cancel_jacobian_products)
        self.directed_failed, self.rejected = [], 0
        self.pipe = pipeline_cases()
        rng = random.Random(ctx.seed * 9001 + 909)
        passes = [("jc", lambda x: JacobianCanceller()(x)), ("ie", lambda x: IdentityEliminator()(x)),
                  ("rc", lambda x: ReciprocalCanceller()(x)), ("cancel", cancel_jacobian_products)]
        reqs, meta, memo, keep = [], [], {}, []
        greqs = []                      # the same inputs through the model with / without the guards (defect-class attribution)
        evreqs, evmeta = [], []
        self.bad = []
        hist = {}
        ncase = 0
        for G, e, kind in self.cases(ctx):
            ncase += 1
            keep.append((G, e))
            hist[kind if not kind.startswith("pipeline") else "pipeline"] = hist.get(kind if not kind.startswith("pipeline") else "pipeline", 0) + 1
            # inputs of the individual passes: the expression itself, and the output of the previous stage
            stage_in = {"jc": [e], "ie": [e], "rc": [e], "cancel": [e]}
            try:
                s1 = JacobianCanceller()(e)
                s2 = IdentityEliminator()(s1)
                if not (s1 == e):
                    stage_in["ie"].append(s1)
                if not (s2 == e) and not (s2 == s1):
                    stage_in["rc"].append(s2)
                keep += [s1, s2]
            except Exception:  # reported below through the per-pass run
                pass
            for name, fn in passes:
                for x in stage_in[name]:
                    try:
                        r = fn(x)
                        impl = "(ok %s)" % uflio.ser(r, memo)
                    except Exception as ex:  # noqa
                        r, impl = None, "(raises %s)" % type(ex).__name__
                    keep.append(r)
                    sx = uflio.ser(x, memo)
                    reqs.append("(%s%s %s)" % (name, SUFFIX, sx))
                    greqs.append((name, sx))
                    idx = len(meta)
                    meta.append((ncase, name, kind, x, r, impl))
                    if kind.startswith("pipeline"):
                        continue
                    if r is None:
                        self.bad.append((idx, "%s raises %s on a well-formed expression" % (name, impl[8:-1]), "raise"))
                        continue
                    # ---- oracle: shape / free indices with extents / value
                    if tuple(r.ufl_shape) != tuple(x.ufl_shape):
                        self.bad.append((idx, "%s changed the shape %s -> %s" % (name, x.ufl_shape, r.ufl_shape), "shape"))
                        continue
                    if fi_dict(r) != fi_dict(x):
                        self.bad.append((idx, "%s changed the free indices %s -> %s" % (name, fi_dict(x), fi_dict(r)), "fi"))
                        continue
                    for rep in range(2 if name == "cancel" else 1):
                        w = value_env(rng, [x, r], memo)
                        ienv = "(" + " ".join("(%d %d)" % (c, rng.randrange(d)) for c, d in fi_dict(x).items()) + ")"
                        comp = rng.choice(comps(x.ufl_shape))
                        evmeta.append((idx, len(evreqs), comp, needs_float(x) or needs_float(r)))
                        evreqs.append("(eval %s %s %s %s)" % (sx, uflio.nats(comp), w, ienv))
                        evreqs.append("(eval %s %s %s %s)" % (uflio.ser(r, memo), uflio.nats(comp), w, ienv))
        replies = leandrv.run_driver("C09", reqs)
        fails, unsupported, distinct, changed = [], 0, set(), 0
        per_pass = {}
        for (k, name, kind, x, r, impl), rq, rep in zip(meta, reqs, replies):
            if rep == "(unsupported)":
                unsupported += 1
                continue
            a = "(raises)" if impl.startswith("(raises") else impl
            if r is not None and not (r == x):
                changed += 1
                per_pass[name] = per_pass.get(name, 0) + 1
                if rq.count("(O ") >= 3:
                    distinct.add(rq)
            if canon(a) != canon(rep) and len(fails) < 10:
                fails.append(Failure("correspondence", name, "case %d [%s]: %s | impl: %s | model: %s" % (
                    k, kind, str(x)[:200], (str(r)[:250] if r is not None else impl), rep[:300]), case=rq[:4000]))
        vals = [parse_reply(v) for v in leandrv.run_driver("Expr", evreqs)]
        nval, nfloat, undefined = 0, 0, 0
        for (idx, i0, comp, fl) in evmeta:
            a, b = vals[i0], vals[i0 + 1]
            if a[0] not in ("ok", "okf") or b[0] not in ("ok", "okf"):
                continue
            if a[2] is None or not math.isfinite(a[2]):      # the input itself has no value here (division by zero, negative base)
                undefined += 1
                continue
            nval += 1
            if fl or a[0] == "okf" or b[0] == "okf":
                nfloat += 1
                same = b[2] is not None and math.isfinite(b[2]) and abs(a[2] - b[2]) <= 1e-9 * max(1.0, abs(a[2]), abs(b[2]))
                va, vb = a[2], b[2]
            else:
                same = _V(a[1]) == _V(b[1])
                va, vb = a[1], b[1]
            if not same:
                self.bad.append((idx, "%s changed the value of component %s from %s to %s" % (meta[idx][1], list(comp), va, vb), "value"))
        # ---- attribute failures to the proved defect classes (inputs outside the side conditions of the _partial theorems)
        out, seen = [], set()
        self.findings = {}
        if self.bad:
            badidx = sorted({i for i, _, _ in self.bad})
            names = ["", "G", "W", "P", "D", "S"]
            classes = [None, None, "power-merge", "push-capture", "dropped-index", "subst-capture"]
            gl = []
            for i in badidx:
                base, sx = greqs[i]
                gl += ["(%s%s %s)" % (base, g, sx) for g in names]
            grep = leandrv.run_driver("C09", gl)
            cls_of = {}
            for n, i in enumerate(badidx):
                rep = grep[len(names) * n: len(names) * (n + 1)]
                if rep[0] == rep[1]:
                    cls_of[i] = None                      # the guards change nothing on this input: not one of the proved classes
                    continue
                # the single guard that changes the model's answer (the substitution capture needs two: with the substitution
                # refused, the unguarded push branch reaches the same wrong result)
                cls_of[i] = next((c for c, r in zip(classes[2:], rep[2:]) if r != rep[0]), "subst-capture")
            for i, what, cat in self.bad:
                k, name, kind, x, r, impl = meta[i]
                if MODEL == "current" and cls_of[i] is not None:
                    self.findings.setdefault(cls_of[i], []).append("%s :: %s" % (what, str(x)[:200]))
                    continue
                key = "C09:%s:%s:%s" % (cat, name, kind)
                if key in seen:
                    continue
                seen.add(key)
                out.append(Witness(what=what + " :: " + str(x)[:200], key=key, data=dict(kind=cat, pass_=name, case=kind, expr=str(x)[:400], seed=ctx.seed, n=k)))
        self.witnesses = out
        ev.cov["evaluations"] = len(reqs)
        ev.cov["cases"] = ncase
        ev.cov["distinct_nontrivial"] = len(distinct)
        ev.cov["pass_changed_the_expression"] = changed
        ev.cov["changed_per_pass"] = per_pass
        ev.cov["value_checks"] = nval
        ev.cov["value_checks_in_floating_point"] = nfloat
        ev.cov["value_checks_skipped_input_undefined"] = undefined
        ev.cov["unsupported_skipped"] = unsupported
        ev.cov["traces_validated_against_impl"] = len(reqs) - unsupported
        ev.cov["case_kinds"] = hist
        ev.cov["generator_productions"] = self.gstats
        ev.cov["generator_rejected"] = self.rejected
        ev.cov["directed_constructions_failed"] = self.directed_failed
        ev.cov["pipeline_integrands"] = [n for n, _ in self.pipe]
        ev.cov["model_variant"] = MODEL
        ev.cov["defect_class_hits"] = {c: len(v) for c, v in self.findings.items()}
        ev.cov["rule"] = ("%d directed kinds (one per guard of the module: both contraction orders, manifold, two domains, diagonal, three factors, interchange, push into inner sums, "
                          "capture, Kronecker deltas with fixed/free/alone/double/folded entries, substitution capture/shadowing, restrictions, reciprocal powers with integer/dyadic/nested "
                          "exponents, numerators != 1, several bases) x mesh kinds (triangle 2D, triangle in 3D, tetrahedron), integrands from the real pipeline for Raviart-Thomas / N1curl, "
                          "and random products / index sums / sums over a pool of 2+2 Index objects with re-use rates 0, 0.5, 0.9, 1; every case through JacobianCanceller, IdentityEliminator, "
                          "ReciprocalCanceller (on the case and on the previous stage's output) and cancel_jacobian_products; non-trivial = distinct request with >= 3 operator nodes whose output "
                          "differs from its input") % len(DIRECTED)
        ev.cov["samples"] = [dict(pass_=m[1], kind=m[2], expr=str(m[3])[:140], result=str(m[4])[:140]) for m in meta if m[4] is not None and not (m[4] == m[3])][:6]
        return fails

    def correspondence(self, ctx, ev):
        return self.run(ctx, ev)

    def oracle(self, ctx, ev):
        out = list(getattr(self, "witnesses", []))[:6]
        known = {k["key"] for k in common.load_known().get("findings", []) if k.get("property") == "C09"}
        for cls, items in sorted(getattr(self, "findings", {}).items()):
            key = KNOWN_CLASSES[cls]
            out.append(Witness(what="%s (%d inputs of this class failed, first: %s)" % (cls, len(items), items[0][:200]), key=key, data=dict(cls=cls, seed=ctx.seed)))
        ev.cov["findings_pending"] = {cls: items[:3] for cls, items in getattr(self, "findings", {}).items()}
        return out

    def replay(self, ctx, data):
        d = data.get("data", {})
        c2 = common.Ctx(pid="C09", tier="quick", seed=int(d.get("seed", 0)))
        ev = common.Evidence(c2)
        self.run(c2, ev)
        for w in self.oracle(c2, ev):
            if w.key == data.get("key"):
                return w
        return None


PROP = C09()
