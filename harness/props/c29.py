"""C29 Commutative constructors are order independent (the canonical operand ordering is a consistent total preorder).
Tie: translators (typecode table; harness/translate/ordervariant.py: which sort keys the comparators of Constant / geometric
quantities / Zero of the tree under test compare, read from `_terminal_cmps` and the source of `cmp_expr` and of the comparators;
regenerated for every property by harness/common.py) + correspondence of `cmp_expr` with the Lean model `Expr.cmp` on generated pairs
(related by one edit, sharing sub-objects, different ranks/index patterns) and triples; oracle: antisymmetry, transitivity,
a+b == b+a, a*b == b*a, inner(a,b) == conj(inner(b,a)) on the implementation."""
import random, itertools
import common
from common import Prop, Witness, Failure, LEAN, write_if_changed
from translate import typecodes, ordervariant
import uflio, gen, leandrv


def sign(x):
    return -1 if x < 0 else (1 if x > 0 else 0)


def variants(rng, G, e):
    """expressions close to e: same shape and free indices, differing by one local edit"""
    import ufl
    out = []
    sh, fi = e.ufl_shape, e.ufl_free_indices
    idx = [i for i in G.idxdim if i.count() in fi]
    for _ in range(3):
        try:
            out.append(G.expr(sh, tuple(idx), rng.randint(0, 2)))
        except Exception:
            pass
    if not e._ufl_is_terminal_:
        ops = list(e.ufl_operands)
        k = rng.randrange(len(ops))
        o = ops[k]
        from ufl.classes import MultiIndex, Label
        if not isinstance(o, (MultiIndex, Label)):
            try:
                i2 = [i for i in G.idxdim if i.count() in getattr(o, "ufl_free_indices", ())]
                ops[k] = G.expr(o.ufl_shape, tuple(i2), rng.randint(0, 1))
                out.append(type(e)(*ops))
            except Exception:
                pass
        try:
            out.append(type(e)(*e.ufl_operands))      # equal but distinct object
        except Exception:
            pass
    return out


def deep_copy(e):
    """structurally equal expression built from fresh operator objects (terminals are shared)"""
    if e._ufl_is_terminal_:
        return e
    return e._ufl_expr_reconstruct_(*[deep_copy(o) for o in e.ufl_operands])


def shared_object_pairs(rng, G):
    """A re-uses one sub-expression *object* in two operand positions; B pairs the later-compared occurrence with an
    equal-but-distinct object and the other occurrence with a different expression (exercises cmp_expr's identity
    shortcut and its memo of pairs already found equal)"""
    import ufl
    out = []
    wraps = [ufl.exp, ufl.sin, abs, lambda x: x ** 2, lambda x: ufl.conditional(ufl.lt(x, 1), x, 2 * x)]
    binops = [lambda a, b: a / b, lambda a, b: ufl.atan2(a, b), lambda a, b: ufl.max_value(a, b), lambda a, b: ufl.as_vector([a, b])[G.idxpool[0]],
              lambda a, b: ufl.conditional(ufl.gt(a, b), a, b)]
    for _ in range(3):
        r = G.expr((), (), rng.randint(1, 2))
        r2 = G.expr((), (), rng.randint(1, 2))
        if r._ufl_is_terminal_:
            r = ufl.sin(r)
        w, bop = rng.choice(wraps), rng.choice(binops)
        try:
            A = bop(w(r), r)
            B = bop(w(r2), deep_copy(r))
            B2 = bop(w(deep_copy(r)), r2)
            out += [(A, B), (B, A), (A, B2), (B2, A), (A, deep_copy(A)), (B, B2)]
        except Exception:
            pass
    # the memo of pairs found equal: both expressions re-use TWO sub-expression objects (cf, cg resp. rebuilt copies), the pair that
    # differs sits in an EARLIER operand slot than pairs made of already-seen objects (operands are compared last to first)
    import ufl.classes as C
    cs = [c for cs_ in G.coeffs.values() for c in cs_ if c.ufl_shape == ()]
    if len(cs) >= 2:
        f, g = cs[0], cs[1]
        for un in (ufl.cos, ufl.exp):
            cf, cg = un(f), un(g)
            cf2, cg2 = un(f), un(g)
            try:
                A = ufl.atan2(ufl.sin(cf), cf / cg)
                B = ufl.atan2(ufl.sin(cg2), cf2 / cg2)
                A2 = ufl.max_value(cf * cg, ufl.max_value(cf, cg))
                B2 = ufl.max_value(cg2 * cf2 + 0, ufl.max_value(cf2, cg2)) if False else ufl.max_value(cg2 / cf2, ufl.max_value(cf2, cg2))
                out += [(A, B), (B, A), (A2, B2), (B2, A2)]
            except Exception:
                pass
        # equal but DISTINCT coefficient objects (same space and count, constructed twice) in the later-compared slot, a real
        # difference in the earlier one
        try:
            V = f.ufl_function_space()
            w1, w2 = ufl.Coefficient(V, count=f.count() + 1000), ufl.Coefficient(V, count=f.count() + 1000)
            out += [(C.Product(f, w1), C.Product(g, w2)), (C.Product(g, w2), C.Product(f, w1)), (ufl.atan2(f, w1), ufl.atan2(g, w2)), (ufl.atan2(g, w2), ufl.atan2(f, w1)),
                    (w1, w2), (w2, w1), (ufl.sin(w1), ufl.sin(w2))]
        except Exception:
            pass
    return out


def rank_pairs(G):
    """terminals of different rank indexed down to scalars: multi-indices of different length meet in cmp_expr"""
    import ufl
    out = []
    cs = [c for sh, l in G.coeffs.items() for c in l if sh]
    for c in cs:
        sh = c.ufl_shape
        out.append(c[tuple(0 for _ in sh)])
        out.append(c[tuple(d - 1 for d in sh)])
        if len(sh) >= 2:
            out.append(c[(0,) * (len(sh) - 1) + (1,)])
    return out


def keyed_terminal_pool(rng):
    """the terminals whose comparator compares a sort key (Constant, geometric quantities, Zero; by repr or by numbers,
    whichever the tree under test does): counts, mesh ids and free-index counts on both sides of 9/10, 99/100, 999/1000,
    different shapes / index dimensions / geometric and topological dimensions, and operators over them"""
    import ufl
    from utils import LagrangeElement
    from ufl.classes import Zero
    lo = rng.choice([8, 9, 98, 99, 998, 999])
    tri = LagrangeElement(ufl.triangle, 1, (2,))
    tri3 = LagrangeElement(ufl.triangle, 1, (3,))       # gdim 3, tdim 2
    tet = LagrangeElement(ufl.tetrahedron, 1, (3,))
    tri2 = LagrangeElement(ufl.triangle, 2, (2,))
    meshes = [ufl.Mesh(tri, ufl_id=lo), ufl.Mesh(tri, ufl_id=lo + 1), ufl.Mesh(tri, ufl_id=lo + 2), ufl.Mesh(tri3, ufl_id=lo - 1),
              ufl.Mesh(tet, ufl_id=lo - 2), ufl.Mesh(tri2, ufl_id=lo + 3),
              ufl.Mesh(tri2, ufl_id=lo)]      # the ufl_id of meshes[0] with another coordinate element: the keys differ in an object only
    consts = []
    for m in meshes[:4] + meshes[-1:]:
        for c in (lo, lo + 1, lo + 2, 5):
            consts.append(ufl.Constant(m, count=c))
    for m in meshes[:2]:
        consts += [ufl.Constant(m, (2,), count=lo + 1), ufl.Constant(m, (3,), count=lo), ufl.Constant(m, (2, 2), count=lo + 2),
                   ufl.Constant(m, (10,), count=lo), ufl.Constant(m, (9,), count=lo + 1)]
    geos = []
    for cls in (ufl.CellVolume, ufl.Circumradius, ufl.FacetArea):
        geos += [cls(m) for m in meshes]
    vgeos = [cls(m) for cls in (ufl.FacetNormal, ufl.SpatialCoordinate) for m in meshes]
    zeros = []
    for sh in ((), (2,), (3,), (10,), (9,), (2, 2)):
        zeros.append(Zero(sh))
    for (cs, ds) in (((lo,), (2,)), ((lo + 1,), (2,)), ((lo + 1,), (3,)), ((lo + 2,), (10,)), ((lo,), (9,)),
                     ((lo, lo + 1), (2, 3)), ((lo + 1, lo + 2), (3, 2)), ((lo + 1, lo + 2), (2, 3))):
        zeros.append(Zero((), cs, ds))
        zeros.append(Zero((2,), cs, ds))
    scal_c = [c for c in consts if c.ufl_shape == ()]
    pools = [consts, geos, vgeos, zeros]
    ops = []
    for _ in range(10):
        a, b = rng.sample(scal_c, 2)
        g, h = rng.sample(geos, 2)
        try:
            ops += [a * b, b * a, a + g, g + a, g * h, h * g, a * g + h, ufl.max_value(a, g), ufl.max_value(b, g), a / g, b / h]
        except TypeError:      # the constructor sorts its operands: see `comparable` below
            pass
    pools.append(ops)
    return pools


class C29(Prop):
    pid = "C29"
    lean_modules = ["UflVerif.Props.C29"]
    min_theorems = 8
    trusted = ["translators harness/translate/typecodes.py (typecode table), harness/translate/ordervariant.py (sort keys of the Constant / geometric quantity / Zero comparators, from the source of ufl/sorting.py); "
               "correspondence harness/props/c29.py + Drivers/Expr.lean `(cmp a b)`",
               "modelled rather than verified: `repr` of terminals compared by `_cmp_terminal_by_repr` and the domain `_ufl_sort_key_()` of Constants / geometric quantities are taken from the live object "
               "(key string; flattened tuple of ints and strs, the coordinate element as its repr: Python raises TypeError for two meshes with one ufl_id and different coordinate elements); float literal repr is modelled for dyadic literals only; "
               "the explicit stack, `is`-shortcuts and `equal_pairs` memo of cmp_expr are modelled by plain recursion (sound iff cmp is reflexive, which is proved)"]
    assumptions = ["Argument parts are compared as integers (None = -1); Python raises TypeError when one part is None and the other is not, for equal numbers",
                   "order independence of Sum/Product/Inner is claimed for operands with cmp != 0 (distinguishable without index/label numbers), as the property states"]

    def regenerate(self, ctx):
        text, n = typecodes.render()
        p = LEAN / "UflVerif/Gen/Typecodes.lean"
        return [(p.relative_to(LEAN), write_if_changed(p, text))]

    def build_cases(self, ctx):
        from ufl.sorting import cmp_expr
        rng = random.Random(ctx.seed * 31337 + 29)
        n = 120 if ctx.quick else 1500
        pairs, triples = [], []
        for k in range(n):
            G = gen.Gen(rng, gdim=rng.choice([2, 3]), math=True, compound=(k % 2 == 0), derivs=False, reuse=0.8)
            sh = rng.choice([(), (), (), (2,), (3,), (2, 2)])
            nfi = rng.choice([0, 0, 1, 2]) if sh == () else rng.choice([0, 0, 1])
            fi = tuple(rng.sample(G.idxpool, nfi))
            pool = [G.expr(sh, fi, rng.randint(1, 3)) for _ in range(3)]
            pool += variants(rng, G, pool[0]) + variants(rng, G, pool[1])
            if sh == () and not fi:
                pool += rng.sample(rank_pairs(G), 4)
            pool = [e for e in pool if e.ufl_shape == sh and set(e.ufl_free_indices) == {i.count() for i in fi}]
            for a, b in itertools.permutations(pool, 2):
                pairs.append((a, b))
            for t in itertools.permutations(rng.sample(pool, min(5, len(pool))), 3):
                triples.append(t)
            pairs += shared_object_pairs(rng, G)
        self.n_keyed, self.n_typeerror = 0, 0
        def comparable(a, b):
            # a sort key that contains objects without `<` (two meshes with one ufl_id and different coordinate elements, unless
            # the comparator makes the key sortable) makes Python raise TypeError: outside the model, counted
            try:
                cmp_expr(a, b)
                return True
            except TypeError:
                self.n_typeerror += 1
                return False
        for k in range(2 if ctx.quick else 12):
            for pool in keyed_terminal_pool(rng):
                sub = pool if len(pool) <= 18 else rng.sample(pool, 18)
                for a, b in itertools.permutations(sub, 2):
                    if comparable(a, b):
                        pairs.append((a, b)); self.n_keyed += 1
                for t in itertools.permutations(rng.sample(pool, min(6, len(pool))), 3):
                    if comparable(t[0], t[1]) and comparable(t[1], t[2]) and comparable(t[0], t[2]):
                        triples.append(t)
        return pairs, triples

    def correspondence(self, ctx, ev):
        import ufl
        from ufl.sorting import cmp_expr
        pairs, triples = self.build_cases(ctx)
        memo = {}
        reqs, impl = [], []
        for a, b in pairs:
            reqs.append("(cmp %s %s)" % (uflio.ser(a, memo), uflio.ser(b, memo)))
            impl.append(sign(cmp_expr(a, b)))
        replies = leandrv.run_driver("Expr", reqs)
        fails, nz, distinct = [], 0, set()
        for (a, b), rq, i, r in zip(pairs, reqs, impl, replies):
            if i != 0:
                nz += 1
            if rq.count("(O ") >= 3:
                distinct.add(rq)
            if r != "(ok %d)" % i and len(fails) < 10:
                fails.append(Failure("correspondence", "cmp_expr", "impl %d model %s on %s | %s" % (i, r, str(a)[:150], str(b)[:150]), case=rq[:2000]))
        # property oracle on the implementation
        self.bad = []
        cmpc = {}
        def c(a, b):
            k = (id(a), id(b))
            if k not in cmpc:
                cmpc[k] = sign(cmp_expr(a, b))
            return cmpc[k]
        for a, b in pairs:
            if c(a, b) != -c(b, a):
                self.bad.append(("cmp_expr is not antisymmetric: cmp(a,b)=%d, cmp(b,a)=%d" % (c(a, b), c(b, a)), dict(kind="antisym", a=str(a)[:300], b=str(b)[:300])))
            if c(a, b) != 0:
                try:
                    if not (a + b == b + a):
                        self.bad.append(("a + b != b + a although cmp(a,b) != 0", dict(kind="sum", a=str(a)[:300], b=str(b)[:300])))
                    if a.ufl_shape == () and not (set(a.ufl_free_indices) & set(b.ufl_free_indices)):
                        if not (a * b == b * a):
                            self.bad.append(("a * b != b * a although cmp(a,b) != 0", dict(kind="product", a=str(a)[:300], b=str(b)[:300])))
                    if a.ufl_shape != () and not a.ufl_free_indices:
                        if not (ufl.inner(a, b) == ufl.conj(ufl.inner(b, a))):
                            self.bad.append(("inner(a,b) != conj(inner(b,a)) although cmp(a,b) != 0", dict(kind="inner", a=str(a)[:300], b=str(b)[:300])))
                except Exception as ex:  # noqa
                    pass
        for a, b, d in triples:
            if c(a, b) <= 0 and c(b, d) <= 0 and c(a, d) > 0:
                self.bad.append(("cmp_expr is not transitive: a <= b <= c but a > c", dict(kind="trans", a=str(a)[:200], b=str(b)[:200], c=str(d)[:200])))
        ev.cov["evaluations"] = len(pairs) + len(triples)
        od = ordervariant.read()
        ev.cov["terminal_comparators"] = dict(variant={"R": "repr comparators", "N": "numeric comparators (fix_C12_1)", "M": "mixed"}[ordervariant.variant(od)],
                                              table=od["table"], chain=od["chain"], Constant=od["const"], GeometricQuantity=od["geo"], Zero=od["zero"])
        ev.cov["pairs_of_key_compared_terminals"] = self.n_keyed
        ev.cov["pairs_outside_model_cmp_expr_raises_TypeError"] = self.n_typeerror
        ev.cov["distinct_nontrivial"] = len(distinct)
        ev.cov["pairs_with_nonzero_cmp"] = nz
        ev.cov["triples"] = len(triples)
        ev.cov["traces_validated_against_impl"] = len(pairs)
        ev.cov["rule"] = ("ordered pairs/triples from per-case pools of same-type expressions: independent random ones, one-edit variants, equal-but-distinct rebuilds, "
                          "and scalars obtained by fixed-indexing tensors of different rank (multi-indices of different length); directed pools of Constants / geometric quantities / Zeros "
                          "(counts, mesh ids, free-index counts around 9/10, 99/100, 999/1000; several shapes, index dimensions, gdim/tdim) and operators over them; cmp_expr sign vs model for every ordered pair; "
                          "non-trivial = distinct pair request with >= 3 operator nodes")
        ev.cov["samples"] = [dict(a=str(a)[:120], b=str(b)[:120], cmp=i) for (a, b), i in list(zip(pairs, impl))[:5]]
        return fails

    def search(self, ctx, fails):
        """directed candidates: fixed-indexed tensors of different ranks (multi-indices of different lengths) in all orders"""
        import ufl
        from ufl.sorting import cmp_expr
        from utils import LagrangeElement
        mesh = ufl.Mesh(LagrangeElement(ufl.triangle, 1, (2,)))
        cs = []
        for sh in [(2,), (2, 2), (2,), (2, 2), (2, 2, 2), (2,)]:
            cs.append(ufl.Coefficient(ufl.FunctionSpace(mesh, LagrangeElement(ufl.triangle, 1, sh))))
        i = ufl.Index()
        cands = []
        for c in cs:
            n = len(c.ufl_shape)
            for key in itertools.product([0, 1], repeat=n):
                cands.append(c[key])
        for a, b, d in itertools.permutations(cands, 3):
            if cmp_expr(a, b) <= 0 and cmp_expr(b, d) <= 0 and cmp_expr(a, d) > 0:
                return Witness("cmp_expr is not transitive: %s <= %s <= %s but %s > %s" % (a, b, d, a, d), "C29:trans",
                               dict(kind="trans", a=repr(a), b=repr(b), c=repr(d)))
        return None

    def oracle(self, ctx, ev):
        out, seen = [], set()
        for w, d in getattr(self, "bad", []):
            if d["kind"] in seen:
                continue
            seen.add(d["kind"])
            out.append(Witness(what=w + " :: " + " | ".join(d.get(k, "") for k in ("a", "b", "c")), key="C29:" + d["kind"], data=d))
        return out


PROP = C29()
