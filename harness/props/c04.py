"""C04 diff() with respect to variables computes partial derivatives.
Ties.  (translator) Gen/DerivRules.lean family `variableFam`: op(v, v*v) for v = variable(f) and the tree the real expand_derivatives returns for
diff(op(v, v*v), v); Props/C02/Rules.lean proves C04_rule_instances (each is the directional rule with f = v, g = v^2, f' = 1, g' = 2v, hence
correct by the C02_rule_* theorems), Props/C02/Tie.lean C04_rules_tied (the hand model reproduces every regenerated tree).
(correspondence) the hand model `variableD` / `coeffD` (Model/Deriv.lean: the traversal `derivE` of GenericDerivativeRuleset shared with C02, with
the terminal rules of VariableRuleset) is compared tree-for-tree with apply_derivatives(VariableDerivative(e, v)) for scalar variables
v = variable(a) that occur in several places of generated expressions (also inside other variables) and for scalar coefficients used as
variable; the driver reports how often the decidable side conditions DOK of the composition theorem C04_diff_value_partial
(Props/C04.lean, the induction of Props/C02 carried out for both rulesets) hold.
Oracle on the implementation: value of expand_derivatives(diff(f, v)) against central finite differences of f in the value of v
(everything not expressed through v held fixed), scalar and tensor-valued v, shape f.shape + v.shape, repeated diff."""
import itertools, math, random, warnings
import common
from common import Prop, Witness, Failure, LEAN, write_if_changed
import uflio, gen, leandrv
import derivcommon as dc
from props.c05 import canon

leandrv.EXES["C02"] = "c02drv"

REFUSALS = (ValueError, NotImplementedError, ZeroDivisionError, ArithmeticError)


def at_kink(fun, h=1e-5):
    """one-sided difference quotients disagree: the sample point sits on a kink (min / max / abs / conditional at a tie), where no derivative exists;
    central differences at two step sizes agree there (piecewise linear), so derivcommon.fd alone does not notice"""
    f0, fp, fm = fun(0.0), fun(h), fun(-h)
    return any(abs((a - b) / h - (b - c) / h) > 1e-3 * max(1.0, abs(a - b) / h, abs(b - c) / h) for a, b, c in zip(fp, f0, fm))


def set_comp(val, comp, h):
    """nested tuple `val` with `h` added at component `comp`"""
    if not comp:
        return val + h
    return tuple(set_comp(v, comp[1:], h) if i == comp[0] else v for i, v in enumerate(val))


class C04(Prop):
    pid = "C04"
    lean_modules = ["UflVerif.Props.C04", "UflVerif.Props.C02.Tie", "UflVerif.Props.C02.Rules"]
    theorem_prefix = "C04_"
    min_theorems = 8
    trusted = ["translator harness/translate/derivrules.py (family `variableFam`)",
               "correspondence harness/props/c04.py + Drivers/C02.lean `(variable e label)` / `(coeff e key)`: hand model Model/Deriv.lean == apply_derivatives(VariableDerivative) on the generated inputs only",
               "oracle harness/props/c04.py + harness/derivcommon.py: central finite differences in the value of the variable",
               "modelled rather than verified: tensor-valued variables (identity tensors, fresh indices; the model returns `unsupported`), the dispatcher's handling of nested derivative "
               "nodes, the DAG caches; covered by the oracle only"]
    assumptions = ["Still (Props/C02/Defs.lean): along the family of valuations every occurrence of the variable has a value moving with unit speed and every terminal met elsewhere "
                   "(values, jets under grad) is constant — the formal reading of 'partial derivative with respect to the value of v, everything not expressed through v fixed'",
                   "Smooth and DOK as for C02 (non-zero denominators, positive bases of general powers, arguments off the kinks, locally constant conditions; decidable rebuild side conditions, "
                   "measured by the correspondence)"]

    def regenerate(self, ctx):
        from translate import derivrules
        txt, recs = derivrules.render()
        self.recs = recs
        p = LEAN / "UflVerif" / "Gen" / "DerivRules.lean"
        return [(p, write_if_changed(p, txt))]

    # ------------------------------------------------------------------ generation
    def gen_case(self, rng, k, tensor=False):
        """(G, e with the variable v in place of a pool coefficient c0, v, c0, a, e_plain): v = variable(a); e_plain has c0 where e has v"""
        import ufl
        from ufl.algorithms import replace
        from ufl.algorithms.analysis import extract_coefficients
        g = rng.choice([2, 2, 3])
        G = gen.Gen(rng, gdim=g, math=(k % 2 == 0), compound=(k % 6 == 0), derivs=False, cond=(k % 3 == 0), variables=(k % 2 == 1), reuse=0.7, minmax=(k % 5 == 0))
        sh = rng.choice([(), (), (), (2,), (2, 2)])
        e = ufl.as_ufl(G.expr(sh, (), rng.randint(1, 4)))
        present = [c for c in extract_coefficients(e) if (bool(c.ufl_shape) == tensor)]
        if not present:          # make the expression depend on a coefficient of the wanted kind
            ct = G.coeffs[(2,)][0] if tensor else G.coeffs[()][0]
            e = e * ((ct[0] * ct[1] + 2) if tensor else (ct * ct + 1.5))
            present = [ct]
        c0 = rng.choice(present)
        others = [c for c in G.coeffs.get(tuple(c0.ufl_shape), []) if c is not c0] or [ufl.Coefficient(c0.ufl_function_space())]
        r = rng.random()
        if r < 0.3:
            a = others[0]
        elif r < 0.6:
            a = others[0] * 2 + others[0] * G.coeffs[()][1] if c0.ufl_shape else ufl.sin(others[0]) + 2
        else:
            a = others[0] * G.consts[()][0] + others[0]
        v = ufl.variable(a)
        if k % 5 == 4 and not tensor:      # the coefficient itself as differentiation variable
            return G, e, c0, c0, None, e
        e2 = replace(e, {c0: v})
        return G, e2, v, c0, a, e

    def correspondence(self, ctx, ev):
        import ufl
        from ufl.algorithms.apply_algebra_lowering import apply_algebra_lowering
        from ufl.algorithms.apply_derivatives import apply_derivatives
        from ufl.classes import VariableDerivative, Zero, Variable
        fails = []
        for r in getattr(self, "recs", []):
            if "variable_error" in r:
                fails.append(Failure("translator", "rule:variable/" + r["name"], "expand_derivatives fails on an operator of the rule family: " + r["variable_error"]))
        rng = random.Random(ctx.seed * 7919 + 4)
        n = 320 if ctx.quick else 5000
        reqs, meta, keep = [], [], []
        memo = {}
        for k in range(n):
            try:
                case = self.gen_case(rng, k)
            except Exception:  # noqa
                continue
            if case is None:
                continue
            G, e2, v, c0, a, e = case
            keep.append(case)
            try:
                with warnings.catch_warnings():
                    warnings.simplefilter("ignore")
                    D = apply_algebra_lowering(ufl.diff(e2, v))
            except Exception:  # noqa
                continue
            if not isinstance(D, VariableDerivative):
                continue
            e0, vv = D.ufl_operands
            try:
                with warnings.catch_warnings():
                    warnings.simplefilter("ignore")
                    r = apply_derivatives(D)
                impl = "(ok %s)" % uflio.ser(r, memo)
            except Exception as ex:  # noqa
                r, impl = None, "(raises)"
            keep.append((D, r))
            if isinstance(vv, Variable):
                rq = "(variable %s %s)" % (uflio.ser(e0, memo), uflio.enc(repr(vv.ufl_operands[1])))
            else:
                rq = "(coeff %s %s)" % (uflio.ser(e0, memo), uflio.enc(repr(vv)))
            reqs.append(rq)
            if isinstance(vv, Variable):
                reqs.append("(dokv %s %s -)" % (uflio.ser(e0, memo), uflio.enc(repr(vv.ufl_operands[1]))))
            else:
                reqs.append("(dokv %s - %s)" % (uflio.ser(e0, memo), uflio.enc(repr(vv))))
            meta.append((k, e2, v, r, impl))
        replies = leandrv.run_driver("C02", reqs)
        st = dict(agree=0, unsupported=0, both_raise=0, zero_result=0, coefficient_as_variable=0, wf=0, dok=0)
        distinct = set()
        for t, (k, e2, v, r, impl) in enumerate(meta):
            rq, rep, okrep = reqs[2 * t], replies[2 * t], replies[2 * t + 1]
            if rep == "(unsupported)":
                st["unsupported"] += 1
                continue
            if canon(uflio.alpha(impl)) != canon(uflio.alpha(rep)):
                if len(fails) < 10:
                    fails.append(Failure("correspondence", "variable", "case %d: diff(%s, %s) | impl: %s | model: %s" % (
                        k, str(e2)[:200], str(v)[:60], (str(r)[:200] if r is not None else impl), rep[:300]), case=rq[:3000]))
                continue
            st["agree"] += 1
            if rq.startswith("(coeff"):
                st["coefficient_as_variable"] += 1
            if impl == "(raises)":
                st["both_raise"] += 1
            elif isinstance(r, Zero):
                st["zero_result"] += 1
            elif rq.count("(O ") >= 3:
                distinct.add(rq)
            if impl != "(raises)" and okrep.startswith("(ok "):
                a_, b_ = okrep[4:-1].split()
                st["wf"] += int(a_)
                st["dok"] += int(a_) * int(b_)
        ev.cov["theorem_domain"] = dict(supported_results=st["agree"] - st["both_raise"], well_formed=st["wf"], side_conditions_DOK_hold=st["dok"])
        ev.cov["evaluations"] = len(meta)
        ev.cov["distinct_nontrivial"] = len(distinct)
        ev.cov["traces_validated_against_impl"] = st["agree"]
        ev.cov["correspondence_outcomes"] = st
        ev.cov["rules_regenerated"] = len(getattr(self, "recs", []))
        ev.cov["rule"] = ("correspondence: expand_derivatives(diff(e, v)) for v = variable(a) substituted for a pool coefficient of a generated expression (so v occurs in several places, also "
                          "inside other variables) and for a scalar coefficient used as variable, tree-exact after alpha-renaming; non-trivial = distinct request with >= 3 operator nodes and a "
                          "non-zero derivative")
        ev.cov["samples"] = [dict(expr=str(e2)[:100], v=str(v)[:40], result=str(r)[:100]) for (k, e2, v, r, impl) in meta[:3]]
        return fails

    # ------------------------------------------------------------------ oracle
    def one(self, rng, k):
        import ufl
        from ufl.algorithms import expand_derivatives
        from ufl.algorithms.analysis import extract_type
        tensor = (k % 3 == 2)
        case = self.gen_case(rng, 2 * k + 1 if k % 2 else 2 * k, tensor=tensor)
        if case is None and tensor:
            tensor = False
            case = self.gen_case(rng, 2 * k, tensor=False)
        if case is None:
            return None
        G, e2, v, c0, a, e = case
        g = G.gdim
        second = (k % 7 == 5) and not tensor
        if second:          # repeated diff: with respect to the coefficient itself (the first derivative is then expressed through it)
            e2, v, a = e, c0, None
        base = e
        with warnings.catch_warnings():
            warnings.simplefilter("ignore")
            try:
                D = ufl.diff(e2, v)
                if second:
                    base = expand_derivatives(D)
                    D = ufl.diff(D, v)
                X = expand_derivatives(D)
            except REFUSALS:
                return ("refused", "diff", [])
        desc = "%sdiff of an expression of shape %s w.r.t. a %s of shape %s" % ("second " if second else "", tuple(e.ufl_shape),
                                                                               "coefficient" if a is None else "variable", tuple(v.ufl_shape))
        ts = {c0}
        for ex in (e, base, X) + ((a,) if a is not None else ()):
            for cls in (ufl.classes.Coefficient, ufl.classes.Constant):
                ts |= set(extract_type(ex, cls))
        m = {}
        x0 = tuple(rng.uniform(-0.5, 0.5) for _ in range(g))
        for t in sorted(ts, key=lambda t: (type(t).__name__, repr(t))):
            def nest(sh):
                return tuple(nest(sh[1:]) for _ in range(sh[0])) if sh else rng.uniform(0.4, 1.4)
            m[t] = nest(tuple(t.ufl_shape))          # plain values: no spatial derivatives occur
        if a is not None:
            aval = ufl.as_ufl(a)(x0, m) if not a.ufl_shape else None
            if a.ufl_shape:
                flat = dc.evaluate(a, x0, m)
                def build(sh, it):
                    return tuple(build(sh[1:], it) for _ in range(sh[0])) if sh else next(it)
                aval = build(tuple(a.ufl_shape), iter(flat))
        else:
            aval = m[c0]
        vcomps = dc.comps(v.ufl_shape)
        shX = tuple(X.ufl_shape)
        want_shape = tuple(e.ufl_shape) + tuple(v.ufl_shape)
        problems = []
        if shX != want_shape:
            return ("checked", desc, ["shape %s, expected f.shape + v.shape = %s" % (shX, want_shape)])
        got = dict(zip(dc.comps(shX), dc.evaluate(X, x0, m)))

        def value_at(expr, shift_comp, h):
            m2 = dict(m)
            m2[c0] = set_comp(aval, shift_comp, h)
            return dc.evaluate(expr, x0, m2)
        for vc in vcomps:
            d, ok = dc.fd(lambda h: value_at(base, vc, h))
            if not ok or at_kink(lambda h: value_at(base, vc, h)):
                return ("nonsmooth", desc, [])
            for c_, val in zip(dc.comps(e.ufl_shape), d):
                if not dc.close([got[c_ + vc]], [val], 3e-5):
                    problems.append("component %s evaluates to %.9g, finite differences in the value of the variable give %.9g" % (list(c_ + vc), got[c_ + vc], val))
                    return ("checked", desc, problems)
        return ("checked", desc, problems)

    def oracle(self, ctx, ev):
        rng = random.Random(ctx.seed * 6151 + 4)
        n = 120 if ctx.quick else 3000
        out, seen, stats, samples = [], set(), {"checked": 0, "nonsmooth": 0, "refused": 0, "skipped": 0}, []
        for k in range(n):
            try:
                r = self.one(rng, k)
            except ZeroDivisionError:
                stats["nonsmooth"] += 1
                continue
            except (OverflowError, ValueError) as ex:
                if "math domain" in str(ex) or isinstance(ex, OverflowError):
                    stats["nonsmooth"] += 1
                    continue
                stats["refused"] += 1
                continue
            except REFUSALS:
                stats["refused"] += 1
                continue
            except Exception as ex:  # noqa
                r = ("crashed", "diff case %d" % k, ["expand_derivatives / evaluation crashed with %s: %s" % (type(ex).__name__, str(ex)[:160])])
            if r is None:
                stats["skipped"] += 1
                continue
            kind, desc, problems = r
            stats[kind] = stats.get(kind, 0) + 1
            if len(samples) < 4 and kind == "checked":
                samples.append(desc)
            if problems:
                key = "C04:" + kind + ":" + desc.split(" of an")[0] + ":" + problems[0].split(" ")[0]
                if key not in seen and len(out) < 5:
                    seen.add(key)
                    out.append(Witness("%s: %s" % (desc, problems[0]), key, dict(kind="value", seed=ctx.seed, k=k, problems=problems[:3])))
        ev.cov["oracle_evaluations"] = n
        ev.cov["oracle_outcomes"] = stats
        ev.cov["oracle_rule"] = ("value of expand_derivatives(diff(f, v)) vs central differences of f in the value of v (each component of a tensor-valued v), v = variable(a) occurring in several "
                                 "places / a coefficient; shape must be f.shape + v.shape")
        ev.cov["oracle_samples"] = samples
        # second, directed oracle (harness/c04_directed.py): constant-valued variables, nested variables, repeated diff, two variables of
        # one shape, one operator of the rule family applied to v
        import c04_directed
        d = c04_directed.C04Directed()
        ev2 = common.Evidence(ctx)
        for w in d.oracle(ctx, ev2):
            w.data["directed"] = True
            out.append(w)
        ev.cov["directed_oracle_outcomes"] = ev2.cov.get("oracle_outcomes")
        ev.cov["directed_oracle_rule"] = ev2.cov.get("rule")
        return out

    def replay(self, ctx, data):
        d = data.get("data", {})
        if d.get("directed"):
            import c04_directed
            return c04_directed.C04Directed().replay(ctx, data)
        rng = random.Random(int(d.get("seed", 0)) * 6151 + 4)
        r = None
        for k in range(int(d.get("k", 0)) + 1):
            try:
                r = self.one(rng, k)
            except Exception as ex:  # noqa
                r = ("raised", "case", [str(ex)]) if k == int(d.get("k", 0)) else None
        if r and r[2]:
            return Witness("%s: %s" % (r[1], r[2][0]), data.get("key", "C04"), d)
        return None


PROP = C04()
