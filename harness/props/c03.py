"""C03 Spatial derivatives are lowered to exact derivatives of terminals.
Tie (translator): Gen/DerivRules.lean holds the trees the real expand_derivatives returns for grad(op(f, g)) for every scalar
operator; Props/C02/Rules.lean proves C03_rule_components (each component of the spatial rule is the directional rule applied to
the operand gradients' components) and, through the C02_rule_* theorems (Mathlib HasDerivAt), that each rule is the true
derivative of the operator.
Oracle / failing-input search on the implementation: expand_derivatives of grad, div, curl, nabla_grad, nabla_div, .dx (nested up to
two levels) of generated expressions over smooth polynomial fields is evaluated and compared with finite differences of the
un-differentiated expression; the result must contain derivatives of terminals only."""
import itertools, math, random, warnings
import common
from common import Prop, Witness, Failure, LEAN, write_if_changed
import gen
import derivcommon as dc


def spec_from_gradient(op, shape, g, G):
    """G[c + (k,)] = d e_c / d x_k (dict).  Returns dict component -> value of op(e)."""
    cs = dc.comps(shape)
    if op == "grad":
        return {c + (k,): G[c + (k,)] for c in cs for k in range(g)}
    if op == "nabla_grad":
        return {(k,) + c: G[c + (k,)] for c in cs for k in range(g)}
    if op == "div":
        return {c: sum(G[c + (k,) + (k,)] for k in range(g)) for c in dc.comps(shape[:-1])}
    if op == "nabla_div":
        return {c: sum(G[(k,) + c + (k,)] for k in range(g)) for c in dc.comps(shape[1:])}
    if op.startswith("dx"):
        i = int(op[2:])
        return {c: G[c + (i,)] for c in cs}
    if op == "curl":
        if shape == ():
            return {(0,): G[(1,)], (1,): -G[(0,)]}
        if shape == (2,):
            return {(): G[(1, 0)] - G[(0, 1)]}
        D = lambda i, j: G[(j, i)] - G[(i, j)]       # d a_j / d x_i - d a_i / d x_j
        return {(0,): D(1, 2), (1,): D(2, 0), (2,): D(0, 1)}
    raise KeyError(op)


def applicable(op, shape, g):
    if op in ("grad", "nabla_grad") or op.startswith("dx"):
        return True
    if op == "div":
        return len(shape) >= 1 and shape[-1] == g
    if op == "nabla_div":
        return len(shape) >= 1 and shape[0] == g
    if op == "curl":
        return (g == 2 and shape in ((), (2,))) or (g == 3 and shape == (3,))
    return False


def ufl_domains(e):
    import ufl
    return ufl.domain.extract_domains(e)


def build(op, e):
    import ufl
    e = ufl.as_ufl(e)       # a generated operand can fold to a Python number (e.g. an operator of two literals)
    if op.startswith("dx"):
        return e.dx(int(op[2:]))
    return getattr(ufl, op)(e)


class C03(Prop):
    pid = "C03"
    lean_modules = ["UflVerif.Props.C02.Rules"]
    theorem_prefix = "C0"          # the rule theorems are shared by C02 / C03 / C04 (C02_rule_*, C03_rule_components, C04_rule_*)
    min_theorems = 30
    trusted = ["translator harness/translate/derivrules.py (embeds the trees the real expand_derivatives returns for each operator)",
               "oracle harness/props/c03.py + harness/derivcommon.py: finite differences (two step sizes, kinks skipped) of UFL's own point evaluation",
               "modelled rather than verified: the theorems cover the per-operator rules (scalar operands); their composition by the traversal (chain rule through nesting, index plumbing of "
               "tensor-valued derivatives, the Grad-specific terminal rules, geometric quantities) is covered by the oracle only; erf / atan2 / Bessel functions have no Mathlib counterpart "
               "(atan2 is proved as arctan(f/g), erf only in algebraic form)"]
    assumptions = ["smoothness: non-zero denominators, positive bases of general powers, arguments off the kinks of abs / sqrt / min / max / conditionals (stated per rule theorem)"]

    def regenerate(self, ctx):
        from translate import derivrules
        txt, recs = derivrules.render()
        self.recs = recs
        p = LEAN / "UflVerif" / "Gen" / "DerivRules.lean"
        return [(p, write_if_changed(p, txt))]

    def correspondence(self, ctx, ev):
        fails = []
        for r in getattr(self, "recs", []):
            for fam in ("gateaux", "grad", "variable"):
                if fam + "_error" in r:
                    fails.append(Failure("translator", "rule:%s/%s" % (fam, r["name"]), "expand_derivatives fails on an operator of the rule family: " + r[fam + "_error"]))
        ev.cov["rules_regenerated"] = 3 * len(getattr(self, "recs", []))
        return fails

    OPS = ["grad", "grad", "div", "curl", "nabla_grad", "nabla_div", "dx0", "dx1"]
    DIRECTED = [(3, "curl", (3,)), (2, "curl", (2,)), (2, "curl", ()), (3, "div", (3,)), (2, "div", (2, 2)), (3, "div", (2, 3)), (3, "nabla_div", (3,)),
                (2, "nabla_div", (2, 3)), (3, "nabla_grad", (3,)), (2, "nabla_grad", (2, 2)), (3, "grad", (2, 3)), (2, "grad", ()), (3, "dx1", (3,)), (2, "dx0", (2, 2)),
                (3, "curl", (3,)), (3, "nabla_div", (3, 3))]

    def gen_case(self, rng, k):
        g = rng.choice([2, 2, 3])
        G = gen.Gen(rng, gdim=g, math=(k % 2 == 0), compound=(k % 3 == 0), derivs=False, cond=(k % 5 == 0), variables=(k % 4 == 0),
                    reuse=0.6, minmax=(k % 7 == 0))
        ops = [o for o in self.OPS if not (o == "dx1" and g < 2)]
        if k < len(self.DIRECTED):
            # every operator on every operand shape it accepts, in 2D and 3D, on every run (a random draw can miss one branch of the lowering)
            g, op, shape = self.DIRECTED[k]
            G = gen.Gen(rng, gdim=g, math=False, compound=False, derivs=False, cond=False, variables=False, reuse=0.6, minmax=False)
            for _ in range(20):
                try:
                    e = G.expr(shape, (), rng.randint(1, 2))
                    if tuple(e.ufl_shape) == tuple(shape) and ufl_domains(e):
                        return G, g, op, e
                except Exception:
                    continue
        if k % 4 == 2:
            # directed: one operator of the rule family applied to generated smooth scalar operands (variable exponents, quotients, ...)
            import ufl
            from translate import derivrules
            names = sorted(derivrules.operators())
            name = names[(k // 4) % len(names)]
            ar, mk = derivrules.operators()[name]
            try:
                a = G.expr((), (), rng.randint(0, 2))
                b = G.expr((), (), rng.randint(0, 2))
                if name in ("power", "powerHalf5", "sqrt", "ln", "powerNeg1", "division"):
                    a = a * a + 1 + rng.choice([0.25, 0.5])          # positive base / argument
                if name in ("acos", "asin"):
                    a = ufl.sin(a) * 0.5
                if name in ("posRestricted", "negRestricted"):
                    raise ValueError("restricted expressions cannot be point-evaluated")
                e = ufl.as_ufl(mk(a) if ar == 1 else mk(a, b))
                if not ufl.domain.extract_domains(e):
                    raise ValueError("the operands folded to a literal: no domain, UFL (rightly) cannot take its gradient")
                return G, g, rng.choice(["grad", "dx0", "nabla_grad"]), e
            except Exception:
                pass
        for _ in range(20):
            op = rng.choice(ops)
            shape = rng.choice([(), (), (g,), (g,), (2,), (3,), (g, g), (2, 3)])
            if not applicable(op, shape, g) or not all(d in (2, 3) for d in shape):
                continue
            try:
                e = G.expr(shape, (), rng.randint(1, 3))
            except Exception:
                continue
            return G, g, op, e
        return None

    def one(self, rng, k):
        import ufl
        from ufl.algorithms import expand_derivatives
        case = self.gen_case(rng, k)
        if case is None:
            return None
        G, g, op, e = case
        nested = None
        if k % 3 == 1:
            for _ in range(5):
                op2 = rng.choice(self.OPS)
                sh1 = tuple(build(op, e).ufl_shape)
                if applicable(op2, sh1, g) and not (op2 == "dx1" and g < 2) and len(sh1) <= 3:
                    nested = op2
                    break
        inner_src = e if nested is None else build(op, e)
        outer_op = op if nested is None else nested
        D = build(outer_op, inner_src)
        desc = "%s(%s%s) of an expression of shape %s in %dD" % (outer_op, (op + "(" if nested else ""), (".)" if nested else "."), tuple(e.ufl_shape), g)
        # fields
        m = {}
        for t in G.terminals():
            if t is G.x:
                continue
            if isinstance(t, ufl.Constant):
                def nest(sh):
                    return tuple(nest(sh[1:]) for _ in range(sh[0])) if sh else rng.uniform(0.5, 1.5)
                m[t] = nest(tuple(t.ufl_shape))
            else:
                m[t] = dc.Field(rng, t.ufl_shape, g)
        x0 = tuple(rng.uniform(-0.5, 0.5) for _ in range(g))
        with warnings.catch_warnings():
            warnings.simplefilter("ignore")
            X = expand_derivatives(D)
            inner = expand_derivatives(inner_src)
        problems = []
        if not dc.only_terminal_derivatives(X):
            problems.append("the expanded expression still applies a derivative to a non-terminal")
        sh_in = tuple(inner.ufl_shape)
        # finite-difference gradient of the inner expression
        Gtab, smooth = {}, True
        cs = dc.comps(sh_in)
        for kdir in range(g):
            def fun(h, kdir=kdir):
                xx = tuple(x0[i] + (h if i == kdir else 0.0) for i in range(g))
                return dc.evaluate(inner, xx, m)
            d, ok = dc.fd(fun)
            smooth = smooth and ok
            for c, v in zip(cs, d):
                Gtab[c + (kdir,)] = v
        if not smooth:
            return ("nonsmooth", desc, [])
        want = spec_from_gradient(outer_op, sh_in, g, Gtab)
        shX = tuple(X.ufl_shape)
        if sorted(want) != sorted(dc.comps(shX)):
            problems.append("shape %s, the operator has components %s" % (shX, sorted(want)[-1:]))
        else:
            got = dict(zip(dc.comps(shX), dc.evaluate(X, x0, m)))
            for c in want:
                if not dc.close([got[c]], [want[c]], 3e-5):
                    problems.append("component %s evaluates to %.9g, finite differences of the operand give %.9g" % (list(c), got[c], want[c]))
                    break
        return ("checked", desc, problems)

    def two_meshes(self, rng):
        """one expand_derivatives call on a form with integrals on a 2D and a 3D mesh: each integrand must have the value it has
        when expanded on its own (rulesets cached across integrals must not leak the geometric dimension)"""
        import ufl
        from ufl.algorithms import expand_derivatives
        from utils import LagrangeElement
        out = []
        ms = {}
        for cell, g in ((ufl.triangle, 2), (ufl.tetrahedron, 3)):
            mesh = ufl.Mesh(LagrangeElement(cell, 1, (g,)))
            f = ufl.Coefficient(ufl.FunctionSpace(mesh, LagrangeElement(cell, 2)))
            u = ufl.Coefficient(ufl.FunctionSpace(mesh, LagrangeElement(cell, 2, (g,))))
            x = ufl.SpatialCoordinate(mesh)
            e = ufl.div(x) * f + ufl.inner(ufl.grad(x), ufl.grad(u)) + ufl.div(u * f) + ufl.inner(ufl.grad(f), ufl.grad(f * f))
            ms[g] = (mesh, f, u, e)
        order = [2, 3] if rng.random() < 0.5 else [3, 2]
        F = ms[order[0]][3] * ufl.dx(ms[order[0]][0]) + ms[order[1]][3] * ufl.dx(ms[order[1]][0])
        X = expand_derivatives(F)
        for itg in X.integrals():
            g = itg.ufl_domain().geometric_dimension
            mesh, f, u, e = ms[g]
            m = {f: dc.Field(rng, (), g), u: dc.Field(rng, (g,), g)}
            x0 = tuple(rng.uniform(-0.5, 0.5) for _ in range(g))
            try:
                together = dc.evaluate(itg.integrand(), x0, m)
                alone = dc.evaluate(expand_derivatives(e), x0, m)
            except Exception as ex:  # noqa
                out.append("integrand on the %dD mesh of a 2D/3D coupled form cannot be evaluated after expansion: %s" % (g, str(ex)[:120]))
                continue
            if not dc.close(together, alone, 1e-9):
                out.append("integrand on the %dD mesh of a 2D/3D coupled form evaluates to %s, expanded on its own to %s" % (g, together, alone))
        return out

    def oracle(self, ctx, ev):
        rng = random.Random(ctx.seed * 2713 + 3)
        n = 110 if ctx.quick else 3000
        out, seen, stats, samples = [], set(), {"checked": 0, "nonsmooth": 0, "raised": 0, "skipped": 0}, []
        for k in range(n):
            st = rng.getstate()
            try:
                r = self.one(rng, k)
            except ZeroDivisionError:
                stats["nonsmooth"] += 1
                continue
            except (OverflowError, ValueError) as ex:
                if "math domain" in str(ex) or isinstance(ex, OverflowError):
                    stats["nonsmooth"] += 1
                    continue
                if "geometric dimension" in str(ex):        # an operand made of literals only has no mesh: not in the operator's domain
                    stats["skipped"] += 1
                    continue
                r = ("raised", "case %d" % k, ["expand_derivatives / evaluation raised %s: %s" % (type(ex).__name__, str(ex)[:160])])
            except Exception as ex:  # noqa
                r = ("raised", "case %d" % k, ["expand_derivatives / evaluation raised %s: %s" % (type(ex).__name__, str(ex)[:160])])
            if r is None:
                stats["skipped"] += 1
                continue
            kind, desc, problems = r
            stats[kind] = stats.get(kind, 0) + 1
            if len(samples) < 4:
                samples.append(desc)
            if problems:
                key = "C03:" + desc.split(" of an")[0] + ":" + problems[0].split(" ")[0]
                if key not in seen and len(out) < 5:
                    seen.add(key)
                    out.append(Witness("%s: %s" % (desc, problems[0]), key, dict(kind="value", seed=ctx.seed, k=k, problems=problems[:3])))
        for _ in range(2 if ctx.quick else 20):
            for msg in self.two_meshes(rng):
                key = "C03:two-meshes"
                if key not in seen:
                    seen.add(key)
                    out.append(Witness(msg, key, dict(kind="two-meshes", seed=ctx.seed)))
        ev.cov["evaluations"] = n
        ev.cov["distinct_nontrivial"] = stats["checked"]
        ev.cov["oracle_outcomes"] = stats
        ev.cov["rule"] = ("oracle: grad / div / curl / nabla_grad / nabla_div / .dx (every third case nested twice) of generated expressions (arithmetic, index notation, math functions, "
                          "compound algebra, conditionals, variables) over quadratic polynomial fields in 2D/3D; distinct_nontrivial = cases that were smooth at the sample point and compared")
        ev.cov["samples"] = samples
        return out

    def replay(self, ctx, data):
        d = data.get("data", {})
        rng = random.Random(int(d.get("seed", 0)) * 2713 + 3)
        r = None
        for k in range(int(d.get("k", 0)) + 1):
            try:
                r = self.one(rng, k)
            except Exception as ex:  # noqa
                r = ("raised", "case", [str(ex)])
        if r and r[2]:
            return Witness("%s: %s" % (r[1], r[2][0]), data.get("key", "C03"), d)
        return None


PROP = C03()
