"""C01 Form preprocessing preserves the meaning of every integral.

Tie (translator): harness/translate/pipeline.py parses the source of `compute_form_data` (with `preprocess_form`,
`attach_estimated_degrees`, `FormData.__init__` and its helpers inlined) on every run and writes the guarded sequence of calls to
Gen/Pipeline.lean; Model/Pipeline.lean classifies the calls, builds `pipeline : valuation -> passes` and the stage lattice;
Props/C01.lean re-proves by kernel evaluation over all 2^k valuations of the guard atoms that every pass finds its stage
precondition established, that the final stage is the one the options promise, that scaling runs exactly once iff requested,
and composes the per-pass preservation hypotheses along the generated list (`C01_pipeline_preserves`).
Tie (correspondence): (1) the model's pass list and per-stage node-kind sets against the traced calls of the real
`compute_form_data` on generated forms x option sets (and on all option combinations in the thorough tier); (2) the hand model of
`apply_integral_scaling` / `compute_integrand_scaling_factor` (Model/Scaling.lean) tree-exact against the real function on every
integral type x cell x degree-metadata shape.
Oracle (the property read literally on the real code): generated forms over cells / exterior facets / interior facets with
Lagrange, DG, Piola-mapped, mixed and symmetric elements, derivatives, compound algebra, conditionals, math functions and
geometric quantities are pushed through `compute_form_data` with random option sets; every resulting integrand is evaluated at
a point of a random affine simplex (two cells for interior facets) with reference-frame data computed directly from the vertices
(c01sem.py) and compared with the original integrands evaluated with physical data times the measure's scaling factor."""
import itertools
import math
import random
import warnings
from fractions import Fraction

import common
from common import Prop, Witness, Failure, LEAN, write_if_changed
warnings.filterwarnings("ignore", category=UserWarning)      # ufl warns about jumps of constants, non-affine volumes, ...
import uflio, leandrv
import c01sem
import c01forms
from c01forms import FormGen, random_options, opts_key, traced, pass_id, dedup, features, FEATURES

leandrv.EXES["C01"] = "c01drv"

NO_INTERIOR = "?all((not integral_type.startswith('interior_facet') for _, integral_type in itg_data.domain_integral_type_map.items()))"


def sparse(s):
    toks = s.replace("(", " ( ").replace(")", " ) ").split()
    pos = 0

    def rd():
        nonlocal pos
        t = toks[pos]
        pos += 1
        if t == "(":
            out = []
            while toks[pos] != ")":
                out.append(rd())
            pos += 1
            return out
        return t
    return rd()


def close(a, b, tol=1e-9):
    """a, b: numbers or c01sem.Mag (value with the size of the terms it was summed from): equal up to `tol` relative to that size"""
    ma = a.m if isinstance(a, c01sem.Mag) else abs(float(a))
    mb = b.m if isinstance(b, c01sem.Mag) else abs(float(b))
    a, b = float(a), float(b)
    if any(math.isnan(t) or math.isinf(t) for t in (a, b, ma, mb)):
        return None
    return abs(a - b) <= tol * max(1.0, abs(a), abs(b), ma, mb)


def md_key(md):
    return tuple(sorted((k, repr(v)) for k, v in md.items() if k != "estimated_polynomial_degree"))


def contributions(form, itype, sid, md, append_everywhere):
    """the original integrals that integrate over subdomain `sid` of type `itype` with metadata `md` (C15's `total`)"""
    out = []
    for I in form.integrals():
        if I.integral_type() != itype or md_key(I.metadata()) != md_key(md):
            continue
        s = I.subdomain_id()
        if s == sid or (s == "everywhere" and (append_everywhere or sid == "otherwise")):
            out.append(I)
    return out


def expected_scale(world, itype, tdim):
    """the measure's scaling factor from the vertices: |cell| / |reference cell| resp. |facet| / |reference facet|, times the weight"""
    c = world.cells["+"]
    if itype == "cell":
        return c.pdet * world.weight if tdim > 0 else 1
    if itype in ("exterior_facet", "interior_facet"):
        return c.facet_scale() * world.weight if tdim > 1 else 1
    if itype == "vertex":
        return 1
    raise c01sem.Unevaluable("scale of " + itype)


class Outcome:
    def __init__(self, **kw):
        self.__dict__.update(kw)


def build_world(rng, fg, form, fd, two):
    from ufl.sobolevspace import H1
    w = c01sem.World(rng, fg.tdim, fg.gdim, two)
    fas = list(form.coefficients()) + list(form.arguments())
    for f in fas:
        e = f.ufl_element()
        w.add_field(f, c01sem.el_of(e), e in H1, degree=(0 if e.embedded_superdegree == 0 else 2))      # a degree-0 function is constant on the cell: UFL folds its gradient to zero
    if fd is not None:
        for old, new in fd.function_replace_map.items():
            if old in w.fields:
                w.alias_field(new, old)
    return w


def eval_integrand(w, mesh, e, default_side):
    w.default_side = default_side
    ev = c01sem.Evaluator(w, mesh)
    v = ev.value(e)
    return v, ev.unrestricted


def check_form(rng, fg, form, opts, want_trace=False, ref=None):
    # ref: a form with the same measures whose integrands are the hand-expanded meaning of `form` (used for derivative forms, where
    # evaluating the original would go through the very expansion under test)
    """push `form` through compute_form_data with `opts` and compare every resulting integral with the originals.
    returns Outcome(status=..., ...) ; status in ok | raised | skipped | violation"""
    from ufl.algorithms import compute_form_data
    with traced() as tr:
        try:
            with warnings.catch_warnings():
                warnings.simplefilter("ignore")
                fd = compute_form_data(form, **opts)
        except KeyboardInterrupt:
            raise
        except BaseException as ex:  # noqa: the property allows raising (ArityMismatch derives from BaseException)
            return Outcome(status="raised", error="%s: %s" % (type(ex).__name__, str(ex)[:160]), trace=tr, where=tr[-1]["name"] if tr else "?")
    two = any(d.integral_type.startswith("interior_facet") for d in fd.integral_data)
    try:
        w = build_world(rng, fg, form, fd, two)
    except (ValueError, c01sem.Unevaluable) as ex:
        return Outcome(status="skipped", why="world: " + str(ex)[:80], trace=tr, fd=fd)
    app = opts.get("do_append_everywhere_integrals", True)
    results, skipped = [], []
    nint = 0
    for d in fd.integral_data:
        itype = d.integral_type
        for integral in d.integrals:
            nint += 1
            sids = integral.subdomain_id()
            sids = sids if isinstance(sids, tuple) else (sids,)
            pre = integral.integrand()
            w.on_facet = itype != "cell"
            w.two_now = itype.startswith("interior_facet")
            sides = ("+", "-") if w.two_now else ("+",)
            try:
                scale = expected_scale(w, itype, fg.tdim) if opts.get("do_apply_integral_scaling") else 1
                vals = {}
                for s in sides:
                    vp, unr_p = eval_integrand(w, fg.mesh, pre, s)
                    per_sid = []
                    for sid in sids:
                        origs = contributions(ref if ref is not None else form, itype, sid, integral.metadata(), app)
                        vo, unr_o = c01sem.Mag(0), []
                        for I in origs:
                            v, u = eval_integrand(w, fg.mesh, I.integrand(), s)
                            vo, unr_o = vo + v, unr_o + u
                        per_sid.append((sid, vo, unr_o, len(origs)))
                    vals[s] = (vp, unr_p, per_sid)
            except c01sem.Unevaluable as ex:
                skipped.append("unevaluable: " + str(ex)[:60])
                continue
            except (ZeroDivisionError, OverflowError, ValueError, TypeError) as ex:
                skipped.append("arithmetic: %s %s" % (type(ex).__name__, str(ex)[:40]))
                continue
            # the original must be single-valued on the facet: otherwise it has no meaning to preserve (C17's known findings live here)
            amb = False
            if w.two_now:
                for (sa, va, ua, _), (sb, vb, ub, _) in zip(vals["+"][2], vals["-"][2]):
                    if close(va, vb) is not True:
                        amb = True
            if amb:
                skipped.append("C17-domain: the original integrand is not single-valued on the facet (unrestricted side-dependent quantity: %s)" % ",".join(sorted(set(vals["+"][2][0][2])))[:120])
                continue
            for s in sides:
                vp, unr_p, per_sid = vals[s]
                for sid, vo, unr_o, norig in per_sid:
                    c = close(vp, vo * scale)
                    if c is None:
                        skipped.append("arithmetic: non-finite value")
                        continue
                    if not c:
                        # conditioning probe: is the difference explained by a 3e-14 relative perturbation of the irrational geometric data?
                        try:
                            w.perturb = 1
                            vp2, _ = eval_integrand(w, fg.mesh, pre, s)
                            vo2 = sum(eval_integrand(w, fg.mesh, I.integrand(), s)[0] for I in contributions(form, itype, sid, integral.metadata(), app))
                            delta = max(abs(float(vp2) - float(vp)), abs(float(vo2) - float(vo)) * abs(float(scale)))
                        except Exception:  # noqa
                            delta = 0.0
                        finally:
                            w.perturb = None
                        if abs(float(vp) - float(vo * scale)) <= 1e-9 * max(1.0, abs(float(vp))) + 3e-2 * delta:
                            skipped.append("ill-conditioned: cancellation amplifies rounding of the irrational geometric data")
                            continue
                    results.append(dict(itype=itype, sid=sid, md=md_key(integral.metadata()), side=s, pre=float(vp), orig=float(vo), scale=float(scale), ok=c, norig=norig, unrestricted_pre=sorted(set(unr_p))))
    bad = [r for r in results if not r["ok"]]
    return Outcome(status="violation" if bad else ("ok" if results else "skipped"), results=results, bad=bad, skipped=skipped, trace=tr, fd=fd, world=w,
                   why=(skipped[0] if skipped else "no integral"), nint=nint)


def localise(fg, form, opts, out):
    """which traced form-level pass first changes the value: re-evaluates the intermediate forms of the trace on the same world.
    returns (first deviating pass | None, [(pass, value)])"""
    w = out.world
    b = out.bad[0]
    itype, sid = b["itype"], b["sid"]
    w.on_facet = itype != "cell"
    w.two_now = itype.startswith("interior_facet")
    app = opts.get("do_append_everywhere_integrals", True)
    def total(integrals):
        tot = c01sem.Mag(0)
        for I in integrals:
            if I.integral_type() != itype or md_key(I.metadata()) != b["md"]:
                continue
            s = I.subdomain_id()
            s = s if isinstance(s, tuple) else (s,)
            if sid in s or ("everywhere" in s and (app or sid == "otherwise")):
                tot = tot + eval_integrand(w, fg.mesh, I.integrand(), b["side"])[0]
        return tot
    rows, first = [], None
    try:
        prev = total(form.integrals())
        rows.append(("original", float(prev)))
    except Exception as ex:  # noqa
        return None, [("original", "unevaluable")]
    for rec in out.trace:
        o = rec["out"]
        if not hasattr(o, "integrals"):
            continue
        pid = pass_id(rec)
        try:
            cur = total(o.integrals())
        except Exception as ex:  # noqa
            rows.append((pid, "unevaluable (%s)" % str(ex)[:40]))
            continue
        want = prev * b["scale"] if pid == "scaling" else prev
        rows.append((pid, float(cur)))
        if first is None and close(cur, want) is False:
            first = pid
        prev = cur
    if first is None:
        first = "FormData"        # the form-level passes agree: replace / restrictions changed it
    return first, rows


class C01(Prop):
    pid = "C01"
    lean_modules = ["UflVerif.Props.C01", "UflVerif.Props.C01Scale", "UflVerif.Props.C01Cancel"]
    min_theorems = 20
    trusted = ["translator harness/translate/pipeline.py (walks the AST of compute_form_data / preprocess_form / attach_estimated_degrees / FormData.__init__ / its helpers; "
               "records every call of UFL code with its guard, inlines the functions of the two anchored modules)",
               "Model/Pipeline.lean: the classification of the recorded calls into passes / analysis helpers and the stage signature of each pass (which node kinds it needs absent, "
               "removes, may introduce) are hand-written; they are compared on every run with the traced calls and the node kinds actually present after every pass",
               "the per-pass meaning-preservation hypotheses of C01_pipeline_preserves are the theorems of C06, C23, C02-C04, C15, C08, C07, C09, C10, C17, C21 (with their side conditions); "
               "C01 proves the composition, not the passes",
               "harness/c01sem.py (geometry from vertices, push-forward fields, per-side substitution) + UFL's own point evaluation `Expr.__call__` (which expands derivatives of the "
               "*original* integrand with apply_algebra_lowering / apply_derivatives: errors common to both sides of the comparison are C06 / C02-C04's subject)"]
    assumptions = ["affine simplex cells (interval, triangle, tetrahedron; immersed: interval in 2D/3D, triangle in 3D), one mesh per form; CoordinateDerivative, CellAvg/FacetAvg, "
                   "coefficient splitting over a MeshSequence and custom / vertex measures are outside the oracle's generator (vertex / custom / ridge scaling is covered by the C01_scale correspondence)",
                   "stage theorems are stated for preserve_geometry_types = () (the oracle also draws non-empty sets: values only)",
                   "an original interior-facet integrand that is not single-valued on the facet (an unrestricted side-dependent quantity: C17's known findings) has no meaning to preserve: such inputs are counted and skipped"]

    # ------------------------------------------------------------------ translator
    def regenerate(self, ctx):
        from translate import pipeline
        text, stats, rows = pipeline.render()
        self.gen_stats, self.rows = stats, rows
        p = LEAN / "UflVerif" / "Gen" / "Pipeline.lean"
        return [(p, write_if_changed(p, text))]

    # ------------------------------------------------------------------ valuations
    def atom_index(self):
        if not hasattr(self, "gen_stats"):
            from translate import pipeline
            _, self.gen_stats, self.rows = pipeline.render()
        return {a: i for i, a in enumerate(self.gen_stats["atoms"])}

    def valuation(self, opts, interior):
        """the true atoms (positions) for an option set; `interior`: some integral data has an interior-facet integral type"""
        from translate import pipeline
        import inspect
        from ufl.algorithms.compute_form_data import compute_form_data
        sig = inspect.signature(compute_form_data)
        ai = self.atom_index()
        trues = []
        for a, i in ai.items():
            if a == NO_INTERIOR:
                val = not interior
            elif a.startswith("?"):
                continue
            elif a.endswith(" is None"):
                name = a[:-len(" is None")]
                val = opts.get(name, sig.parameters[name].default) is None
            else:
                val = bool(opts.get(a, sig.parameters[a].default))
            if val:
                trues.append(i)
        return trues

    def model_pipelines(self, valuations):
        reps = leandrv.run_driver("C01", ["(pipeline %s)" % " ".join(str(i) for i in v) for v in valuations])
        out = []
        for r in reps:
            t = sparse(r)
            if t[0] == "ok":
                out.append(("ok", t[1], [set(x) for x in t[2]]))
            elif t[0] == "raises":
                out.append(("raises", [], []))
            else:
                out.append((t[0], t[1] if len(t) > 1 else [], []))
        return out

    # ------------------------------------------------------------------ correspondence
    def correspondence(self, ctx, ev):
        fails = []
        fails += self.corr_pipeline(ctx, ev)
        fails += self.corr_all_options(ctx, ev)
        fails += self.corr_scaling(ctx, ev)
        fails += self.corr_recip(ctx, ev)
        ev.cov["translator"] = dict(rows=self.gen_stats["rows"], calls=self.gen_stats["calls"], inlined=self.gen_stats["inlined"],
                                    atoms=len(self.gen_stats["atoms"]), unknown=self.gen_stats["unknown"])
        ev.cov["traces_validated_against_impl"] = ev.cov.get("pipeline_traces", 0) + ev.cov.get("all_option_traces", 0)
        return fails

    def trace_compare(self, form, opts, label):
        """run the real compute_form_data under the tracer and compare with the model: pass list, stage after every pass.
        returns (problem | None, info)"""
        from ufl.algorithms import compute_form_data
        err = None
        with traced() as tr:
            try:
                with warnings.catch_warnings():
                    warnings.simplefilter("ignore")
                    fd = compute_form_data(form, **opts)
            except KeyboardInterrupt:
                raise
            except BaseException as ex:  # noqa
                fd, err = None, ex
        if fd is not None:      # an interior-facet integral may vanish during preprocessing (zero integrand)
            interior = any(d.integral_type.startswith("interior_facet") for d in fd.integral_data)
        else:
            interior = any(I.integral_type().startswith("interior_facet") for I in form.integrals())
        return tr, fd, err, interior

    def check_trace(self, tr, fd, err, model, label, stage_check=True):
        """compare one traced run with the model's answer for its valuation"""
        kind, names, stages = model
        got = dedup([pass_id(r) for r in tr])
        if kind == "raises":
            if err is None:
                return "%s: the model says this option combination raises, the implementation returned (passes %s)" % (label, got)
            return None
        if kind != "ok":
            return "%s: model stuck: %s %s" % (label, kind, names)
        want = list(names)
        if fd is not None and not fd.integral_data:
            want = want[:want.index("buildIntegralData") + 1] if "buildIntegralData" in want else want     # no integral left: FormData's loops do not run
        if err is not None:
            if got != want[:len(got)]:
                return "%s: implementation raised %s after passes %s, which is not a prefix of the model's %s" % (label, type(err).__name__, got, want)
            return None
        if got != want:
            return "%s: passes run by the implementation %s, by the model %s" % (label, got, want)
        if not stage_check:
            return None
        # node kinds after every pass must be among the kinds the model allows at that stage
        k = -1
        prev = None
        for rec in tr:
            pid = pass_id(rec)
            if pid != prev:
                k += 1
                prev = pid
            o = rec["out"]
            if hasattr(o, "integrals"):
                ints = [I.integrand() for I in o.integrals()]
            elif hasattr(o, "integrand"):
                ints = [o.integrand()]
            elif rec["name"] == "replace":
                ints = [o]
            else:
                continue
            have = features(ints)
            if k < len(stages) and not have <= stages[k]:
                return "%s: after pass %d (%s) the integrands contain node kinds %s that the model's stage %s excludes" % (
                    label, k, pid, sorted(have - stages[k]), sorted(stages[k]))
        return None

    def corr_pipeline(self, ctx, ev):
        rng = random.Random(ctx.seed * 9176 + 101)
        n = 60 if ctx.quick else 1200
        cases, vals = [], []
        for k in range(n):
            try:
                fg = FormGen(rng, k)
                opts = random_options(rng, preserve=False)
                form, rank = fg.form(opts["complex_mode"])
            except Exception:  # noqa: the generator could not build this form
                continue
            tr, fd, err, interior = self.trace_compare(form, opts, "case %d" % k)
            cases.append((k, fg, form, opts, tr, fd, err))
            vals.append(self.valuation(opts, interior))
        models = self.model_pipelines(vals)
        fails, hist, nstage = [], {}, 0
        for (k, fg, form, opts, tr, fd, err), m, v in zip(cases, models, vals):
            prob = self.check_trace(tr, fd, err, m, "case %d [%s]" % (k, opts_key(opts)))
            key = " ".join(m[1]) if m[0] == "ok" else m[0]
            hist[key] = hist.get(key, 0) + 1
            nstage += len(tr)
            if prob and len(fails) < 8:
                fails.append(Failure("correspondence", "pipeline-trace", prob, case=dict(form=str(form)[:500], options=opts_key(opts))))
        ev.cov["pipeline_traces"] = len(cases)
        ev.cov["pipeline_distinct_pass_lists"] = len(hist)
        ev.cov["pipeline_stage_checks"] = nstage
        ev.cov["pipeline_raised_in_impl"] = len([c for c in cases if c[6] is not None])
        self._pass_hist = hist
        return fails

    def fixed_forms(self):
        """two small forms that exercise every pass: a cell form with Piola-mapped fields, derivatives and geometry, and an
        interior-facet form"""
        import ufl
        from ufl import pullback as pb
        from ufl.sobolevspace import HDiv, L2
        from utils import FiniteElement, LagrangeElement
        cell = ufl.triangle
        mesh = ufl.Mesh(LagrangeElement(cell, 1, (2,)))
        P = ufl.FunctionSpace(mesh, LagrangeElement(cell, 2))
        RT = ufl.FunctionSpace(mesh, FiniteElement("RT", cell, 1, (2,), pb.contravariant_piola, HDiv))
        DG = ufl.FunctionSpace(mesh, FiniteElement("DG", cell, 1, (), pb.identity_pullback, L2))
        f, g, q = ufl.Coefficient(P), ufl.Coefficient(RT), ufl.Coefficient(DG)
        v = ufl.TestFunction(P)
        n = ufl.FacetNormal(mesh)
        F1 = (ufl.inner(g, ufl.grad(v)) * ufl.CellVolume(mesh) + ufl.div(g) * f * ufl.conj(v)) * ufl.dx + f * ufl.conj(v) * ufl.dx(1)
        F2 = (ufl.jump(g, n) * ufl.avg(f) * ufl.conj(v)("+") + q("-") * ufl.dot(ufl.grad(f)("+"), n("+")) * ufl.conj(v)("-")) * ufl.dS + ufl.dot(g, n) * ufl.conj(v) * ufl.ds
        return [("cell", F1), ("facet", F2)]

    def corr_all_options(self, ctx, ev):
        """the model's pass list against the traced implementation for option combinations of two fixed forms:
        ALL combinations of the boolean options that guard a pass (thorough), a random sample (quick)"""
        import itertools as it
        rng = random.Random(ctx.seed * 4099 + 103)
        names = [a for a in self.gen_stats["atoms"] if not a.startswith("?") and not a.endswith(" is None")]
        ai = self.atom_index()
        rel = set(int(x) for x in sparse(leandrv.run_driver("C01", ["(relevant)"])[0])[1:])
        names = [a for a in names if ai[a] in rel]
        combos = list(it.product([False, True], repeat=len(names)))
        if ctx.quick:
            combos = rng.sample(combos, 80)
        forms = self.fixed_forms()
        runs, vals = [], []
        for label, F in forms:
            for c in combos:
                opts = dict(zip(names, c))
                tr, fd, err, interior = self.trace_compare(F, opts, label)
                runs.append((label, opts, tr, fd, err))
                vals.append(self.valuation(opts, interior))
        # coefficients_to_split given: with do_replace_functions off the options alone raise
        for rep in (False, True):
            opts = dict(coefficients_to_split=(), do_replace_functions=rep)
            tr, fd, err, interior = self.trace_compare(forms[0][1], opts, "split")
            runs.append(("split", opts, tr, fd, err))
            vals.append(self.valuation(opts, interior))
        models = self.model_pipelines(vals)
        fails = []
        for (label, opts, tr, fd, err), m in zip(runs, models):
            if label == "split":
                if m[0] == "raises" and not isinstance(err, ValueError):
                    fails.append(Failure("correspondence", "all-options", "coefficients_to_split without do_replace_functions: model raises, implementation %r" % err))
                if m[0] == "ok" and isinstance(err, ValueError) and "do_replace_functions" in str(err):
                    fails.append(Failure("correspondence", "all-options", "coefficients_to_split with do_replace_functions: implementation raised %r" % err))
                continue
            prob = self.check_trace(tr, fd, err, m, "%s form [%s]" % (label, opts_key(opts)), stage_check=not opts.get("complex_mode"))
            if prob and len(fails) < 8:
                fails.append(Failure("correspondence", "all-options", prob, case=dict(form=label, options=opts_key(opts))))
        ev.cov["all_option_traces"] = len(runs)
        ev.cov["all_option_atoms"] = names
        ev.cov["all_option_combinations"] = "%d of %d per form" % (len(combos), 2 ** len(names))
        return fails

    # ---- apply_integral_scaling vs Model/Scaling.lean
    def corr_scaling(self, ctx, ev):
        import ufl
        import ufl.classes as C
        from ufl.algorithms.apply_integral_scaling import apply_integral_scaling, compute_integrand_scaling_factor
        from ufl.algorithms.apply_geometry_lowering import apply_geometry_lowering
        from ufl.algorithms.estimate_degrees import estimate_total_polynomial_degree
        from ufl.measure import integral_type_to_measure_name
        from utils import LagrangeElement
        rng = random.Random(ctx.seed * 7717 + 107)
        cells = [("vertex", 0, [1]), ("interval", 1, [1, 2, 3]), ("triangle", 2, [2, 3]), ("tetrahedron", 3, [3]), ("quadrilateral", 2, [2, 3]), ("hexahedron", 3, [3]), ("prism", 3, [3])]
        itypes = sorted(integral_type_to_measure_name) + ["exterior_facet_extra", "interior_facet_horiz_x", "ridge_x", "nonsense", "point"]
        reqs, meta, keep = [], [], []
        memo = {}
        def deg_s(d):
            if d is None:
                return "none"
            if isinstance(d, tuple):
                return "(t %s)" % " ".join(str(int(x)) for x in d)
            return "(s %d)" % int(d)
        for cellname, tdim, gdims in cells:
            cell = getattr(ufl, cellname, None) or ufl.Cell(cellname)
            for gdim in gdims:
                for cdeg in ([1] if tdim == 0 else [1, 2]):
                    try:
                        mesh = ufl.Mesh(LagrangeElement(cell, cdeg, (gdim,)))
                    except Exception:  # noqa
                        continue
                    f = ufl.Coefficient(ufl.FunctionSpace(mesh, LagrangeElement(cell, 2)))
                    g = ufl.Coefficient(ufl.FunctionSpace(mesh, LagrangeElement(cell, 1)))
                    syms = [C.JacobianDeterminant(mesh), C.QuadratureWeight(mesh), C.FacetJacobianDeterminant(mesh), C.RidgeJacobianDeterminant(mesh)]
                    el, em = C.ExprList(), C.ExprMapping()
                    integrands = [f, f * g, ufl.as_ufl(2), ufl.as_ufl(1), ufl.as_ufl(0.5), C.QuadratureWeight(mesh) * f, abs(C.JacobianDeterminant(mesh)), C.Zero(),
                                  C.CoordinateDerivative(f * g, el, el, em), C.CoordinateDerivative(C.CoordinateDerivative(g, el, el, em), el, el, em),
                                  C.CoordinateDerivative(C.Zero(), el, el, em) if False else f + g, ufl.sin(f) / (g * g + 1)]
                    for itype in itypes:
                        for cur in [None, "absent", 3, (2, 1), (1, 2, 3)]:
                            e = rng.choice(integrands) if ctx.quick else None
                            for e in ([e] if e is not None else integrands):
                                md = {} if cur == "absent" else {"estimated_polynomial_degree": cur}
                                try:
                                    I = C.Integral(e, itype, mesh, "everywhere", md, None)
                                except Exception:  # noqa
                                    continue
                                # the degree of the lowered determinant is an input of the model (estimating and lowering are C18 / C07)
                                det = {"cell": syms[0]}.get(itype) or (syms[2] if itype.startswith(("exterior_facet", "interior_facet")) else syms[3] if itype.startswith("ridge") else None)
                                try:
                                    with warnings.catch_warnings():
                                        warnings.simplefilter("ignore")
                                        gd = estimate_total_polynomial_degree(apply_geometry_lowering(det)) if det is not None else 0
                                except Exception:  # noqa
                                    gd = None
                                try:
                                    with warnings.catch_warnings():
                                        warnings.simplefilter("ignore")
                                        J = apply_integral_scaling(I)
                                    impl = "(ok %s %s)" % (uflio.ser(J.integrand(), memo), deg_s(J.metadata().get("estimated_polynomial_degree")))
                                    keep.append(J)
                                except Exception as ex:  # noqa
                                    impl = "(raises)"
                                if gd is None:
                                    if impl != "(raises)":
                                        gd = 0
                                    else:
                                        continue     # lowering the determinant fails on this cell (other properties); both raise
                                cur_v = None if cur in (None, "absent") else cur
                                rq = "(scale %s %d %s %s %s %s)" % (uflio.enc(itype), tdim, deg_s(gd), deg_s(cur_v), " ".join(uflio.ser(x, memo) for x in syms), uflio.ser(e, memo))
                                reqs.append(rq)
                                meta.append((cellname, gdim, cdeg, itype, cur, str(e)[:60], impl))
                                keep += [I, e, syms]
        reps = leandrv.run_driver("C01", reqs)
        fails, unsupported, hist = [], 0, {}
        from props.c05 import canon
        for m, rq, rep in zip(meta, reqs, reps):
            hist[m[3]] = hist.get(m[3], 0) + 1
            if rep == "(unsupported)":
                unsupported += 1
                continue
            if canon(m[6]) != canon(rep) and len(fails) < 8:
                fails.append(Failure("correspondence", "apply_integral_scaling", "%s %dD (coordinate degree %d) %s, degree entry %r, integrand %s | impl: %s | model: %s" % (
                    m[0], m[1], m[2], m[3], m[4], m[5], m[6][:300], rep[:300]), case=rq[:3000]))
        ev.cov["scaling_cases"] = len(reqs)
        ev.cov["scaling_integral_types"] = hist
        ev.cov["scaling_raised_in_impl"] = len([m for m in meta if m[6] == "(raises)"])
        ev.cov["scaling_unsupported_skipped"] = unsupported
        return fails

    # ---- ReciprocalCanceller's Product rule vs Model/Reciprocal.lean
    def recip_case(self, rng, pool):
        import ufl
        def factor(t):
            r = rng.random()
            if r < 0.2:
                return t
            if r < 0.4:
                return t ** rng.choice([2, 3, 2, 0.5, 1.5, 2.0])
            if r < 0.55:
                return 1 / t
            if r < 0.7:
                return 1 / (t ** rng.choice([2, 3, 0.5]))
            if r < 0.8:
                return (t ** rng.choice([2, 4])) ** rng.choice([0.5, 2, 1.5, 0.25])
            if r < 0.87:
                return (1 / t) ** rng.choice([2, 3, 0.5])
            if r < 0.92:
                return 2 / t
            if r < 0.96:
                return 1 / (1 / t)
            return t ** rng.choice(pool)
        def prod(ts):
            p = None
            for t in ts:
                f = factor(t)
                p = f if p is None else p * f
            return p
        a = prod(rng.sample(pool, rng.randint(1, 3)))
        b = prod(rng.sample(pool, rng.randint(1, 2)))
        return a, b

    def corr_recip(self, ctx, ev):
        import ufl
        import ufl.classes as C
        from ufl.algorithms.cancel_jacobian_products import ReciprocalCanceller
        from ufl.corealg.map_dag import map_expr_dag
        from utils import LagrangeElement
        from props.c05 import canon
        rng = random.Random(ctx.seed * 3571 + 109)
        cell = ufl.triangle
        mesh = ufl.Mesh(LagrangeElement(cell, 1, (2,)))
        pool = [ufl.Coefficient(ufl.FunctionSpace(mesh, LagrangeElement(cell, 1))) for _ in range(3)] + [C.JacobianDeterminant(mesh)]
        n = 150 if ctx.quick else 3000
        reqs, meta, keep, memo = [], [], [], {}
        for k in range(n):
            a, b = self.recip_case(rng, pool)
            p = a * b
            if not isinstance(p, C.Product):
                continue
            a, b = p.ufl_operands
            # the rule sees processed operands: inner products are handled first by the same rule
            rc = ReciprocalCanceller()
            a2, b2 = rc(a), rc(b)
            try:
                r = ReciprocalCanceller().process(C.Product(a2, b2)) if isinstance(C.Product(a2, b2), C.Product) else None
                if r is None:
                    continue
                a2, b2 = C.Product(a2, b2).ufl_operands
                impl = "(ok %s)" % uflio.ser(r, memo)
            except Exception as ex:  # noqa
                r, impl = None, "(raises)"
            keep += [a, b, a2, b2, p, r]
            reqs.append("(recip %s %s)" % (uflio.ser(a2, memo), uflio.ser(b2, memo)))
            meta.append((str(p)[:120], str(r)[:120], impl))
        reps = leandrv.run_driver("C01", reqs)
        fails, unsupported, changed = [], 0, 0
        for m, rq, rep in zip(meta, reqs, reps):
            if rep == "(unsupported)":
                unsupported += 1
                continue
            if m[0] != m[1]:
                changed += 1
            if canon(m[2]) != canon(rep) and len(fails) < 8:
                fails.append(Failure("correspondence", "ReciprocalCanceller", "%s | impl: %s | model: %s" % (m[0], m[1], rep[:300]), case=rq[:3000]))
        ev.cov["recip_cases"] = len(reqs)
        ev.cov["recip_rewritten"] = changed
        ev.cov["recip_unsupported_skipped"] = unsupported
        return fails

    # ------------------------------------------------------------------ oracle
    def gen_case(self, seed, k):
        """the k-th random case of a seed: (FormGen, form, options, rng)"""
        rng = random.Random((seed * 5501 + 1) * 100003 + k)
        fg = FormGen(rng, k)
        opts = random_options(rng, all_on=(k % 5 < 2))
        if k % 5 == 1:
            opts["do_cancel_jacobian_products"] = True
        form, rank = fg.form(opts["complex_mode"])
        return fg, form, opts, rng

    def directed_cases(self):
        """(name, cell, builder(fg) -> form): the corner cases the property names, on every cell kind"""
        import ufl
        import ufl.classes as C
        def coef(fg, name):
            for n, c in fg.coeffs:
                if n == name:
                    return c
            from c01forms import element_pool
            return None
        out = []
        def add(name, fn):
            out.append((name, fn))
        # exponent merging in cancel_jacobian_products: negative base, even then half exponents (and the patterns the pass is for)
        add("power-tower sqrt(f^2)/f", lambda fg, f, g, m: ((f ** 2) ** 0.5 * (1 / f)) * g * ufl.dx(domain=m))
        add("power-tower (1/f^2)^0.5*f", lambda fg, f, g, m: ((1 / f ** 2) ** 0.5 * f) * g * ufl.dx(domain=m))
        add("power-tower (f^2)^1.5/f^3", lambda fg, f, g, m: ((f ** 2) ** 1.5 * (1 / f) ** 3) * g * ufl.ds(domain=m))
        add("integer powers f^2*(1/f)^2*g", lambda fg, f, g, m: (f ** 2 * (1 / f) ** 2) * g * ufl.dx(domain=m))
        add("f*g/f", lambda fg, f, g, m: (f * g * (1 / f)) * ufl.dx(domain=m))
        # corner cases of single passes seen through the whole pipeline (each with the options that reach the pass forced on)
        self.force = getattr(self, "force", {})
        from utils import LagrangeElement

        def vec(fg, m, deg=1):
            return ufl.Coefficient(ufl.FunctionSpace(m, LagrangeElement(fg.cell, deg, (fg.gdim,))))

        def mat(fg, m):
            return ufl.Coefficient(ufl.FunctionSpace(m, LagrangeElement(fg.cell, 1, (fg.gdim, fg.gdim))))

        def reuse_index(fg, f, g, m):
            # an Index object bound by an implicit sum inside as_tensor(..) and used again to index that tensor
            B, c, d = mat(fg, m), vec(fg, m), vec(fg, m, 2)
            i, j = ufl.indices(2)
            A = ufl.as_tensor(B[j, i] * c[i], (j,))
            return (A[i] * d[i]) * g * ufl.dx(domain=m) + (ufl.as_tensor(B[i, j] * d[j], (i,))[j] * c[j]) * f * ufl.ds(domain=m)
        add("index re-used to index a component tensor that binds it", reuse_index)
        self.force["index re-used to index a component tensor that binds it"] = dict(do_remove_component_tensors=True)

        def two_variables(fg, f, g, m):
            a, b = ufl.variable(f), ufl.variable(g)
            u = vec(fg, m, 2)
            F = ufl.variable(ufl.Identity(fg.gdim) + ufl.grad(u))
            Cm = ufl.variable(F.T * F)
            return (ufl.diff(a ** 3, a) + ufl.diff(ufl.sin(b) * a, b)) * ufl.dx(domain=m) + ufl.inner(ufl.diff(ufl.tr(F.T * F), F), ufl.diff(ufl.tr(Cm * Cm), Cm)) * ufl.dx(domain=m)
        add("derivatives with respect to two variables of one shape", two_variables)

        def two_variables_ref(fg, f, g, m, form):
            # the same coefficients, derivatives expanded by hand: d(a^3)/da = 3a^2, d(sin(b) a)/db = cos(b) a, d tr(F^T F)/dF = 2F, d tr(C C)/dC = 2C^T
            from ufl.algorithms.analysis import extract_coefficients
            u = [c for c in extract_coefficients(form) if c.ufl_shape == (fg.gdim,)][0]
            F = ufl.Identity(fg.gdim) + ufl.grad(u)
            Cm = F.T * F
            return (3 * f ** 2 + ufl.cos(g) * f) * ufl.dx(domain=m) + ufl.inner(2 * F, 2 * Cm.T) * ufl.dx(domain=m)
        self.refs = getattr(self, "refs", {})
        self.refs["derivatives with respect to two variables of one shape"] = two_variables_ref

        def jk_projector(fg, f, g, m):
            # sum_k J[a,k] K[k,b] is the identity only when gdim == tdim; on an immersed manifold it is the tangential projector
            J, K = C.Jacobian(m), C.JacobianInverse(m)
            v, w = vec(fg, m), vec(fg, m, 2)
            return ufl.inner(ufl.dot(ufl.dot(J, K), v), w) * ufl.dx(domain=m) + ufl.inner(ufl.dot(ufl.dot(K, J), K * w), K * v) * f * ufl.dx(domain=m)
        add("Jacobian times inverse Jacobian in both orders", jk_projector)
        self.force["Jacobian times inverse Jacobian in both orders"] = dict(do_apply_geometry_lowering=True, do_cancel_jacobian_products=True, preserve_geometry_types=())
        # geometry, one quantity at a time, on every kind of integral
        for q in ["CellVolume", "Circumradius", "FacetArea", "MinCellEdgeLength", "MaxCellEdgeLength", "CellDiameter", "JacobianDeterminant", "FacetNormal", "Jacobian", "JacobianInverse",
                  "MinFacetEdgeLength", "MaxFacetEdgeLength", "CellNormal", "SpatialCoordinate"]:
            def mk(fg, f, g, m, q=q):
                Q = getattr(C, q)(m)
                facet = q.startswith("Facet") or "FacetEdge" in q
                s = Q if Q.ufl_shape == () else ufl.inner(Q, Q) + Q[(0,) * len(Q.ufl_shape)]
                F = None
                if not facet:
                    F = s * f * ufl.dx(domain=m)
                F2 = s * g * ufl.ds(domain=m) + (s * f)("+") * g("-") * ufl.dS(domain=m) + (s("-") * ufl.avg(g)) * ufl.dS(domain=m)
                return F2 if F is None else F + F2
            add("geometry " + q, mk)
        return out

    def directed_forms(self, rng, k):
        """the k-th directed case: built on a fresh FormGen (so that the cell kind and the element pool vary)"""
        import ufl
        cases = self.directed_cases()
        name, fn = cases[k % len(cases)]
        fg = FormGen(rng, k)
        if name.startswith("Jacobian times inverse") and (k // len(cases)) % 2 == 0:
            for _ in range(40):          # every other time on an immersed manifold (tdim < gdim)
                if fg.tdim < fg.gdim:
                    break
                fg = FormGen(rng, k)
        from utils import LagrangeElement
        f = ufl.Coefficient(ufl.FunctionSpace(fg.mesh, LagrangeElement(fg.cell, 2)))
        g = ufl.Coefficient(ufl.FunctionSpace(fg.mesh, LagrangeElement(fg.cell, 1)))
        try:
            form = fn(fg, f, g, fg.mesh)
        except Exception:  # noqa: quantity not defined on this cell kind (CellNormal off manifolds, facet edges in 2D)
            return name, fg, None
        self.ref_form = None
        if name in getattr(self, "refs", {}):
            self.ref_form = self.refs[name](fg, f, g, fg.mesh, form)
        return name, fg, form

    def element_forms(self, rng, k):
        """every element of the pool in a mass / stiffness / divergence / curl / facet form"""
        import ufl
        fg = FormGen(rng, k)
        n, u = rng.choice(fg.coeffs)
        n2, w = rng.choice(fg.coeffs)
        m, gdim = fg.mesh, fg.gdim
        nrm = ufl.FacetNormal(m)
        sh = tuple(u.ufl_shape)
        terms = [ufl.inner(u, u) * ufl.dx(domain=m), ufl.inner(ufl.grad(u), ufl.grad(u)) * ufl.dx(domain=m)]
        if sh == (gdim,):
            terms += [ufl.div(u) * ufl.inner(w, w) * ufl.dx(domain=m), ufl.dot(u, nrm) * ufl.ds(domain=m), ufl.jump(u, nrm) * ufl.inner(w, w)("+") * ufl.dS(domain=m),
                      ufl.inner(ufl.dot(ufl.grad(u), u), u) * ufl.dx(domain=m)]
            if gdim == 3:
                terms += [ufl.inner(ufl.curl(u), u) * ufl.dx(domain=m), ufl.inner(ufl.cross(u("+"), nrm("+")), u("-")) * ufl.dS(domain=m)]
            if gdim == 2:
                terms += [ufl.curl(u) * ufl.inner(w, w) * ufl.dx(domain=m)]
        if sh == ():
            terms += [u * ufl.inner(w, w) * ufl.ds(domain=m), ufl.jump(u) * ufl.avg(u) * ufl.dS(domain=m), ufl.dot(ufl.grad(u), nrm) * ufl.ds(domain=m),
                      ufl.dot(ufl.avg(ufl.grad(u)), nrm("+")) * ufl.jump(u) * ufl.dS(domain=m), u.dx(0).dx(gdim - 1) * u * ufl.dx(domain=m)]
        if len(sh) == 2:
            terms += [ufl.tr(u) * ufl.dx(domain=m) if sh[0] == sh[1] else u[0, 0] * ufl.dx(domain=m), ufl.inner(u("+"), u("-")) * ufl.dS(domain=m)]
            if sh == (gdim, gdim):
                terms += [ufl.inner(ufl.div(u), ufl.div(u)) * ufl.dx(domain=m), ufl.dot(ufl.dot(u, nrm), nrm) * ufl.ds(domain=m)]
        form = None
        for t in rng.sample(terms, min(len(terms), rng.randint(1, 3))):
            form = t if form is None else form + t
        return "element %s x %s" % (n, n2), fg, form

    def classify(self, fg, form, opts, out):
        """stable key and description of a violation"""
        import hashlib
        import ufl.classes as C
        from ufl.corealg.traversal import unique_pre_traversal
        first, rows = localise(fg, form, opts, out)
        frac_pow = any(isinstance(n, C.Power) and isinstance(n.ufl_operands[1], C.ScalarValue) and float(n.ufl_operands[1]) != int(float(n.ufl_operands[1]))
                       for I in form.integrals() for n in unique_pre_traversal(I.integrand()))
        if first == "cancelJ" and frac_pow:
            return "C01:cancel-merges-exponents", first, rows
        h = hashlib.sha1((str(form) + opts_key(opts)).encode()).hexdigest()[:10]
        return "C01:value:%s:%s" % (first, h), first, rows

    def run_oracle_case(self, stream, seed, k, stats):
        if stream == "random":
            fg, form, opts, rng = self.gen_case(seed, k)
            name = "random"
        else:
            rng = random.Random((seed * 7703 + 3) * 100003 + k + (0 if stream == "directed" else 5000011))
            name, fg, form = (self.directed_forms if stream == "directed" else self.element_forms)(rng, k)
            if form is None:
                return None
            opts = random_options(rng, all_on=True, preserve=(k % 3 == 0))
            if stream == "directed" or k % 2 == 0:
                opts["do_cancel_jacobian_products"] = rng.random() < 0.7
            opts["complex_mode"] = False
            if stream == "directed":
                opts.update(getattr(self, "force", {}).get(name, {}))
        out = check_form(rng, fg, form, opts, ref=(getattr(self, "ref_form", None) if stream == "directed" else None))
        out.name, out.fg, out.form, out.opts = name, fg, form, opts
        return out

    def oracle(self, ctx, ev):
        import collections
        n_rand = 200 if ctx.quick else 6000
        n_dir = 66 if ctx.quick else 660
        n_el = 50 if ctx.quick else 900
        st = collections.Counter()
        optc, passc, cellc, itc, elc, skipc, raisec, geoc = (collections.Counter() for _ in range(8))
        witnesses, seen, samples, distinct = [], set(), [], set()
        nint = 0
        plan = [("random", k) for k in range(n_rand)] + [("directed", k) for k in range(n_dir)] + [("elements", k) for k in range(n_el)]
        for stream, k in plan:
            try:
                out = self.run_oracle_case(stream, ctx.seed, k, st)
            except (ValueError, IndexError, KeyError, TypeError, AssertionError) as ex:   # the generator could not build the form
                st["generator_rejected"] += 1
                continue
            if out is None:
                continue
            st[out.status] += 1
            fg, form, opts = out.fg, out.form, out.opts
            for o, v in opts.items():
                if v and isinstance(v, bool):
                    optc[o] += 1
                elif v and not isinstance(v, bool):
                    optc["preserve_geometry_types!=()"] += 1
            cellc["%s%d" % (fg.cellname, fg.gdim)] += 1
            for r in dedup([pass_id(r) for r in out.trace]):
                passc[r] += 1
            if out.status == "raised":
                raisec[out.error.split(":")[0] + "@" + out.where] += 1
                continue
            if out.status == "skipped":
                skipc[out.why.split(":")[0]] += 1
                continue
            for s_ in out.skipped:
                skipc[s_.split(":")[0]] += 1
            for r in out.results:
                itc[r["itype"]] += 1
            nint += len(out.results)
            for n_, _ in fg.elems:
                elc[n_] += 1
            for q in getattr(fg, "geo_used", []):
                geoc[q] += 1
            distinct.add((str(form)[:300], opts_key(opts)))
            if len(samples) < 4 and out.status == "ok" and stream == "random":
                samples.append(dict(cell="%s in %dD" % (fg.cellname, fg.gdim), form=str(form)[:160], options=opts_key(opts), integrals=len(out.results),
                                    first=dict(pre=out.results[0]["pre"], orig=out.results[0]["orig"], scale=out.results[0]["scale"])))
            if out.status == "violation":
                key, first, rows = self.classify(fg, form, opts, out)
                if key not in seen and len(witnesses) < 6:
                    seen.add(key)
                    b = out.bad[0]
                    what = ("compute_form_data changed the value of an integrand: %s integral (subdomain %s) of [%s] on a %s in %dD with options {%s}: preprocessed integrand = %.12g, "
                            "original x scale = %.12g x %.12g; first deviating pass: %s" % (b["itype"], b["sid"], str(form)[:200], fg.cellname, fg.gdim,
                                                                                           ", ".join(o for o, v in sorted(opts.items()) if v is True), b["pre"], b["orig"], b["scale"], first))
                    witnesses.append(Witness(what, key, dict(kind="value", stream=stream, seed=ctx.seed, k=k, name=out.name, form=str(form)[:1500], options=opts_key(opts),
                                                            cell="%s in %dD, vertices %s" % (fg.cellname, fg.gdim, [[str(c) for c in p] for p in out.world.cells["+"].V]),
                                                            point=[str(c) for c in out.world.point()], bad=out.bad[:3], stages=rows)))
        ev.cov["evaluations"] = nint
        ev.cov["distinct_nontrivial"] = len(distinct)
        ev.cov["oracle_cases"] = dict(st)
        ev.cov["oracle_options_true"] = dict(optc)
        ev.cov["oracle_passes_run"] = dict(passc)
        ev.cov["oracle_cells"] = dict(cellc)
        ev.cov["oracle_integral_types"] = dict(itc)
        ev.cov["oracle_elements_in_pool"] = dict(elc)
        ev.cov["oracle_geometry_in_pool"] = dict(geoc)
        ev.cov["oracle_raised"] = dict(raisec)
        ev.cov["oracle_skipped"] = dict(skipc)
        ev.cov["rule"] = ("oracle: %d random forms (1-3 integrals over cells / exterior / interior facets with subdomain ids and metadata; integrands from harness/gen.py over a pool of Lagrange, DG, "
                          "RT-like, N1curl-like, mixed, L2/double-Piola and symmetric elements with derivatives, compound algebra, conditionals, math functions, geometric quantities, power "
                          "towers; arguments of rank 0-2) + %d directed (power towers, one geometric quantity at a time on dx/ds/dS) + %d element forms (mass, stiffness, div, curl, normal "
                          "traces, jumps) x random option sets (40%% with pullbacks+scaling+lowering on); every resulting integral evaluated at a random point of a random affine simplex (6 "
                          "cell kinds incl. immersed, both default sides on interior facets) against the original integrands x the measure's scale factor computed from the vertices; "
                          "evaluations = integrals compared, distinct_nontrivial = distinct (form, options); skipped: C17-domain = original not single-valued on the facet (known C17 "
                          "findings), arithmetic = division by zero / overflow in the original" % (n_rand, n_dir, n_el))
        ev.cov["samples"] = samples
        return witnesses

    def replay(self, ctx, data):
        d = data.get("data", {})
        try:
            out = self.run_oracle_case(d.get("stream", "random"), int(d.get("seed", 0)), int(d.get("k", 0)), {})
        except Exception as ex:  # noqa
            return None
        if out is not None and out.status == "violation":
            key, first, rows = self.classify(out.fg, out.form, out.opts, out)
            b = out.bad[0]
            return Witness("preprocessed integrand = %.12g, original x scale = %.12g x %.12g (first deviating pass %s)" % (b["pre"], b["orig"], b["scale"], first), key, d)
        return None


PROP = C01()
