"""C14 The arity check accepts exactly multilinear integrands.

Ties: (T) Gen/Arity.lean = the dispatch table the live `ArityChecker` computed (handler *function* per registered type, cut-off flag)
and the observed `list_tensor` rule; (C) correspondence of `map_expr_dag(ArityChecker, e)` and `check_integrand_arity(e, arguments,
complex_mode)` with the Lean model (Drivers/C14.lean): accept / raise site / returned (argument, conjugated) tuple, on
 * "direct" inputs: generated expressions in index notation and with compound operators, multilinear by construction or with one
   seeded near-miss (affine term, repeated argument, nonlinear wrapper, wrong conjugation, argument in a denominator/condition, non-zero
   argument-free list-tensor component / conditional branch), and unconstrained random expressions over arguments,
 * "pipeline" inputs: every integrand `compute_form_data` hands to `check_integrand_arity` (recorded by wrapping the name in
   ufl.algorithms.formdata) for generated forms over dx/ds/dS with random preprocessing options.
Oracle (the property read on the implementation): every integrand the implementation accepts inside compute_form_data is evaluated
numerically (independent evaluator below, random data) under rho1, rho2 and s*rho1+rho2 on the argument with number n: the value must be
sigma*val1+val2 with sigma = conj(s) for the test function in complex mode and s otherwise, and the Argument terminals of the integrand must
be exactly the form's arguments."""
import cmath
import hashlib
import math
import random

import common
from common import Prop, Witness, Failure, LEAN, write_if_changed
import uflio, gen, leandrv
from translate import arity as arity_tr

leandrv.EXES["C14"] = "c14drv"

SITES = [("Applying nonlinear operator", "nonlinear"),
         ("Adding expressions with non-matching", "sum"),
         ("Cannot divide by form argument", "division"),
         ("overlapping form argument number", "product-number"),
         ("overlapping form arguments", "product-overlap"),
         ("Condition cannot depend", "conditional-cond"),
         ("Conditional subexpressions", "conditional"),
         ("Listtensor components must depend", "listtensor"),
         ("Listtensor components without form arguments", "listtensor-nonzero"),
         ("Integrand arguments", "arguments-differ"),
         ("Failure to conjugate", "not-conjugated"),
         ("spuriously conjugated", "spurious-conj")]


def site_of(msg):
    for pat, s in SITES:
        if pat in msg:
            return s
    return "unknown:" + msg[:60]


# ------------------------------------------------------------------------------------------------------------------
# generator of integrands that are multilinear by construction, with seeded near-misses
# ------------------------------------------------------------------------------------------------------------------
class Lin:
    """lin(S, shape, d): expression of the given shape (() or (gdim,)) that is linear in each argument number of S and free of
    the others; in complex mode the argument numbers listed in `self.cj` occur conjugated (antilinear)."""

    def __init__(self, rng, cplx, compound, facet=False, p_mut=0.0, nargs=None, parts=None):
        import ufl
        from utils import LagrangeElement
        self.ufl, self.rng, self.cplx, self.compound, self.facet = ufl, rng, cplx, compound, facet
        self.G = gen.Gen(rng, gdim=rng.choice([2, 2, 3]), with_args=False, math=True, compound=False, derivs=False,
                         cond=not cplx, variables=True, reuse=0.7, minmax=not cplx)
        gd = self.gd = self.G.gdim
        cell = {2: ufl.triangle, 3: ufl.tetrahedron}[gd]
        self.mesh = self.G.mesh
        V = ufl.FunctionSpace(self.mesh, LagrangeElement(cell, 1))
        W = ufl.FunctionSpace(self.mesh, LagrangeElement(cell, 1, (gd,)))
        self.nargs = nargs if nargs is not None else rng.choice([1, 2, 2, 2, 3])
        self.parts = (rng.random() < 0.12) if parts is None else parts
        self.args = {}
        for n in range(self.nargs):
            sp = rng.choice([V, W])
            if self.parts and n == 0:
                self.args[n] = [ufl.Argument(sp, 0, 0), ufl.Argument(rng.choice([V, W]), 0, 1)]
            else:
                self.args[n] = [ufl.Argument(sp, n)]
        self.p_mut = p_mut
        self.muts = []
        self.budget = 1 if rng.random() < 0.8 else 2

    # -- form arguments / wanted conjugation
    def all_args(self):
        return [a for n in sorted(self.args) for a in self.args[n]]

    def flags0(self):
        return {n: (self.cplx and n == 0) for n in self.args}

    def mut(self, name):
        """decide whether to apply the near-miss `name` here"""
        if self.budget > 0 and self.rng.random() < self.p_mut:
            self.budget -= 1
            self.muts.append(name)
            return True
        return False

    def free(self, shape, d=1):
        e = self.G.expr(shape, (), d)
        return e

    def side(self, e):
        if self.facet:
            return e(self.rng.choice(["+", "-"]))
        return e

    def atom1(self, n, fl, shape):
        """an expression linear in argument number n only (one occurrence of one Argument object)"""
        ufl, rng, gd = self.ufl, self.rng, self.gd
        a = rng.choice(self.args[n])
        vec = a.ufl_shape != ()
        r = rng.random()
        if shape == ():
            if vec:
                if r < 0.4:
                    b = a[rng.randrange(gd)]
                elif r < 0.6:
                    i = ufl.Index()
                    b = a[i] * self.free((gd,), 0)[i]
                elif r < 0.8:
                    b = ufl.grad(a)[rng.randrange(gd), rng.randrange(gd)]
                elif self.compound:
                    b = ufl.div(a)
                else:
                    b = a[rng.randrange(gd)].dx(rng.randrange(gd))
            else:
                if r < 0.55:
                    b = a
                elif r < 0.8:
                    b = a.dx(rng.randrange(gd))
                else:
                    b = ufl.grad(a)[rng.randrange(gd)]
        else:
            if vec:
                if r < 0.6:
                    b = a
                elif r < 0.8:
                    i, j = ufl.Index(), ufl.Index()
                    b = ufl.as_tensor(ufl.grad(a)[i, j] * self.free((gd,), 0)[j], (i,))
                else:
                    b = ufl.as_vector([a[rng.randrange(gd)] for _ in range(gd)])
            else:
                if r < 0.6:
                    b = ufl.grad(a)
                elif r < 0.8:
                    b = a * self.free((gd,), 0)
                else:
                    comps = [a if k == 0 or rng.random() < 0.5 else 0 for k in range(gd)]
                    rng.shuffle(comps)
                    b = ufl.as_vector(comps)
        b = self.side(b)
        want = fl.get(n, False)
        if self.cplx and self.mut("wrong-conj"):
            want = not want
        if self.cplx and want:
            b = ufl.conj(b)
        return b

    def atom(self, S, fl, shape):
        S = list(S)
        if not S:
            return self.side(self.free(shape, 0))
        e = self.atom1(S[0], fl, shape)
        for n in S[1:]:
            e = self.atom1(n, fl, ()) * e
        return e

    def split(self, S, allow_empty=True):
        S = list(S)
        self.rng.shuffle(S)
        lo = 0 if allow_empty else 1
        k = self.rng.randint(lo, len(S) - (0 if allow_empty else 1)) if len(S) >= 1 else 0
        return tuple(sorted(S[:k])), tuple(sorted(S[k:]))

    def flip(self, fl, S):
        return {n: (not v if n in S else v) for n, v in fl.items()}

    def lin(self, S, fl, shape, d):
        ufl, rng, gd = self.ufl, self.rng, self.gd
        S = tuple(sorted(S))
        if not S:
            return self.side(self.free(shape, min(d, 2)))
        if d <= 0:
            return self.atom(S, fl, shape)
        L = lambda S_, sh=shape, f=fl: self.lin(S_, f, sh, d - 1)
        prods = [("sum", 3), ("scale", 2), ("neg", 1), ("cond", 1.5), ("atom", 1)]
        if shape == ():
            prods += [("product", 3 if len(S) > 1 else 0.5), ("division", 1), ("contract", 2.5), ("index", 1.5), ("variable", 0.7), ("nonlin-free", 0.7)]
            if self.cplx:
                prods.append(("conj", 1.5))
            if self.compound:
                prods += [("inner", 1.5), ("dot", 1.5)]
        else:
            prods += [("list", 3.5), ("scalevec", 2), ("matvec", 1.5), ("ct", 1.5)]
            if self.compound:
                prods.append(("dotmv", 1))
        names, weights = zip(*prods)
        p = rng.choices(names, weights)[0]
        if p == "atom":
            return self.atom(S, fl, shape)
        if p == "sum":
            a = L(S)
            if self.mut("affine-sum"):
                b = self.side(self.free(shape, 1))
            elif len(S) > 1 and self.mut("sum-missing-argument"):
                b = L(S[:-1])
            else:
                b = L(S)
            return a + b if rng.random() < 0.7 else a - b
        if p == "scale":
            s = self.side(self.free((), 1))
            return s * L(S) if rng.random() < 0.5 else L(S) * s
        if p == "neg":
            return -L(S)
        if p == "cond":
            c = self.G.condition(1) if not self.cplx else None
            if self.facet or self.cplx:
                re = ufl.real if self.cplx else (lambda x: x)
                c = rng.choice([ufl.lt, ufl.ge])(re(self.side(self.free((), 0))), re(self.side(self.free((), 1))))
            if self.mut("condition-on-argument"):
                c = ufl.lt(ufl.real(L(S[:1], ())) if self.cplx else L(S[:1], ()), self.free((), 0))
            r = rng.random()
            if r < 0.4:
                return ufl.conditional(c, L(S), L(S))
            z = ufl.zero(*shape) if shape else ufl.as_ufl(0)
            if self.mut("conditional-nonzero-branch"):
                z = self.side(self.free(shape, 0)) + (ufl.as_ufl(1) if shape == () else self.free(shape, 0))
            return ufl.conditional(c, L(S), z) if r < 0.7 else ufl.conditional(c, z, L(S))
        if p == "product":
            S1, S2 = self.split(S, allow_empty=False) if len(S) > 1 else (S, ())
            if self.mut("repeated-argument"):
                S2 = tuple(sorted(set(S2) | {rng.choice(S1)})) if S1 else S2
            return L(S1, ()) * L(S2, ())
        if p == "division":
            den = self.side(self.G.nonzero(1))
            if self.mut("divide-by-argument"):
                den = L(S[:1], ()) + 3
                if rng.random() < 0.5:
                    return self.side(self.free((), 0)) / L(S[:1], ())
            return L(S) / den
        if p == "nonlin-free":
            # nonlinear operators applied to argument-free operands are fine; applied to the argument they are the near-miss
            if self.mut("nonlinear-of-argument"):
                f = rng.choice([ufl.sin, abs, lambda x: x ** 2, ufl.exp, lambda x: x ** 1, ufl.sqrt] + ([] if not self.cplx else [ufl.real, ufl.imag]))
                return f(L(S))
            f = rng.choice([ufl.sin, abs, lambda x: x ** 2, ufl.cos])
            return f(self.side(self.free((), 1))) * L(S)
        if p == "conj":
            return ufl.conj(self.lin(S, self.flip(fl, S), shape, d - 1))
        if p == "contract":
            i = ufl.Index()
            S1, S2 = self.split(S)
            a = self.lin(S1, fl, (gd,), d - 1)
            b = self.lin(S2, fl, (gd,), d - 1)
            return a[i] * b[i]
        if p == "index":
            return self.lin(S, fl, (gd,), d - 1)[rng.randrange(gd)]
        if p == "variable":
            return ufl.variable(L(S))
        if p == "inner":
            S1, S2 = self.split(S)
            a = self.lin(S1, fl, (gd,), d - 1)
            b = self.lin(S2, self.flip(fl, S2) if self.cplx else fl, (gd,), d - 1)
            return ufl.inner(a, b)
        if p == "dot":
            S1, S2 = self.split(S)
            return ufl.dot(self.lin(S1, fl, (gd,), d - 1), self.lin(S2, fl, (gd,), d - 1))
        # ---- vector valued
        if p == "list":
            comps = []
            for k in range(gd):
                if rng.random() < 0.65 or (k == gd - 1 and not any(c is not None for c in comps)):
                    comps.append(self.lin(S, fl, (), d - 1))
                else:
                    comps.append(None)
            out = []
            for c in comps:
                if c is not None:
                    out.append(c)
                elif self.mut("listtensor-nonzero-component"):
                    out.append(self.side(self.free((), 1)) if rng.random() < 0.7 else ufl.as_ufl(rng.choice([1, 2.5])))
                elif len(S) > 1 and self.mut("listtensor-other-arguments"):
                    out.append(self.lin(S[:-1], fl, (), d - 1))
                else:
                    out.append(ufl.as_ufl(0) if rng.random() < 0.8 else 0 * self.free((), 0))
            return ufl.as_vector(out)
        if p == "scalevec":
            S1, S2 = self.split(S)
            return self.lin(S1, fl, (), d - 1) * self.lin(S2, fl, (gd,), d - 1)
        if p == "matvec":
            i, j = ufl.Index(), ufl.Index()
            A = self.side(self.free((gd, gd), 1))
            return ufl.as_tensor(A[i, j] * self.lin(S, fl, (gd,), d - 1)[j], (i,))
        if p == "dotmv":
            A = self.side(self.free((gd, gd), 1))
            return ufl.dot(A, self.lin(S, fl, (gd,), d - 1))
        if p == "ct":
            i = ufl.Index()
            return ufl.as_tensor(self.lin(S, fl, (gd,), d - 1)[i] * self.side(self.free((), 1)), (i,))
        raise AssertionError(p)

    def integrand(self, depth):
        S = tuple(sorted(self.args))
        fl = self.flags0()
        for _ in range(6):
            try:
                e = self.lin(S, fl, (), depth)
                if e.ufl_shape == () and not e.ufl_free_indices:
                    return e
            except (ValueError, IndexError, KeyError, TypeError, AssertionError, ZeroDivisionError):
                continue
        return self.atom(S, fl, ())


def directed_forms():
    """corner cases the property names; (name, builder(ufl pool) -> (form, complex_mode))"""
    import ufl
    from utils import LagrangeElement
    cell = ufl.triangle
    mesh = ufl.Mesh(LagrangeElement(cell, 1, (2,)))
    V = ufl.FunctionSpace(mesh, LagrangeElement(cell, 1))
    W = ufl.FunctionSpace(mesh, LagrangeElement(cell, 1, (2,)))
    v, u = ufl.TestFunction(V), ufl.TrialFunction(V)
    vv, uu = ufl.TestFunction(W), ufl.TrialFunction(W)
    f, g, w = ufl.Coefficient(V), ufl.Coefficient(V), ufl.Coefficient(W)
    i, j = ufl.Index(), ufl.Index()
    dx, ds, dS = ufl.dx, ufl.ds, ufl.dS
    cj = ufl.conj
    D = [
        ("mass", u * v * dx, False), ("mass-complex", u * cj(v) * dx, True), ("mass-complex-unconjugated", u * v * dx, True),
        ("inner-complex", ufl.inner(u, v) * dx, True), ("inner-complex-swapped", ufl.inner(v, u) * dx, True),
        ("dot-complex", ufl.dot(uu, vv) * dx, True), ("dot-conj-complex", ufl.dot(uu, cj(vv)) * dx, True),
        ("outer-complex", ufl.outer(vv, uu)[0, 1] * dx, True), ("outer-complex-swapped", ufl.outer(uu, vv)[0, 1] * dx, True),
        ("affine", (u + f) * v * dx, False), ("affine-one", (v + 1) * f * dx, False), ("quadratic", v * v * dx, False),
        ("quadratic-trial", u * u * v * dx, False), ("nonlinear-sin", ufl.sin(v) * dx, False), ("abs", abs(v) * dx, False),
        ("power-one", v ** 1 * f * dx, False), ("divide-by-argument", f / v * dx, False), ("divide-argument", v / (f * f + 1) * dx, False),
        ("sqrt-of-square", ufl.sqrt(v * v) * dx, False),
        ("listtensor-affine", ufl.as_vector([v, f])[i] * w[i] * dx, False),
        ("listtensor-affine-complex", ufl.as_vector([cj(v), f])[i] * w[i] * dx, True),
        ("listtensor-affine-literal", ufl.as_vector([v, 1])[i] * w[i] * dx, False),
        ("listtensor-affine-bilinear", ufl.as_vector([u * v, f])[i] * w[i] * dx, False),
        ("listtensor-affine-nested", ufl.as_matrix([[v, 0], [0, f]])[i, j] * ufl.outer(w, w)[i, j] * dx, False),
        ("listtensor-zero", ufl.as_vector([v, 0])[i] * w[i] * dx, False),
        ("listtensor-zero-nested", ufl.as_matrix([[v, 0], [0, 0]])[i, j] * ufl.outer(w, w)[i, j] * dx, False),
        ("listtensor-mixed-arguments", ufl.as_vector([v, u])[i] * w[i] * dx, False),
        ("listtensor-mixed-arity", ufl.as_vector([v * u, u])[i] * w[i] * dx, False),
        ("listtensor-both", ufl.as_vector([v, 2 * v])[i] * w[i] * dx, False),
        ("listtensor-conj-mixed", ufl.as_vector([v, cj(v)])[i] * w[i] * dx, True),
        ("conditional-zero", ufl.conditional(f < 1, v, 0) * dx, False), ("conditional-zero-first", ufl.conditional(f < 1, 0, v) * dx, False),
        ("conditional-same", ufl.conditional(f < 1, v, 2 * v) * dx, False), ("conditional-affine", ufl.conditional(f < 1, v, f) * dx, False),
        ("conditional-one", ufl.conditional(f < 1, v, 1) * dx, False), ("conditional-mixed", ufl.conditional(f < 1, v * u, v) * dx, False),
        ("condition-on-argument", ufl.conditional(v < 1, f, g) * dx, False),
        ("condition-on-argument-with-arg", ufl.conditional(v < 1, v, v) * dx, False),
        ("missing-trial", v * f * dx + u * v * dx, False),
        ("grad-grad", ufl.inner(ufl.grad(u), ufl.grad(v)) * dx, False), ("grad-grad-complex", ufl.inner(ufl.grad(u), ufl.grad(v)) * dx, True),
        ("div-vector", ufl.div(uu) * v * dx, False), ("curl-like", (uu[1].dx(0) - uu[0].dx(1)) * v * dx, False),
        ("variable", ufl.variable(v) * f * dx, False), ("variable-sum", (ufl.variable(v) + f) * dx, False),
        ("facet-jump", ufl.jump(v) * ufl.avg(u) * dS, False), ("facet-sides", v("+") * u("-") * dS, False),
        ("facet-affine", (v("+") + f("-")) * dS, False), ("boundary", v * f * ds, False),
        ("derivative-1", ufl.derivative(ufl.sin(f) * f * dx, f, v), False),
        ("derivative-2", ufl.derivative(ufl.derivative(ufl.exp(f) * g * dx, f, v), f, u), False),
        ("derivative-vector", ufl.derivative(ufl.inner(w, w) * ufl.sqrt(ufl.inner(w, w) + 1) * dx, w, vv), False),
        ("derivative-listtensor", ufl.derivative(ufl.as_vector([f * f, g])[i] * w[i] * dx, f, v), False),
        ("real-part-of-argument", ufl.real(v) * dx, True), ("imag-part", ufl.imag(cj(v)) * dx, True),
        ("conj-conj", cj(cj(cj(v))) * u * dx, True), ("trial-conjugated", cj(u) * cj(v) * dx, True),
        ("sum-conj-mismatch", (v + cj(v)) * dx, True),
        ("three-arguments", ufl.Argument(V, 2) * u * v * dx, False),
        ("three-arguments-complex", ufl.Argument(V, 2) * u * cj(v) * dx, True),
    ]
    # argument parts: one test function in two blocks
    v0, v1 = ufl.Argument(V, 0, 0), ufl.Argument(V, 0, 1)
    D += [("parts-listtensor", ufl.as_vector([v0, v1])[i] * w[i] * dx, False), ("parts-sum", (v0 + v1) * f * dx, False),
          ("parts-product", v0 * v1 * dx, False), ("parts-listtensor-trial", ufl.as_vector([v0 * u, v1 * u])[i] * w[i] * dx, False)]
    return D


# ------------------------------------------------------------------------------------------------------------------
# independent numeric evaluator of preprocessed integrands (real or complex floating point)
# ------------------------------------------------------------------------------------------------------------------
class Unsupported(Exception):
    pass


class Valuation:
    """values of terminals, their derivative jets, reference values, per side.  Keys of the argument number `n` live in `own`,
    everything else is shared between the three valuations of one linearity test."""

    def __init__(self, rng, cplx, n, shared, own=None, combo=None):
        self.rng, self.cplx, self.n, self.shared, self.own, self.combo = rng, cplx, n, shared, ({} if own is None else own), combo
        self.memo = {}

    def rand(self):
        r = self.rng.choice([-1, 1]) * self.rng.uniform(0.5, 2.0)
        if self.cplx:
            return complex(r, self.rng.choice([-1, 1]) * self.rng.uniform(0.5, 2.0))
        return r

    def term(self, t, kind, comp, derivs, side):
        from ufl.classes import Argument
        key = (repr(t), kind, tuple(comp), tuple(derivs), side)
        if isinstance(t, Argument) and t.number() == self.n:
            if self.combo is not None:
                s, r1, r2 = self.combo
                return s * r1.term(t, kind, comp, derivs, side) + r2.term(t, kind, comp, derivs, side)
            if key not in self.own:
                self.own[key] = self.rand()
            return self.own[key]
        if key not in self.shared:
            self.shared[key] = self.rand()
        return self.shared[key]


MATH = {"Sqrt": cmath.sqrt, "Exp": cmath.exp, "Ln": cmath.log, "Cos": cmath.cos, "Sin": cmath.sin, "Tan": cmath.tan, "Cosh": cmath.cosh,
        "Sinh": cmath.sinh, "Tanh": cmath.tanh, "Acos": cmath.acos, "Asin": cmath.asin, "Atan": cmath.atan}


def _re(x):
    return x.real if isinstance(x, complex) else x


def ev(o, comp, ienv, side, R):
    """value of component `comp` of `o` with free indices read from `ienv` (count -> value)"""
    import ufl.classes as C
    fi = getattr(o, "ufl_free_indices", ())
    mk = (id(o), tuple(comp), side, tuple((i, ienv[i]) for i in fi if i in ienv))
    if mk in R.memo:
        return R.memo[mk][1]
    v = _ev(o, tuple(comp), ienv, side, R, C)
    R.memo[mk] = (o, v)
    return v


def chain_base(o, C):
    """grad^k / reference_grad^k of a terminal or of ReferenceValue(terminal): (terminal, kind, k)"""
    k, kind = 0, ""
    while isinstance(o, (C.Grad, C.ReferenceGrad)):
        kind += "g" if isinstance(o, C.Grad) else "r"
        o = o.ufl_operands[0]
        k += 1
    side = None
    if isinstance(o, C.Restricted):      # apply_restrictions moves the restriction below reference gradients
        side = o.side()
        o = o.ufl_operands[0]
    if isinstance(o, C.ReferenceValue) and o.ufl_operands[0]._ufl_is_terminal_:
        return o.ufl_operands[0], kind + "V", k, side
    if o._ufl_is_terminal_:
        return o, kind, k, side
    return None, None, k, side


def _ev(o, comp, ienv, side, R, C):
    if o._ufl_is_terminal_:
        if isinstance(o, C.Zero):
            return 0.0
        if isinstance(o, C.ComplexValue):
            return complex(o._value)
        if isinstance(o, C.ScalarValue):
            return float(o._value)
        if isinstance(o, C.Identity):
            return 1.0 if comp[0] == comp[1] else 0.0
        if isinstance(o, (C.MultiIndex, C.Label)):
            raise Unsupported("value of " + type(o).__name__)
        return R.term(o, "", comp, (), side)
    ops = o.ufl_operands
    if isinstance(o, C.Sum):
        return ev(ops[0], comp, ienv, side, R) + ev(ops[1], comp, ienv, side, R)
    if isinstance(o, C.Product):
        return ev(ops[0], (), ienv, side, R) * ev(ops[1], (), ienv, side, R)
    if isinstance(o, C.Division):
        return ev(ops[0], comp, ienv, side, R) / ev(ops[1], (), ienv, side, R)
    if isinstance(o, C.Power):
        a, b = ev(ops[0], (), ienv, side, R), ev(ops[1], (), ienv, side, R)
        if isinstance(b, float) and b == int(b) and abs(b) < 64:
            return a ** int(b)
        return cmath.exp(b * cmath.log(a)) if R.cplx else math.pow(a, b)
    if isinstance(o, C.Abs):
        return abs(ev(ops[0], comp, ienv, side, R))
    if isinstance(o, C.Conj):
        x = ev(ops[0], comp, ienv, side, R)
        return x.conjugate() if isinstance(x, complex) else x
    if isinstance(o, C.Real):
        return _re(ev(ops[0], comp, ienv, side, R))
    if isinstance(o, C.Imag):
        x = ev(ops[0], comp, ienv, side, R)
        return x.imag if isinstance(x, complex) else 0.0
    if isinstance(o, C.Indexed):
        c2 = tuple(int(i) if isinstance(i, C.FixedIndex) else ienv[i.count()] for i in ops[1])
        return ev(ops[0], c2, ienv, side, R)
    if isinstance(o, C.IndexSum):
        j = ops[1][0].count()
        tot = 0.0
        for k in range(o.dimension()):
            e2 = dict(ienv)
            e2[j] = k
            tot = tot + ev(ops[0], comp, e2, side, R)
        return tot
    if isinstance(o, C.ComponentTensor):
        e2 = dict(ienv)
        for i, c in zip(ops[1], comp):
            e2[i.count()] = c
        return ev(ops[0], (), e2, side, R)
    if isinstance(o, C.ListTensor):
        return ev(ops[comp[0]], comp[1:], ienv, side, R)
    if isinstance(o, C.Conditional):
        return ev(ops[1], comp, ienv, side, R) if evc(ops[0], ienv, side, R, C) else ev(ops[2], comp, ienv, side, R)
    if isinstance(o, (C.MinValue, C.MaxValue)):
        a, b = ev(ops[0], (), ienv, side, R), ev(ops[1], (), ienv, side, R)
        if isinstance(o, C.MinValue):
            return a if _re(a) < _re(b) else b
        return a if _re(a) > _re(b) else b
    if isinstance(o, C.Variable):
        return ev(ops[0], comp, ienv, side, R)
    if isinstance(o, C.Restricted):
        return ev(ops[0], comp, ienv, o.side(), R)
    if isinstance(o, (C.CellAvg, C.FacetAvg)):
        return ev(ops[0], comp, ienv, (side, type(o).__name__), R)
    if isinstance(o, (C.Grad, C.ReferenceGrad)):
        t, kind, k, sd = chain_base(o, C)
        if t is None:
            raise Unsupported("gradient of a non-terminal")
        r = len(comp) - k
        return R.term(t, kind, comp[:r], comp[r:], side if sd is None else sd)
    if isinstance(o, C.ReferenceValue):
        if not ops[0]._ufl_is_terminal_:
            raise Unsupported("reference value of a non-terminal")
        return R.term(ops[0], "V", comp, (), side)
    if isinstance(o, C.MathFunction):
        x = ev(ops[0], (), ienv, side, R)
        f = MATH.get(type(o).__name__)
        if f is None:
            if isinstance(o, C.Erf):
                return math.erf(_re(x))
            raise Unsupported(type(o).__name__)
        y = f(x)
        return y if R.cplx else (y.real if abs(y.imag) < 1e-300 else float("nan"))
    if isinstance(o, C.Atan2):
        return math.atan2(_re(ev(ops[0], (), ienv, side, R)), _re(ev(ops[1], (), ienv, side, R)))
    # compound operators occur only in the direct stream, which is not evaluated
    raise Unsupported(type(o).__name__)


def evc(c, ienv, side, R, C):
    ops = c.ufl_operands
    if isinstance(c, C.AndCondition):
        return evc(ops[0], ienv, side, R, C) and evc(ops[1], ienv, side, R, C)
    if isinstance(c, C.OrCondition):
        return evc(ops[0], ienv, side, R, C) or evc(ops[1], ienv, side, R, C)
    if isinstance(c, C.NotCondition):
        return not evc(ops[0], ienv, side, R, C)
    a, b = ev(ops[0], (), ienv, side, R), ev(ops[1], (), ienv, side, R)
    if isinstance(c, C.EQ):
        return a == b
    if isinstance(c, C.NE):
        return a != b
    a, b = _re(a), _re(b)
    if isinstance(c, C.LT):
        return a < b
    if isinstance(c, C.GT):
        return a > b
    if isinstance(c, C.LE):
        return a <= b
    if isinstance(c, C.GE):
        return a >= b
    raise Unsupported(type(c).__name__)


def linearity_defect(e, arguments, cplx, rng, trials=2):
    """None if `e` is numerically linear (antilinear for the test function in complex mode) in every argument number;
    otherwise (number, lhs, rhs).  'inconclusive' if the values cannot be computed."""
    numbers = sorted({a.number() for a in arguments})
    for n in numbers:
        for _ in range(trials):
            shared = {}
            r1 = Valuation(rng, cplx, n, shared)
            r2 = Valuation(rng, cplx, n, shared)
            s = complex(rng.uniform(0.5, 2), rng.uniform(0.5, 2)) if cplx else rng.choice([-1, 1]) * rng.uniform(1.5, 3)
            r12 = Valuation(rng, cplx, n, shared, combo=(s, r1, r2))
            try:
                v1 = ev(e, (), {}, None, r1)
                v2 = ev(e, (), {}, None, r2)
                v12 = ev(e, (), {}, None, r12)
            except Unsupported as ex:
                return ("inconclusive", "unsupported " + str(ex))
            except (OverflowError, ZeroDivisionError, ValueError) as ex:
                return ("inconclusive", type(ex).__name__)
            sigma = s.conjugate() if (cplx and n == 0) else s
            rhs = sigma * v1 + v2
            vals = [v12, rhs, v1, v2]
            if any(isinstance(x, complex) and (cmath.isnan(x) or cmath.isinf(x)) or isinstance(x, float) and (math.isnan(x) or math.isinf(x)) for x in vals):
                return ("inconclusive", "nan")
            scale = max(1.0, abs(v12), abs(sigma * v1), abs(v2))
            if abs(v12 - rhs) > 1e-8 * scale:
                return (n, v12, rhs)
    return None


def affine_listtensor(e):
    """does `e` contain a ListTensor with a component depending on arguments next to a non-Zero component without arguments"""
    from ufl.classes import ListTensor, Zero, Argument
    from ufl.corealg.traversal import unique_pre_traversal, traverse_unique_terminals
    for o in unique_pre_traversal(e):
        if isinstance(o, ListTensor):
            has = [any(isinstance(t, Argument) for t in traverse_unique_terminals(c)) for c in o.ufl_operands]
            if any(has) and any((not h) and not isinstance(c, Zero) for h, c in zip(has, o.ufl_operands)):
                return True
    return False


# ------------------------------------------------------------------------------------------------------------------
class Recorder:
    """wraps the name `check_integrand_arity` in ufl.algorithms.formdata: records what compute_form_data hands to the check"""

    def __init__(self):
        import ufl.algorithms.formdata as fd
        self.fd = fd
        self.orig = fd.check_integrand_arity
        self.calls = []

    def __enter__(self):
        from ufl.algorithms.check_arities import ArityMismatch
        def wrapped(expr, arguments, complex_mode=False):
            try:
                self.orig(expr, arguments, complex_mode)
            except ArityMismatch as ex:
                self.calls.append((expr, tuple(arguments), bool(complex_mode), "err", str(ex)))
                raise
            self.calls.append((expr, tuple(arguments), bool(complex_mode), "ok", ""))
        self.fd.check_integrand_arity = wrapped
        return self

    def __exit__(self, *a):
        self.fd.check_integrand_arity = self.orig


def impl_check(e, arguments, cplx):
    """the implementation on one input: ('ok', [(key, conj)..]) | ('err', site)"""
    from ufl.algorithms.check_arities import ArityChecker, ArityMismatch, check_integrand_arity
    from ufl.corealg.map_dag import map_expr_dag
    try:
        check_integrand_arity(e, arguments, cplx)
    except ArityMismatch as ex:
        return ("err", site_of(str(ex)))
    args = tuple(sorted(set(arguments), key=lambda x: (x.number(), x.part())))
    tup = map_expr_dag(ArityChecker(args), e, compress=False)
    return ("ok", [(uflio.enc(repr(a)), int(bool(c))) for a, c in tup])


def impl_raw(e, arguments):
    from ufl.algorithms.check_arities import ArityChecker, ArityMismatch
    from ufl.corealg.map_dag import map_expr_dag
    try:
        tup = map_expr_dag(ArityChecker(tuple(arguments)), e, compress=False)
    except ArityMismatch as ex:
        return ("err", site_of(str(ex)))
    return ("ok", [(uflio.enc(repr(a)), int(bool(c))) for a, c in tup])


def parse_model(r):
    r = r.strip()
    if r.startswith("(err "):
        return ("err", r[5:-1])
    if r.startswith("(ok"):
        body = r[3:-1].strip()
        out = []
        if body:
            for item in body.replace("(", " ").replace(")", " ").split():
                out.append(item)
            out = [(out[i], int(out[i + 1])) for i in range(0, len(out), 2)]
        return ("ok", out)
    return ("bad", r)


def same_result(a, b, keyinfo):
    """equal verdicts; tuples equal up to the order of entries with equal sort key (number, part)"""
    if a[0] != b[0]:
        return False
    if a[0] == "err":
        return a[1] == b[1]
    if a[1] == b[1]:
        return True
    ka = sorted(a[1], key=lambda p: (keyinfo.get(p[0], (0, 0)), p))
    kb = sorted(b[1], key=lambda p: (keyinfo.get(p[0], (0, 0)), p))
    if ka != kb:
        return False
    return [keyinfo.get(p[0]) for p in a[1]] == [keyinfo.get(p[0]) for p in b[1]]


def nops(s):
    return s.count("(O ")


def opnames(e):
    from ufl.corealg.traversal import unique_pre_traversal
    return [type(o).__name__ for o in unique_pre_traversal(e) if not o._ufl_is_terminal_]


class C14(Prop):
    pid = "C14"
    lean_modules = ["UflVerif.Props.C14"]
    min_theorems = 8
    trusted = ["translator harness/translate/arity.py (reads `ArityChecker()._handlers`, `_is_cutoff_type`, and observes `list_tensor` on <v, f> and <v, 0>)",
               "correspondence harness/props/c14.py + Drivers/C14.lean; serializer harness/uflio.py; the numeric evaluator in harness/props/c14.py (oracle only)",
               "modelled rather than verified: iteration order of Python sets for entries with equal (number, part) sort key (compared up to that order); "
               "mixing None and integer parts of one argument number (TypeError in Python's sort); ExternalOperator/Interpolate/BaseForm arguments (argument slots are not operands); "
               "the semantics gives no interpretation to ReferenceValue, ReferenceGrad, CellAvg, FacetAvg, Inner, Dot, Outer (value 0): for these nodes the soundness theorem is "
               "vacuous and only the oracle (which treats the first four as linear maps with independent data) speaks; Inner/Dot/Outer never reach the check inside compute_form_data"]
    assumptions = ["linearity is per argument *number*: all parts of one number are scaled together (the implementation deliberately lets parts of one number share a list tensor)",
                   "terminal keys (repr) identify terminals: the environment predicate N marks exactly the keys of the Argument terminals with the number under test (hypothesis `tied`)",
                   "conjugation of the environment is an involutive ring homomorphism; in real mode it is the identity (compute_form_data removes Conj/Real/Imag nodes in real mode)",
                   "full soundness needs: an argument-free component of a list tensor that has components with arguments is Zero (`zeroFill`); the code as it stands does not check this "
                   "(C14_listtensor_counterexample); with the proposed repair (fix_C14_1.diff) the side condition is implied by acceptance (C14_sound_strict)"]

    # ---------------------------------------------------------------------------------------------------------- translator
    def regenerate(self, ctx):
        text, self.stats = arity_tr.render()
        p = LEAN / "UflVerif/Gen/Arity.lean"
        return [(p.relative_to(LEAN), write_if_changed(p, text))]

    def strict(self):
        st = getattr(self, "stats", None)
        if st is None:
            _, st = arity_tr.render()
            self.stats = st
        return 1 if st["zero_only"] else 0

    # ---------------------------------------------------------------------------------------------------------- inputs
    def direct_cases(self, ctx, n):
        """(tag, e, arguments, cplx, raw) ; raw: also compare the bare ArityChecker result"""
        import ufl
        out = []
        for k in range(n):
            rng = random.Random(ctx.seed * 1000003 + 14 * 7919 + k)
            cplx = rng.random() < 0.4
            mode = k % 5
            if mode == 4:
                G = gen.Gen(rng, gdim=rng.choice([2, 3]), with_args=True, math=(k % 2 == 0), compound=(k % 3 == 0), derivs=False, minmax=not cplx)
                e = G.expr((), (), rng.randint(1, 3))
                args = [a for as_ in G.args.values() for a in as_]
                args = [a for a in args if rng.random() < 0.8] or args
                out.append(("random", e, args, cplx, None))
                continue
            L = Lin(rng, cplx, compound=(k % 2 == 0), facet=(k % 11 == 0), p_mut=(0.0 if mode == 0 else 0.12))
            e = L.integrand(rng.randint(1, 4))
            args = L.all_args()
            r = rng.random()
            if r < 0.06 and len(args) > 1:
                args = args[:-1]                       # form has fewer arguments than the integrand
            elif r < 0.12:
                args = args + [ufl.Argument(args[0].ufl_function_space(), L.nargs)]   # form has one more
            elif r < 0.2:
                args = args + args[:1]                 # duplicates are removed by the check
                rng.shuffle(args)
            out.append(("lin" + ("+" + ",".join(L.muts) if L.muts else ""), e, args, cplx, L))
        return out

    def pipeline_cases(self, ctx, n):
        """(tag, form, complex_mode, options)"""
        import ufl
        out = []
        for name, form, cplx in directed_forms():
            out.append(("directed:" + name, form, cplx, {}))
            if not name.startswith(("facet", "derivative")):
                out.append(("directed:" + name + "/pullback", form, cplx, dict(do_apply_function_pullbacks=True, do_apply_geometry_lowering=True, do_apply_integral_scaling=True)))
        for k in range(n):
            rng = random.Random(ctx.seed * 1000003 + 14 * 104729 + k)
            cplx = rng.random() < 0.4
            facet = (k % 6 == 0)
            L = Lin(rng, cplx, compound=(k % 2 == 0), facet=facet, p_mut=(0.0 if k % 3 == 0 else 0.12))
            e = L.integrand(rng.randint(1, 4))
            if k % 9 == 4 and not facet:
                # Gateaux derivatives of a nonlinear functional: multilinear integrands produced by apply_derivatives
                f = rng.choice(L.G.coeffs[()])
                F = (L.G.expr((), (), 3) * f) * ufl.Measure("dx", domain=L.mesh)
                try:
                    v = ufl.TestFunction(f.ufl_function_space())
                    form = ufl.derivative(F, f, v)
                    if rng.random() < 0.5:
                        form = ufl.derivative(form, f, ufl.TrialFunction(f.ufl_function_space()))
                    out.append(("derivative#%d" % k, form, False, {}))
                    continue
                except Exception:  # noqa
                    pass
            meas = ufl.Measure("dS" if facet else rng.choice(["dx", "dx", "ds"]), domain=L.mesh)
            form = e * meas
            if rng.random() < 0.15:
                L.muts.append("second-integral")
                form = form + L.integrand(2) * meas(1)
            opts = {}
            if rng.random() < 0.35:
                opts = dict(do_apply_function_pullbacks=True, do_apply_geometry_lowering=rng.random() < 0.7, do_apply_integral_scaling=rng.random() < 0.7)
            if rng.random() < 0.2:
                opts["do_remove_component_tensors"] = True
            out.append(("lin#%d" % k + ("+" + ",".join(L.muts) if L.muts else ""), form, cplx, opts))
        return out

    def run_pipeline(self, form, cplx, opts):
        """returns (recorded calls, outcome)"""
        import warnings
        from ufl.algorithms import compute_form_data
        from ufl.algorithms.check_arities import ArityMismatch
        from ufl.algorithms.comparison_checker import ComplexComparisonError
        with Recorder() as rec:
            try:
                with warnings.catch_warnings():
                    warnings.simplefilter("ignore")
                    compute_form_data(form, complex_mode=cplx, **opts)
                outcome = "accepted"
            except ArityMismatch as ex:
                outcome = "rejected:" + site_of(str(ex))
            except (Exception, ComplexComparisonError) as ex:  # noqa  (preprocessing refused the form for another reason)
                outcome = "other:" + type(ex).__name__
        return rec.calls, outcome

    # ---------------------------------------------------------------------------------------------------------- correspondence
    def correspondence(self, ctx, ev):
        st = self.strict()
        nd = 600 if ctx.quick else 9000
        npipe = 300 if ctx.quick else 6000
        memo, keep = {}, []
        reqs, meta = [], []
        keyinfo = {}

        def note_args(arguments):
            for a in arguments:
                keyinfo[uflio.enc(repr(a))] = (a.number(), -1 if a.part() is None else a.part())

        def add(kind, tag, e, arguments, cplx, impl):
            keep.append((e, arguments))
            note_args(arguments)
            from ufl.algorithms.analysis import extract_type
            from ufl.classes import Argument
            note_args(extract_type(e, Argument))
            s = uflio.ser(e, memo)
            if kind == "check":
                rq = "(check %d %d %s (%s))" % (st, 1 if cplx else 0, s, " ".join(uflio.ser(a, memo) for a in arguments))
            else:
                rq = "(arity %d %s)" % (st, s)
            reqs.append(rq)
            meta.append((kind, tag, e, arguments, cplx, impl, s))

        # direct stream
        direct = self.direct_cases(ctx, nd)
        for tag, e, args, cplx, L in direct:
            add("check", "direct:" + tag, e, args, cplx, impl_check(e, args, cplx))
            add("arity", "direct-raw:" + tag, e, args, cplx, impl_raw(e, args))
        # pipeline stream
        self.pipe = []
        outcomes, nmiss = {}, {}
        for tag, form, cplx, opts in self.pipeline_cases(ctx, npipe):
            calls, outcome = self.run_pipeline(form, cplx, opts)
            for m in (tag.split("+", 1)[1].split(",") if "+" in tag else (["none"] if tag.startswith("lin") else [])):
                nmiss.setdefault(m, {})
                nmiss[m][outcome.split(":")[0]] = nmiss[m].get(outcome.split(":")[0], 0) + 1
            outcomes[outcome.split(":")[0] if outcome.startswith("other") else outcome] = outcomes.get(outcome.split(":")[0] if outcome.startswith("other") else outcome, 0) + 1
            for (e, arguments, cm, res, msg) in calls:
                impl = impl_check(e, arguments, cm)
                if (impl[0] == "ok") != (res == "ok"):
                    impl = ("bad", "check_integrand_arity is not deterministic: %s vs %s" % (impl, res))
                add("check", "pipeline:" + tag, e, arguments, cm, impl)
                self.pipe.append((tag, form, cplx, opts, e, arguments, cm, res, msg))
        replies = leandrv.run_driver("C14", reqs)
        fails = []
        verdicts, sites, ops_hist, distinct = {}, {}, {}, set()
        agree = 0
        accepted_nontrivial = 0
        for (kind, tag, e, arguments, cplx, impl, s), rq, rep in zip(meta, reqs, replies):
            model = parse_model(rep)
            stream = tag.split(":")[0]
            verdicts[(stream, impl[0])] = verdicts.get((stream, impl[0]), 0) + 1
            if impl[0] == "err":
                sites[impl[1]] = sites.get(impl[1], 0) + 1
            if "(T Argument" in s and nops(s) >= 3:
                distinct.add(s)
                if impl[0] == "ok" and kind == "check":
                    accepted_nontrivial += 1
            if kind == "check":
                for nm in opnames(e):
                    ops_hist[nm] = ops_hist.get(nm, 0) + 1
            if same_result(impl, model, keyinfo):
                agree += 1
            elif cplx and model == ("err", "sum") and "(O ListTensor" in s and ("(O Conj" in s or "(O Inner" in s or "(O Dot" in s or "(O Outer" in s):
                # outside the model (stated in Model/Arity.lean): a list tensor whose components carry ONE argument with BOTH conjugation
                # flags gets the tuple sorted(set(..), key=(number, part)); the order of the two entries with equal key is Python's set
                # iteration order, the model uses first occurrence.  Two such list tensors can then compare equal in the code and
                # unequal in the model (or vice versa).  Counted, not compared; the integrand is rejected later either way
                # (conjugated and unconjugated occurrence of one argument).
                set_order_skipped = locals().get("set_order_skipped", 0) + 1
                ev.cov["outside_model_set_iteration_order"] = set_order_skipped
            elif len(fails) < 10:
                fails.append(Failure("correspondence", kind + " " + tag, "expr: %s | arguments: %s | complex=%s | impl: %s | model: %s" % (
                    str(e)[:300], [str(a) for a in arguments], cplx, impl, model), case=rq[:4000]))
        ev.cov["evaluations"] = len(reqs)
        ev.cov["traces_validated_against_impl"] = agree
        ev.cov["distinct_nontrivial"] = len(distinct)
        ev.cov["accepted_nontrivial"] = accepted_nontrivial
        ev.cov["verdicts"] = {"%s/%s" % k: v for k, v in sorted(verdicts.items())}
        ev.cov["raise_sites"] = dict(sorted(sites.items()))
        ev.cov["pipeline_outcomes"] = dict(sorted(outcomes.items()))
        ev.cov["pipeline_seeded_near_miss_outcomes"] = {m: dict(sorted(v.items())) for m, v in sorted(nmiss.items())}
        ev.cov["operator_histogram_of_checked_integrands"] = dict(sorted(ops_hist.items(), key=lambda kv: -kv[1]))
        ev.cov["compound_operators_reaching_the_check_in_compute_form_data"] = sorted(
            {nm for (tag, form, cplx, opts, e, *_r) in self.pipe for nm in opnames(e) if nm in ("Inner", "Dot", "Outer")})
        ev.cov["list_tensor_rule_observed"] = "zero-only (repaired)" if st else "argument-free components ignored (current code)"
        ev.cov["translator"] = {k: v for k, v in self.stats.items()}
        ev.cov["rule"] = ("direct: integrands multilinear by construction (sums, products over disjoint argument sets, division by argument-free terms, index contraction, "
                          "list/component tensors, conditionals with Zero branches, conj, variables, restrictions, inner/dot; 1-3 arguments, optional parts) with probability "
                          "0.12 per production of one seeded near-miss, and every 5th case an unconstrained random expression over arguments; form argument tuple sometimes "
                          "short/long/duplicated; pipeline: the same generator times dx/ds/dS through compute_form_data with random options (pullbacks, geometry lowering, "
                          "scaling, component-tensor removal, complex mode), Gateaux derivatives, and %d directed corner cases; non-trivial = distinct serialized integrand "
                          "with an Argument and >= 3 operator nodes" % len(directed_forms()))
        ev.cov["samples"] = [dict(tag=tag, expr=str(e)[:160], complex=cplx, impl=str(impl)[:120]) for (kind, tag, e, arguments, cplx, impl, s) in meta[:2] + meta[-2:]]
        return fails

    # ---------------------------------------------------------------------------------------------------------- oracle
    def judge(self, e, arguments, cm, rng):
        """the property on one accepted integrand: None | (kind, what)"""
        from ufl.algorithms.analysis import extract_type
        from ufl.classes import Argument
        present = set(extract_type(e, Argument))
        if present != set(arguments):
            return ("arguments", "accepted integrand contains arguments %s but the form has %s" % (sorted(map(str, present)), sorted(map(str, arguments))))
        d = linearity_defect(e, arguments, cm, rng)
        if d is None:
            return None
        if d[0] == "inconclusive":
            return ("inconclusive", d[1])
        n, lhs, rhs = d
        return ("nonlinear", "accepted integrand is not %s in argument number %d: value at s*a+b is %s, %s*value(a)+value(b) is %s" % (
            "antilinear" if (cm and n == 0) else "linear", n, lhs, "conj(s)" if (cm and n == 0) else "s", rhs))

    def oracle(self, ctx, ev):
        rng = random.Random(ctx.seed * 1000003 + 14 * 15485863)
        if not hasattr(self, "pipe"):
            self.pipe = []
            for tag, form, cplx, opts in self.pipeline_cases(ctx, 300 if ctx.quick else 6000):
                calls, outcome = self.run_pipeline(form, cplx, opts)
                for (e, arguments, cm, res, msg) in calls:
                    self.pipe.append((tag, form, cplx, opts, e, arguments, cm, res, msg))
        out, seen = [], set()
        checked = inconclusive = 0
        reasons = {}
        accepted_mut = {}
        for idx, (tag, form, cplx, opts, e, arguments, cm, res, msg) in enumerate(self.pipe):
            if res != "ok":
                continue
            if "+" in tag:
                for m in tag.split("+", 1)[1].split(","):
                    accepted_mut[m] = accepted_mut.get(m, 0) + 1
            j = self.judge(e, arguments, cm, rng)
            if j is None:
                checked += 1
                continue
            if j[0] == "inconclusive":
                inconclusive += 1
                reasons[j[1]] = reasons.get(j[1], 0) + 1
                continue
            checked += 1
            if j[0] == "nonlinear" and affine_listtensor(e):
                key = "C14:listtensor-argument-free-nonzero-component"
                what = ("compute_form_data accepts an integrand that is affine, not linear, in an argument: a list tensor with a component depending on the "
                        "argument next to a non-zero component without arguments (e.g. as_vector([v, f])[i]*w[i]*dx); ArityChecker.list_tensor ignores argument-free components whatever they are")
            else:
                key = "C14:%s:%s" % (j[0], hashlib.sha1(uflio.alpha(uflio.ser(e)).encode()).hexdigest()[:10])
                what = j[1]
            if key in seen:
                continue
            seen.add(key)
            out.append(Witness(what=what + " :: " + tag + " :: " + str(e)[:200], key=key,
                               data=dict(kind=j[0], detail=j[1], tag=tag, index=idx, seed=ctx.seed, tier=ctx.tier, complex=cm,
                                         integrand=str(e)[:600], form=str(form)[:600], options=opts,
                                         directed=tag.split(":", 1)[1] if tag.startswith("directed:") else None)))
        # the verdict on a form does not depend on which forms were checked before: a lower-arity form first, then a form of higher arity
        # that contains the structurally SAME integrand on another subdomain (that form is not multilinear in all its arguments)
        import ufl
        from utils import LagrangeElement
        nh = 0
        for cplx_h in (False, True):
            mesh = ufl.Mesh(LagrangeElement(ufl.triangle, 1, (2,)))
            Vh = ufl.FunctionSpace(mesh, LagrangeElement(ufl.triangle, 1))
            fh, gh = ufl.Coefficient(Vh), ufl.Coefficient(Vh)
            vh, uh = ufl.TestFunction(Vh), ufl.TrialFunction(Vh)
            cj = ufl.conj if cplx_h else (lambda z: z)
            seqs = [(fh * cj(vh) * ufl.dx(domain=mesh), uh * cj(vh) * gh * ufl.dx(domain=mesh, subdomain_id=1) + fh * cj(vh) * ufl.dx(domain=mesh, subdomain_id=2)),
                    (fh * gh * ufl.dx(domain=mesh), fh * gh * ufl.dx(domain=mesh, subdomain_id=1) + gh * cj(vh) * ufl.dx(domain=mesh, subdomain_id=2))]
            for first, second in seqs:
                from ufl.algorithms import compute_form_data
                try:
                    compute_form_data(first, complex_mode=cplx_h)
                except BaseException:  # noqa
                    continue
                nh += 1
                try:
                    compute_form_data(second, complex_mode=cplx_h)
                    accepted = True
                except BaseException:  # noqa  (ArityMismatch derives from BaseException)
                    accepted = False
                if accepted and "C14:history" not in seen:
                    seen.add("C14:history")
                    out.append(Witness(what="a form one of whose integrands lacks one of the form's arguments is accepted after a lower-arity form with the same integrand was checked :: " + str(second)[:200],
                                       key="C14:history:accepted-after-lower-arity-form", data=dict(kind="history", seed=ctx.seed, tier=ctx.tier, complex=cplx_h, form=str(second)[:400])))
        ev.cov["oracle_history_sequences"] = nh
        ev.cov["oracle_accepted_integrands_checked"] = checked
        ev.cov["oracle_inconclusive"] = inconclusive
        ev.cov["oracle_inconclusive_reasons"] = reasons
        ev.cov["oracle_accepted_with_seeded_near_miss"] = dict(sorted(accepted_mut.items()))
        ev.cov["oracle_rule"] = ("every integrand accepted inside compute_form_data: Argument terminals == form arguments, and 2 random linearity tests per argument number "
                                 "(independent float/complex evaluator; data for terminals, gradients, reference values per side)")
        return out

    # ---------------------------------------------------------------------------------------------------------- replay / search
    def replay(self, ctx, data):
        d = data.get("data", data)
        ctx2 = common.Ctx(pid=ctx.pid, tier=d.get("tier", "quick"), seed=int(d.get("seed", 0)))
        n = 300 if ctx2.quick else 6000
        cases = self.pipeline_cases(ctx2, n)
        want = d.get("tag")
        rng = random.Random(1)
        for tag, form, cplx, opts in cases:
            if tag != want:
                continue
            calls, outcome = self.run_pipeline(form, cplx, opts)
            for (e, arguments, cm, res, msg) in calls:
                if res != "ok":
                    continue
                j = self.judge(e, arguments, cm, rng)
                if j is not None and j[0] != "inconclusive":
                    return Witness(what=j[1] + " :: " + str(e)[:200], key=data.get("key", "C14:replay"), data=d)
            if tag.startswith("directed:"):
                break
        return None

    def search(self, ctx, fails):
        """a tie broke: run the oracle on a fresh, larger sample (the oracle already ran on this run's sample)"""
        ctx2 = common.Ctx(pid=ctx.pid, tier=ctx.tier, seed=ctx.seed + 7919)
        self.pipe = []
        for tag, form, cplx, opts in self.pipeline_cases(ctx2, 600 if ctx.quick else 4000):
            calls, outcome = self.run_pipeline(form, cplx, opts)
            for (e, arguments, cm, res, msg) in calls:
                self.pipe.append((tag, form, cplx, opts, e, arguments, cm, res, msg))
        ev = common.Evidence(ctx2)
        ws = self.oracle(ctx2, ev)
        return ws[0] if ws else None


PROP = C14()
