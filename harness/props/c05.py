"""C05 Operators build expressions with the mathematically intended value.
Tie: correspondence — every modelled class constructor is called on generated operand tuples on the live classes and on the Lean
model (Drivers/Expr.lean `(mk Class operand*)`); compared: the built tree (exact), hence shape / free indices / index dimensions,
and raise / no raise.  Oracle: the value of the built expression against the operation applied to the operand values, and its
shape and free indices against the requested operation's."""
import random, itertools
from fractions import Fraction
import common
from common import Prop, Witness, Failure, LEAN, write_if_changed
from translate import typecodes
import uflio, gen, leandrv


def call(cls_name, args):
    """call the real constructor; ('ok', expr) | ('raises', type)"""
    import ufl.classes as C
    import warnings
    try:
        with warnings.catch_warnings():
            warnings.simplefilter("ignore")
            if cls_name == "ListTensor":
                r = C.ListTensor(*args)
            else:
                r = getattr(C, cls_name)(*args)
        # the built node must not be (or contain) its own operand
        seen, todo = set(), [r]
        while todo:
            o = todo.pop()
            if id(o) in seen:
                continue
            seen.add(id(o))
            for c in getattr(o, "ufl_operands", ()):
                if c is r:
                    return ("cyclic", r)
                todo.append(c)
        return ("ok", r)
    except Exception as e:  # noqa
        return ("raises", type(e).__name__)


class Cases:
    """operand tuples per constructor, mostly type-correct, with the corner cases the property names"""

    def __init__(self, rng, k):
        self.rng = rng
        self.G = gen.Gen(rng, gdim=rng.choice([2, 3]), math=(k % 4 == 0), compound=False, derivs=False, reuse=0.85, variables=(k % 3 == 0))
        self.out = []

    def scalar(self, fi=(), depth=None):
        r = self.rng.random()
        if r < 0.12:
            return self.G.literal()
        if r < 0.2:
            import ufl
            dims = tuple(self.G.idxdim[i] for i in fi)
            return ufl.classes.Zero((), tuple(sorted(i.count() for i in fi)), tuple(d for _, d in sorted((i.count(), self.G.idxdim[i]) for i in fi))) if fi else ufl.classes.Zero()
        return self.G.expr((), fi, self.rng.randint(0, 2) if depth is None else depth)

    def some_fi(self, n=None):
        n = self.rng.choice([0, 0, 1, 1, 2]) if n is None else n
        return tuple(self.rng.sample(self.G.idxpool, n))

    def build(self):
        import ufl
        import ufl.classes as C
        rng, G = self.rng, self.G
        add = self.out.append
        # --- algebra
        for _ in range(3):
            sh = rng.choice([(), (), (2,), (2, 3)])
            fi = self.some_fi() if sh == () else ()
            a = self.scalar(fi) if sh == () else G.expr(sh, fi, rng.randint(0, 2))
            b = self.scalar(fi) if sh == () else (G.expr(sh, fi, rng.randint(0, 2)) if rng.random() < 0.8 else C.Zero(sh))
            add(("Sum", [a, b]))
            add(("Sum", [b, a]))
        for _ in range(3):
            f1, f2 = self.some_fi(), self.some_fi()
            a, b = self.scalar(f1), self.scalar(f2)
            add(("Product", [a, b])); add(("Product", [b, a]))
        for _ in range(2):
            a = self.scalar(self.some_fi())
            b = rng.choice([self.scalar(()), G.nonzero(1), ufl.as_ufl(rng.choice([1, 2, 4, 0.5, 1.0, -2, 8]))])
            add(("Division", [a, b]))
            add(("Power", [self.scalar(()), rng.choice([ufl.as_ufl(rng.choice([0, 1, 2, 3, -1, 1.0, 2.0])), self.scalar(())])]))
        for _ in range(2):
            sh = rng.choice([(), (2,)])
            a = self.scalar(self.some_fi()) if sh == () else G.expr(sh, (), 1)
            w = rng.choice([lambda x: x, C.Abs, C.Conj, C.Real, C.Imag])
            try:
                a = w(a)
            except Exception:
                pass
            for cls in ("Abs", "Conj", "Real", "Imag"):
                add((cls, [a]))
        # --- indexing
        for _ in range(4):
            sh = rng.choice([(2,), (3,), (2, 2), (2, 3), (2, 2, 2)])
            kind = rng.random()
            if kind < 0.25:
                A = C.Zero(sh, *(lambda fi: (tuple(sorted(i.count() for i in fi)), tuple(d for _, d in sorted((i.count(), G.idxdim[i]) for i in fi))))(self.some_fi(1)))
            else:
                A = G.expr(sh, self.some_fi(rng.choice([0, 0, 1])), rng.randint(0, 3))
            idx = []
            for d in sh:
                if rng.random() < 0.5:
                    idx.append(C.FixedIndex(rng.randrange(d + (1 if rng.random() < 0.05 else 0))))
                else:
                    idx.append(G.index(dim=d if rng.random() < 0.95 else 5 - d))
            if rng.random() < 0.05:
                idx = idx[:-1]
            add(("Indexed", [A, C.MultiIndex(tuple(idx))]))
        # index a tensor-valued index sum / component tensor with the index object it binds itself
        for _ in range(2):
            i = rng.choice(G.idxpool)
            n = G.idxdim[i]
            T = G.expr((n,), (i,), rng.randint(0, 2))          # vector with free index i
            try:
                S = C.IndexSum(T, C.MultiIndex((i,)))
                add(("Indexed", [S, C.MultiIndex((i,))]))
                add(("Indexed", [S, C.MultiIndex((C.FixedIndex(0),))]))
                j2 = G.index(avoid=(i,), dim=n)
                add(("Indexed", [S, C.MultiIndex((j2,))]))
                CT = C.ComponentTensor(self.scalar((i,), depth=1), C.MultiIndex((i,)))
                add(("Indexed", [CT, C.MultiIndex((i,))]))
                add(("Indexed", [CT + CT * 2, C.MultiIndex((i,))]))
            except Exception:
                pass
        for _ in range(3):
            fi = self.some_fi(rng.choice([1, 2]))
            a = self.scalar(fi, depth=rng.randint(0, 3))
            j = rng.choice(list(fi)) if rng.random() < 0.9 else G.index()
            add(("IndexSum", [a, C.MultiIndex((j,))]))
            sh = rng.choice([(), (2,)])
            if sh:
                a2 = G.expr(sh, fi, 1)
                add(("IndexSum", [a2, C.MultiIndex((rng.choice(list(fi)),))]))
        for _ in range(3):
            fi = self.some_fi(rng.choice([1, 2, 2]))
            a = self.scalar(fi, depth=rng.randint(0, 2))
            bound = list(fi)
            rng.shuffle(bound)
            bound = bound[: rng.randint(1, len(bound))]
            if rng.random() < 0.08:
                bound.append(G.index())
            add(("ComponentTensor", [a, C.MultiIndex(tuple(bound))]))
            # as_tensor(A[i,j], (i,j)) shortcut and its near misses
            A = rng.choice([c for shp, cs in G.coeffs.items() if len(shp) == 2 for c in cs])
            i1 = G.index(dim=A.ufl_shape[0]); i2 = G.index(avoid=(i1,), dim=A.ufl_shape[1])
            body = C.Indexed(A, C.MultiIndex((i1, i2)))
            add(("ComponentTensor", [body, C.MultiIndex((i1, i2))]))
            add(("ComponentTensor", [body, C.MultiIndex((i2, i1))]))
            add(("ComponentTensor", [body, C.MultiIndex((i1,))]))
        # --- list tensors incl. the collapse rules and their near misses
        for _ in range(2):
            sh = rng.choice([(), (), (2,)])
            fi = self.some_fi(rng.choice([0, 0, 1]))
            n = rng.choice([2, 3])
            rows = [self.scalar(fi) if sh == () else G.expr(sh, fi, 1) for _ in range(n)]
            add(("ListTensor", rows))
        for _ in range(2):
            A = rng.choice([c for shp, cs in G.coeffs.items() if len(shp) >= 1 for c in cs])
            shp = A.ufl_shape
            n = shp[-1]
            pre = tuple(C.FixedIndex(rng.randrange(d)) for d in shp[:-1])
            rows = [C.Indexed(A, C.MultiIndex(pre + (C.FixedIndex(k),))) for k in range(n)]
            if rng.random() < 0.3:
                rng.shuffle(rows)
            add(("ListTensor", rows))
            if len(shp) >= 2:
                # near miss of the row shortcut [v[j,0], .., v[j,n-1]] -> v[j,:]: last indices 0..n-1 in order, LEADING indices differ
                # (the diagonal, a shifted diagonal, one deviating row)
                variants = [lambda k: tuple(C.FixedIndex((k + s_) % d) for s_, d in zip(range(len(shp) - 1), shp[:-1])),
                            lambda k: tuple(C.FixedIndex((k + 1 + s_) % d) for s_, d in zip(range(len(shp) - 1), shp[:-1])),
                            lambda k: tuple(C.FixedIndex(0 if k < n - 1 else d - 1) for d in shp[:-1])]
                lead = rng.choice(variants)
                add(("ListTensor", [C.Indexed(A, C.MultiIndex(lead(k) + (C.FixedIndex(k),))) for k in range(n)]))
                n0 = shp[0]
                free = [G.index(dim=d) for d in shp[1:]]
                if len({i.count() for i in free}) == len(free):
                    perm = list(free)
                    mode = rng.choice(["same", "same", "perm", "subset"])
                    if mode == "perm":
                        perm = perm[::-1]
                    if mode == "subset":
                        perm = perm[:-1] or perm
                    rows = []
                    for r in range(n0):
                        body = C.Indexed(A, C.MultiIndex((C.FixedIndex(r),) + tuple(free)))
                        rows.append(C.ComponentTensor(body, C.MultiIndex(tuple(perm))))
                    add(("ListTensor", rows))
        # --- conditionals
        for _ in range(2):
            sh = rng.choice([(), (), (2,)])
            fi = self.some_fi(rng.choice([0, 0, 1]))
            t = self.scalar(fi) if sh == () else G.expr(sh, fi, 1)
            f = t if rng.random() < 0.15 else (self.scalar(fi) if sh == () else G.expr(sh, fi, 1))
            c = G.condition(1)
            add(("Conditional", [c, t, f]))
            a, b = self.scalar(()), self.scalar(self.some_fi(rng.choice([0, 0, 0, 1])))
            add((rng.choice(["LT", "GT", "LE", "GE", "EQ", "NE"]), [a, b]))
            add((rng.choice(["AndCondition", "OrCondition"]), [c, rng.choice([G.condition(0), a])]))
            add((rng.choice(["MinValue", "MaxValue"]), [a, b]))
        return self.out


# ---- the operation each constructor denotes, on operand values (for the oracle)
def spec_ok(name, args, res):
    """shape / free indices of the built expression against the requested operation (None = no opinion)"""
    try:
        if name in ("Sum", "Abs", "Conj", "Real", "Imag"):
            a = args[0]
            return tuple(res.ufl_shape) == tuple(a.ufl_shape) and tuple(res.ufl_free_indices) == tuple(a.ufl_free_indices) \
                and tuple(res.ufl_index_dimensions) == tuple(a.ufl_index_dimensions)
        if name == "Product":
            want = dict(zip(args[0].ufl_free_indices, args[0].ufl_index_dimensions))
            want.update(dict(zip(args[1].ufl_free_indices, args[1].ufl_index_dimensions)))
            return res.ufl_shape == () and dict(zip(res.ufl_free_indices, res.ufl_index_dimensions)) == want
        if name == "ListTensor":
            a = args[0]
            return tuple(res.ufl_shape) == (len(args),) + tuple(a.ufl_shape) and tuple(res.ufl_free_indices) == tuple(a.ufl_free_indices)
        if name == "ComponentTensor":
            a, mi = args
            d = dict(zip(a.ufl_free_indices, a.ufl_index_dimensions))
            bound = [i.count() for i in mi]
            return tuple(res.ufl_shape) == tuple(d[c] for c in bound) and set(res.ufl_free_indices) == set(d) - set(bound)
        if name == "IndexSum":
            a, mi = args
            return tuple(res.ufl_shape) == tuple(a.ufl_shape) and set(res.ufl_free_indices) == set(a.ufl_free_indices) - {mi[0].count()}
        if name == "Indexed":
            A, mi = args
            from ufl.classes import Index
            if len(mi) != len(A.ufl_shape):     # malformed request: nothing is promised
                return None
            fr = {i.count() for i in mi if isinstance(i, Index)}
            return res.ufl_shape == () and set(res.ufl_free_indices) == set(A.ufl_free_indices) | fr
    except Exception:
        return None
    return None


import re
_RLIT = re.compile(r"\(R (-?\d+) (\d+)\)")


def canon(s):
    """float literals are compared to 12 significant digits (Python folds literals in binary floating point)"""
    return _RLIT.sub(lambda m: "(R %.12g)" % (int(m.group(1)) / int(m.group(2))), s)


class _V:
    """exact rational with a tolerant == (literal folding happens in binary floating point)"""
    __slots__ = ("q",)

    def __init__(self, q): self.q = Fraction(q)
    def _w(f):
        def g(self, o):
            o = o.q if isinstance(o, _V) else Fraction(o)
            return _V(f(self.q, o))
        return g
    __add__ = _w(lambda a, b: a + b); __radd__ = __add__
    __mul__ = _w(lambda a, b: a * b); __rmul__ = __mul__
    __truediv__ = _w(lambda a, b: a / b)
    def __pow__(self, n): return _V(self.q ** n)
    def __abs__(self): return _V(abs(self.q))
    def __eq__(self, o):
        o = o.q if isinstance(o, _V) else Fraction(o)
        return self.q == o or abs(float(self.q) - float(o)) <= 1e-9 * max(1.0, abs(float(o)), abs(float(self.q)))
    def __lt__(self, o): return self.q < (o.q if isinstance(o, _V) else o)
    def __le__(self, o): return self.q <= (o.q if isinstance(o, _V) else o)
    def __gt__(self, o): return self.q > (o.q if isinstance(o, _V) else o)
    def __ge__(self, o): return self.q >= (o.q if isinstance(o, _V) else o)
    def __ne__(self, o): return not self == o
    def __int__(self): return int(self.q)
    @property
    def denominator(self): return self.q.denominator


class ValueOracle:
    """value of the built expression vs the operation applied to the operand values, through the denotational `eval`"""

    def __init__(self, rng):
        self.rng = rng
        self.reqs = []
        self.checks = []      # (description, fn(values)->bool|None, data)

    def ask(self, e, comp, env, idx, memo):
        self.reqs.append("(eval %s %s %s (%s))" % (uflio.ser(e, memo), uflio.nats(comp), env, " ".join("(%d %d)" % kv for kv in sorted(idx.items()))))
        return len(self.reqs) - 1

    def add_case(self, name, args, res, G, env, memo):
        import ufl.classes as C
        rng = self.rng
        dims = {}
        for e in list(args) + [res]:
            if hasattr(e, "ufl_free_indices") and not isinstance(e, (C.MultiIndex,)):
                try:
                    dims.update(dict(zip(e.ufl_free_indices, e.ufl_index_dimensions)))
                except Exception:
                    pass
        for a in args:
            if isinstance(a, C.MultiIndex):
                for i in a:
                    if isinstance(i, C.Index):
                        dims.setdefault(i.count(), G.idxdim.get(i, 2))
        idx = {c: rng.randrange(d) for c, d in dims.items()}
        comps = list(itertools.product(*[range(n) for n in res.ufl_shape]))
        comp = rng.choice(comps) if comps else ()
        A = lambda e, c=comp, ix=idx: self.ask(e, c, env, ix, memo)
        r = A(res)
        desc = "%s(%s)" % (name, ", ".join(str(a)[:80] for a in args))
        data = dict(kind="value:" + name, args=[repr(a)[:400] for a in args], component=list(comp), idx=idx)
        if name == "Sum":
            a, b = A(args[0]), A(args[1]); f = lambda v: v[r] == v[a] + v[b]
        elif name == "Product":
            a, b = A(args[0], ()), A(args[1], ()); f = lambda v: v[r] == v[a] * v[b]
        elif name == "Division":
            a, b = A(args[0], ()), A(args[1], ()); f = lambda v: None if v[b] == 0 else v[r] == v[a] / v[b]
        elif name == "Power":
            a, b = A(args[0], ()), A(args[1], ())
            f = lambda v: None if (v[b].denominator != 1 or (v[a] == 0 and v[b] <= 0) or abs(v[b]) > 6) else v[r] == v[a] ** int(v[b])
        elif name == "Abs":
            a = A(args[0]); f = lambda v: v[r] == abs(v[a])
        elif name in ("Conj", "Real"):
            a = A(args[0]); f = lambda v: v[r] == v[a]
        elif name == "Imag":
            f = lambda v: v[r] == 0
        elif name == "Indexed":
            AA, mi = args
            if len(mi) != len(AA.ufl_shape):
                return
            c2 = tuple(int(i) if isinstance(i, C.FixedIndex) else idx[i.count()] for i in mi)
            if any(c2[k] >= AA.ufl_shape[k] for k in range(len(c2))):
                return
            a = A(AA, c2); f = lambda v: v[r] == v[a]
        elif name == "IndexSum":
            a0, mi = args
            j = mi[0].count()
            d = dict(zip(a0.ufl_free_indices, a0.ufl_index_dimensions)).get(j)
            if d is None:
                return
            terms = [self.ask(a0, comp, env, {**idx, j: k}, memo) for k in range(d)]
            f = lambda v: v[r] == sum((v[t] for t in terms), _V(0))
        elif name == "ComponentTensor":
            a0, mi = args
            ix2 = dict(idx)
            for i, c in zip(mi, comp):
                ix2[i.count()] = c
            a = self.ask(a0, (), env, ix2, memo); f = lambda v: v[r] == v[a]
        elif name == "ListTensor":
            if not comp:
                return
            a = A(args[comp[0]], comp[1:]); f = lambda v: v[r] == v[a]
        elif name in ("MinValue", "MaxValue"):
            a, b = A(args[0], ()), A(args[1], ())
            f = (lambda v: v[r] == min(v[a], v[b])) if name == "MinValue" else (lambda v: v[r] == max(v[a], v[b]))
        elif name == "Conditional":
            c0, t, fl = args
            cond = self.cond(c0, env, idx, memo)
            if cond is None:
                return
            a, b = A(t), A(fl); f = lambda v: v[r] == (v[a] if cond(v) else v[b])
        else:
            return
        self.checks.append((desc, f, data))

    def cond(self, c, env, idx, memo):
        import ufl.classes as C
        import operator
        ops = {"LT": operator.lt, "GT": operator.gt, "LE": operator.le, "GE": operator.ge, "EQ": operator.eq, "NE": operator.ne}
        n = type(c).__name__
        if n in ops:
            a = self.ask(c.ufl_operands[0], (), env, idx, memo); b = self.ask(c.ufl_operands[1], (), env, idx, memo)
            return lambda v: ops[n](v[a], v[b])
        if n in ("AndCondition", "OrCondition"):
            x, y = self.cond(c.ufl_operands[0], env, idx, memo), self.cond(c.ufl_operands[1], env, idx, memo)
            if x is None or y is None:
                return None
            return (lambda v: x(v) and y(v)) if n == "AndCondition" else (lambda v: x(v) or y(v))
        if n == "NotCondition":
            x = self.cond(c.ufl_operands[0], env, idx, memo)
            return None if x is None else (lambda v: not x(v))
        return None

    def run(self):
        from props.c24 import parse_reply
        vals = []
        for rep in leandrv.run_driver("Expr", self.reqs):
            k, q, fl = parse_reply(rep)
            vals.append(_V(q) if k == "ok" else None)
        class Vals(list):
            def __getitem__(self, i):
                x = list.__getitem__(self, i)
                if x is None:
                    raise LookupError("inexact value")
                return x
        vals = Vals(vals)
        bad = []
        n = 0
        for desc, f, data in self.checks:
            try:
                ok = f(vals)
            except (TypeError, AttributeError, ZeroDivisionError, LookupError):
                ok = None          # some value is not exactly representable (math function)
            if ok is None:
                continue
            n += 1
            if not ok:
                bad.append((desc, data))
        return n, bad


class OperatorOracle:
    """public operators (`T[key]`, `a * b`) against their documented meaning, through the denotational eval of the operands:
    repeated indices are summed, slices become axes, scalar*tensor is componentwise, matrix*vector/matrix contracts."""

    def __init__(self, rng):
        self.rng = rng
        self.vo = ValueOracle(rng)
        self.n = 0
        self.keep = []     # the serializer memoises by id(): every serialised object must stay alive

    def getitem_case(self, G, env, memo):
        import ufl, ufl.classes as C
        rng = self.rng
        sh = rng.choice([(2,), (3,), (2, 2), (2, 3), (3, 2), (2, 2, 2)])
        fiT = tuple(rng.sample(G.idxpool, rng.choice([0, 0, 1])))
        T = G.expr(sh, fiT, rng.randint(0, 3))
        if rng.random() < 0.4:      # a component tensor over pool indices, to be indexed with its own indices
            idx = []
            for d in sh:
                idx.append(G.index(avoid=tuple(fiT) + tuple(idx), dim=d))
            T = ufl.as_tensor(G.expr((), tuple(fiT) + tuple(idx), 1) + G.leaf((), tuple(fiT) + tuple(idx)), tuple(idx))
            if rng.random() < 0.5:
                key = tuple(reversed(idx)) if len(set(sh)) == 1 else tuple(idx)
            else:
                key = tuple(idx)
        else:
            key = []
            for d in sh:
                r = rng.random()
                key.append(rng.randrange(d) if r < 0.35 else (slice(None) if r < 0.55 else G.index(dim=d)))
            key = tuple(key)
        try:
            R = T[key]
        except Exception:
            return
        if not isinstance(R, ufl.core.expr.Expr):
            return
        self.keep.append((T, R, key))
        # expected value: free (non-repeated) indices from idx env, slices from the component, repeated indices summed
        counts = {}
        for k in key:
            if isinstance(k, C.Index):
                counts[k.count()] = counts.get(k.count(), 0) + 1
        Tfi = dict(zip(T.ufl_free_indices, T.ufl_index_dimensions))
        repeated = [c for c, n in counts.items() if n > 1 or c in Tfi]
        dims = dict(Tfi)
        for pos, k in enumerate(key):
            if isinstance(k, C.Index):
                dims[k.count()] = sh[pos]
        free = [c for c in dims if c not in repeated]
        want_fi = set(free)
        nsl = sum(1 for k in key if isinstance(k, slice))
        if set(R.ufl_free_indices) != want_fi or len(R.ufl_shape) != nsl:
            self.vo.checks.append(("T[key] free indices/shape", lambda v: False,
                                   dict(kind="shape:getitem", args=[repr(T)[:300], repr(key)], component=[], idx={})))
            return
        idx = {c: rng.randrange(dims[c]) for c in free}
        comps = list(itertools.product(*[range(n) for n in R.ufl_shape]))
        comp = rng.choice(comps) if comps else ()
        r = self.vo.ask(R, comp, env, idx, memo)
        terms = []
        for vals in itertools.product(*[range(dims[c]) for c in repeated]):
            ix = dict(idx); ix.update(dict(zip(repeated, vals)))
            sl = iter(comp)
            cT = tuple(k if isinstance(k, int) else (next(sl) if isinstance(k, slice) else ix[k.count()]) for k in key)
            terms.append(self.vo.ask(T, cT, env, ix, memo))
        self.vo.checks.append(("(%s)[%s]" % (str(T)[:80], key), (lambda r, terms: lambda v: v[r] == sum((v[t] for t in terms), _V(0)))(r, terms),
                               dict(kind="value:getitem", args=[repr(T)[:400], repr(key)], component=list(comp), idx=idx)))
        self.n += 1

    def mult_case(self, G, env, memo):
        import ufl
        rng = self.rng
        mode = rng.choice(["ss", "ss", "st", "ts", "mv", "mm"])
        if mode == "ss":
            f1 = tuple(rng.sample(G.idxpool, rng.choice([0, 1, 2])))
            f2 = tuple(rng.sample(G.idxpool, rng.choice([0, 1, 2])))
            a, b = G.expr((), f1, rng.randint(0, 2)), G.expr((), f2, rng.randint(0, 2))
        elif mode in ("st", "ts"):
            sh = rng.choice([(2,), (2, 3)])
            f1 = tuple(rng.sample(G.idxpool, rng.choice([0, 1])))
            a, b = G.expr((), f1, rng.randint(0, 2)), G.expr(sh, (), rng.randint(0, 2))
            if mode == "ts":
                a, b = b, a
        else:
            n, m, k = rng.choice([2, 3]), rng.choice([2, 3]), rng.choice([2, 3])
            a = G.expr((n, m), (), rng.randint(0, 2))
            b = G.expr((m,), (), rng.randint(0, 2)) if mode == "mv" else G.expr((m, k), (), rng.randint(0, 2))
        try:
            R = a * b
        except Exception:
            return
        self.keep.append((a, b, R))
        da = dict(zip(a.ufl_free_indices, a.ufl_index_dimensions)); db = dict(zip(b.ufl_free_indices, b.ufl_index_dimensions))
        shared = [c for c in da if c in db]
        dims = dict(da); dims.update(db)
        free = [c for c in dims if c not in shared]
        if set(R.ufl_free_indices) != set(free):
            self.vo.checks.append(("a*b free indices", lambda v: False, dict(kind="shape:mult", args=[repr(a)[:300], repr(b)[:300]], component=[], idx={})))
            return
        idx = {c: rng.randrange(dims[c]) for c in free}
        comps = list(itertools.product(*[range(n) for n in R.ufl_shape]))
        comp = rng.choice(comps) if comps else ()
        r = self.vo.ask(R, comp, env, idx, memo)
        pairs = []
        for vals in itertools.product(*[range(dims[c]) for c in shared]):
            ix = dict(idx); ix.update(dict(zip(shared, vals)))
            if mode in ("ss",):
                pairs.append((self.vo.ask(a, (), env, ix, memo), self.vo.ask(b, (), env, ix, memo)))
            elif mode == "st":
                pairs.append((self.vo.ask(a, (), env, ix, memo), self.vo.ask(b, comp, env, ix, memo)))
            elif mode == "ts":
                pairs.append((self.vo.ask(a, comp, env, ix, memo), self.vo.ask(b, (), env, ix, memo)))
            else:
                for t in range(a.ufl_shape[1]):
                    pairs.append((self.vo.ask(a, (comp[0], t), env, ix, memo), self.vo.ask(b, (t,) + tuple(comp[1:]), env, ix, memo)))
        self.vo.checks.append(("(%s) * (%s)" % (str(a)[:60], str(b)[:60]),
                               (lambda r, pairs: lambda v: v[r] == sum((v[x] * v[y] for x, y in pairs), _V(0)))(r, pairs),
                               dict(kind="value:mult", args=[repr(a)[:400], repr(b)[:400]], component=list(comp), idx=idx)))
        self.n += 1


class C05(Prop):
    pid = "C05"
    lean_modules = ["UflVerif.Props.C05", "UflVerif.Props.C05Rebuild"]
    min_theorems = 8
    trusted = ["correspondence harness/props/c05.py + Drivers/Expr.lean `(mk ...)`; generator gen.py; serializer uflio.py; typecode translator",
               "modelled rather than verified: Python float arithmetic in literal folding (exact rationals in the model; generated literals are small dyadic rationals); "
               "object identity (`is`) in the ListTensor collapse rules is modelled by structural equality"]
    assumptions = ["modelled constructors: Sum, Product, Division, Power, Abs, Conj, Real, Imag, Indexed (all _simplify_indexed hooks), IndexSum, ComponentTensor, ListTensor, "
                   "Conditional, conditions, MinValue/MaxValue; complex literals, math-function literal folding and the branch of the ListTensor rule that creates a fresh index are not modelled (reported as unsupported and skipped)"]

    def regenerate(self, ctx):
        text, n = typecodes.render()
        p = LEAN / "UflVerif/Gen/Typecodes.lean"
        return [(p.relative_to(LEAN), write_if_changed(p, text))]

    def correspondence(self, ctx, ev):
        rng = random.Random(ctx.seed * 9973 + 5)
        n = 60 if ctx.quick else 800
        reqs, meta = [], []
        memo = {}
        hist, outcomes = {}, {"ok": 0, "raises": 0}
        self.bad = []
        vo = ValueOracle(random.Random(ctx.seed + 77))
        for k in range(n):
            cs = Cases(rng, k)
            venv = gen.ValueEnv(rng, cs.G).wire()
            for name, args in cs.build():
                kind, r = call(name, args)
                if kind == "cyclic":
                    self.bad.append(("%s(%s) returns a node that is its own (transitive) operand" % (name, type(args[0]).__name__),
                                     dict(kind="cyclic:" + name, args=[type(a).__name__ for a in args])))
                    continue
                outcomes[kind] += 1
                hist[name] = hist.get(name, 0) + 1
                reqs.append("(mk %s %s)" % (name, " ".join(uflio.ser(a, memo) for a in args)))
                meta.append((name, args, kind, r))
                if kind == "ok" and hasattr(r, "ufl_shape") and not r.ufl_shape.__class__ is None:
                    try:
                        vo.add_case(name, args, r, cs.G, venv, memo)
                    except Exception as ex:  # noqa
                        pass
                if kind == "ok" and spec_ok(name, args, r) is False:
                    self.bad.append(("%s(%s) has shape %s / free indices %s, not those of the requested operation" % (
                        name, ", ".join(str(a)[:60] for a in args), r.ufl_shape, r.ufl_free_indices), dict(kind="shape:" + name, args=[repr(a)[:300] for a in args])))
        replies = leandrv.run_driver("Expr", reqs)
        fails, distinct, unsupported, simplified = [], set(), 0, 0
        for (name, args, kind, r), rq, rep in zip(meta, reqs, replies):
            if rep == "(unsupported)":
                unsupported += 1
                continue
            impl = "(raises)" if kind == "raises" else "(ok %s)" % uflio.ser(r, memo)
            if kind == "ok" and type(r).__name__ != name:
                simplified += 1
            if rq.count("(O ") >= 2:
                distinct.add(rq)
            if canon(impl) != canon(rep) and len(fails) < 10:
                fails.append(Failure("correspondence", "mk" + name, "args: %s | impl: %s | model: %s" % (
                    " ; ".join(str(a)[:100] for a in args), (str(r)[:200] if kind == "ok" else r), rep[:300]), case=rq[:3000]))
        oo = OperatorOracle(random.Random(ctx.seed + 78))
        for k in range(n * 3):
            G2 = gen.Gen(rng, gdim=rng.choice([2, 3]), math=False, compound=False, derivs=False, reuse=0.85)
            e2 = gen.ValueEnv(rng, G2).wire()
            m2 = {}
            for _ in range(2):
                oo.getitem_case(G2, e2, m2)
                oo.mult_case(G2, e2, m2)
        nop, obad = oo.vo.run()
        for desc, data in obad:
            self.bad.append(("public operator: value / free indices of %s differ from the documented meaning (component %s, indices %s)" % (desc, data["component"], data["idx"]), data))
        ev.cov["operator_oracle_checks"] = nop
        # tensor-algebra constructors (inner, outer, dot, cross) on operands that BOTH carry free indices of different extents, created in
        # either order: the node has the union of the operands' free indices, each with its own extent, and the shape of the operation
        import ufl
        ncomp = 0
        for k in range(n):
            G3 = gen.Gen(rng, gdim=3, math=False, compound=False, derivs=False, reuse=0.85)
            d1, d2 = rng.choice([(2, 3), (3, 2), (2, 3), (3, 3)])
            i_old = G3.index(dim=d1)
            i_new = G3.index(dim=d2, avoid=(i_old,))
            if i_new.count() < i_old.count():
                i_old, i_new = i_new, i_old
            ia, ib = (i_new, i_old) if k % 2 == 0 else (i_old, i_new)        # every other time the FIRST operand has the newer index
            opn = ["outer", "inner", "dot", "cross", "outer", "dot"][k % 6]
            sa, sb = {"outer": ((2,), (3,)), "inner": ((2, 3), (2, 3)), "dot": ((2, 3), (3,)), "cross": ((3,), (3,))}[opn]
            if k % 5 == 0 and opn in ("outer", "inner", "dot"):
                sa = ()                                                       # one scalar operand: the shortcut branches
                sb = () if opn == "inner" else sb
            try:
                a, b = G3.expr(sa, (ia,), 1), G3.expr(sb, (ib,), 1)
                r = getattr(ufl, opn)(a, b)
            except Exception:  # noqa
                continue
            ncomp += 1
            want = dict(zip(a.ufl_free_indices, a.ufl_index_dimensions)); want.update(dict(zip(b.ufl_free_indices, b.ufl_index_dimensions)))
            got = dict(zip(r.ufl_free_indices, r.ufl_index_dimensions))
            wshape = {"outer": tuple(sa) + tuple(sb), "inner": (), "dot": tuple(sa[:-1]) + tuple(sb[1:]) if sa and sb else tuple(sa) + tuple(sb), "cross": (3,)}[opn]
            if got != want or tuple(r.ufl_free_indices) != tuple(sorted(want)) or tuple(r.ufl_shape) != wshape:
                self.bad.append(("%s(a, b): free indices / extents %s, shape %s; the operands have %s, the operation has shape %s" % (opn, got, tuple(r.ufl_shape), want, wshape),
                                 dict(kind="compound-free-indices", op=opn, a=str(a)[:120], b=str(b)[:120], component=[], idx={})))
        ev.cov["compound_free_index_checks"] = ncomp
        # the scalar-operand shortcuts of outer / inner / dot on COMPLEX data (the conjugate sits on the documented operand)
        nsc = 0
        for k in range(max(6, n // 4)):
            G4 = gen.Gen(rng, gdim=2, math=False, compound=False, derivs=False, reuse=0.5)
            sc, sc2 = G4.coeffs[()][0], G4.coeffs[()][-1]
            vc = G4.coeffs[(2,)][0]
            cz = lambda: complex(rng.randint(-4, 4) / 2, rng.randint(1, 4) / 2)
            vals = {sc: cz(), sc2: cz(), vc: (cz(), cz())}
            x0 = (0.25, 0.5)
            cases = [("outer(s, v)", ufl.outer(sc, vc), lambda c: vals[sc].conjugate() * vals[vc][c[0]], [(0,), (1,)]),
                     ("outer(v, s)", ufl.outer(vc, sc2), lambda c: vals[vc][c[0]].conjugate() * vals[sc2], [(0,), (1,)]),
                     ("inner(s, t)", ufl.inner(sc, sc2), lambda c: vals[sc] * vals[sc2].conjugate(), [()]),
                     ("dot(s, t)", ufl.dot(sc, sc2), lambda c: vals[sc] * vals[sc2], [()]),
                     ("inner(v, v2)", ufl.inner(vc, ufl.as_vector([sc, sc2])), lambda c: vals[vc][0] * vals[sc].conjugate() + vals[vc][1] * vals[sc2].conjugate(), [()])]
            for desc, e4, want4, comps4 in cases:
                for c in comps4:
                    try:
                        got4 = complex(e4(x0, vals, c))
                    except Exception:  # noqa
                        continue
                    nsc += 1
                    if abs(got4 - want4(c)) > 1e-9 * max(1.0, abs(want4(c))):
                        self.bad.append(("%s on complex data: component %s evaluates to %s, the documented meaning gives %s" % (desc, list(c), got4, want4(c)),
                                         dict(kind="compound-scalar-shortcut-complex", op=desc, component=list(c), idx={})))
        ev.cov["compound_scalar_shortcut_complex_checks"] = nsc
        # element-wise operators on tensors of rank >= 3 with unequal extents, and constant folding of math functions of literals
        import math as _m
        nel = 0
        for k in range(6):
            G5 = gen.Gen(rng, gdim=2, math=False, compound=False, derivs=False, reuse=0.5)
            sh = rng.choice([(2, 3, 2), (3, 2, 2), (2, 3, 4), (2, 2, 3)])
            sc = G5.coeffs[()]
            def tens(off):
                def nest(s_, pre=()):
                    if not s_:
                        return sc[(sum(pre) + off) % len(sc)] * (1 + sum((i_ + 1) * (7 ** n_) for n_, i_ in enumerate(pre)))
                    return [nest(s_[1:], pre + (i_,)) for i_ in range(s_[0])]
                return ufl.as_tensor(nest(sh))
            A5, B5 = tens(0), tens(1)
            vals5 = {c_: 0.5 + 0.25 * n_ for n_, c_ in enumerate(sc)}
            x5 = (0.25, 0.5)
            for nm, op, ref in (("elem_mult", ufl.elem_mult, lambda a_, b_: a_ * b_), ("elem_div", ufl.elem_div, lambda a_, b_: a_ / b_)):
                try:
                    R5 = op(A5, B5)
                except Exception as ex:  # noqa
                    self.bad.append(("%s of two tensors of shape %s raises %s" % (nm, sh, type(ex).__name__), dict(kind="elem-op-raise", op=nm, component=[], idx={})))
                    continue
                nel += 1
                if tuple(R5.ufl_shape) != tuple(sh):
                    self.bad.append(("%s of two tensors of shape %s has shape %s" % (nm, sh, tuple(R5.ufl_shape)), dict(kind="elem-op-shape", op=nm, component=[], idx={})))
                    continue
                for c5 in itertools.product(*[range(d_) for d_ in sh]):
                    got5, want5 = float(R5(x5, vals5, c5)), ref(float(A5(x5, vals5, c5)), float(B5(x5, vals5, c5)))
                    if abs(got5 - want5) > 1e-9 * max(1.0, abs(want5)):
                        self.bad.append(("%s of two tensors of shape %s: component %s is %s, the element-wise operation gives %s" % (nm, sh, list(c5), got5, want5), dict(kind="elem-op-value", op=nm, component=list(c5), idx={})))
                        break
        for fn_, ref_, args_ in ((ufl.atan2, _m.atan2, [(1.0, 2.0), (-0.5, 3), (2, -1.5)]), (ufl.sin, _m.sin, [(0.5,), (2,)]), (ufl.cos, _m.cos, [(0.5,)]), (ufl.exp, _m.exp, [(1.5,), (-1,)]),
                                 (ufl.ln, _m.log, [(2.5,)]), (ufl.sqrt, _m.sqrt, [(2.25,), (2,)]), (ufl.tan, _m.tan, [(0.5,)]), (ufl.atan, _m.atan, [(0.5,)]), (ufl.erf, _m.erf, [(0.5,)]),
                                 (ufl.cosh, _m.cosh, [(0.5,)]), (ufl.sinh, _m.sinh, [(0.5,)]), (ufl.tanh, _m.tanh, [(0.5,)]), (ufl.acos, _m.acos, [(0.5,)]), (ufl.asin, _m.asin, [(0.5,)])):
            for a_ in args_:
                try:
                    got6 = float(fn_(*[ufl.as_ufl(v_) for v_ in a_]))
                except Exception:  # noqa
                    continue
                nel += 1
                if abs(got6 - ref_(*a_)) > 1e-12 * max(1.0, abs(ref_(*a_))):
                    self.bad.append(("%s%s of literals folds to %s, the function value is %s" % (fn_.__name__, a_, got6, ref_(*a_)), dict(kind="literal-folding:" + fn_.__name__, component=[], idx={})))
        ev.cov["elementwise_and_literal_folding_checks"] = nel
        nval, vbad = vo.run()
        for desc, data in vbad:
            self.bad.append(("value of %s differs from the operation applied to the operand values (component %s, indices %s)" % (desc, data["component"], data["idx"]), data))
        ev.cov["value_checks"] = nval
        ev.cov["evaluations"] = len(reqs)
        ev.cov["distinct_nontrivial"] = len(distinct)
        ev.cov["constructor_histogram"] = hist
        ev.cov["impl_outcomes"] = outcomes
        ev.cov["simplification_fired"] = simplified
        ev.cov["unsupported_skipped"] = unsupported
        ev.cov["traces_validated_against_impl"] = len(reqs) - unsupported
        ev.cov["rule"] = ("operand tuples per constructor from type-directed generation (zeros with free indices, literals of both kinds, shared index objects, "
                          "ListTensor collapse patterns and their permuted/subset near misses, out-of-range and wrong-rank multi-indices, non-scalar operands for scalar operators); "
                          "non-trivial = distinct request whose operands contain >= 2 operator nodes")
        ev.cov["samples"] = [dict(request=rq[:200], reply=rep[:200]) for rq, rep in list(zip(reqs, replies))[:5]]
        self.meta = meta
        return fails

    def oracle(self, ctx, ev):
        out, seen = [], set()
        for w, d in getattr(self, "bad", []):
            if d["kind"] in seen:
                continue
            seen.add(d["kind"])
            out.append(Witness(what=w, key="C05:" + d["kind"], data=d))
        return out


PROP = C05()
