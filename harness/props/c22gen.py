"""Generator of linear / bilinear forms on mixed spaces for C22 (block extraction).

A `Case` holds the mesh, the mixed space(s) (one `MixedElement` space per argument number, or one
`MixedFunctionSpace`), the arguments, and a form that is linear in the test (and trial) function by
construction: every integrand is a sum of products of one *linear leaf* per argument with coefficient
factors, wrapped in the linear operators the splitter has to push through (index notation, list tensors,
conditionals, variables, restrictions, derivatives, inner/dot/outer/transpose/sym/...)."""
from __future__ import annotations

import itertools
import random

import gen


def _elements(ufl, cell, gdim, rng):
    """pool of sub-elements (name, element)"""
    from utils import LagrangeElement, FiniteElement, SymmetricElement, MixedElement
    P1 = LagrangeElement(cell, 1)
    P2 = LagrangeElement(cell, 2)
    P1v = LagrangeElement(cell, 1, (gdim,))
    P2v = LagrangeElement(cell, 2, (gdim,))
    P1t = LagrangeElement(cell, 1, (2, 2))
    DG0 = FiniteElement("Discontinuous Lagrange", cell, 0, (), ufl.identity_pullback, ufl.L2)
    RT = FiniteElement("Raviart-Thomas", cell, 1, (gdim,), ufl.contravariant_piola, ufl.HDiv)
    pool = [("P1", P1), ("P2", P2), ("P1v", P1v), ("P2v", P2v), ("DG0", DG0), ("RT", RT), ("P1t", P1t)]
    if gdim == 2:
        sym = SymmetricElement({(0, 0): 0, (0, 1): 1, (1, 0): 1, (1, 1): 2}, [P1 for _ in range(3)])
        pool.append(("Sym", sym))
    pool.append(("Nested", MixedElement([P1, P1v])))
    return dict(pool)


class Case:
    """one generated form on a mixed space"""

    def __init__(self, rng: random.Random, k: int, kind=None, arity=None, n_sub=None, directed=None):
        import ufl
        self.rng, self.k = rng, k
        self.ufl = ufl
        self.gdim = rng.choice([2, 2, 3])
        self.G = gen.Gen(rng, gdim=self.gdim, math=False, compound=False, derivs=False, reuse=0.5, powers=False, minmax=False)
        self.mesh = self.G.mesh
        self.cell = {2: ufl.triangle, 3: ufl.tetrahedron}[self.gdim]
        self.kind = kind or rng.choice(["ME", "MFS"])
        self.arity = arity or rng.choice([1, 2, 2])
        self.replace_argument = True if self.kind == "MFS" else (rng.random() < 0.7)
        self.pool = _elements(ufl, self.cell, self.gdim, rng)
        n = n_sub or rng.choice([2, 2, 3, 3, 4])
        names = list(self.pool)
        self.directed = directed
        self.sub_names = [[rng.choice(names) for _ in range(n)]]
        # the trial space: mostly the same space, sometimes a different number of sub-spaces
        if self.arity == 2:
            r = rng.random()
            if directed == "rect" or (directed is None and r < 0.12):
                m = rng.choice([x for x in (1, 2, 3, 4) if x != n])
                self.sub_names.append([rng.choice(names) for _ in range(m)])
            elif directed is None and r < 0.2:
                self.sub_names.append([rng.choice(names) for _ in range(n)])
            else:
                self.sub_names.append(list(self.sub_names[0]))
        self._spaces()
        self.leaf_count = 0
        self.tags = set()

    # ------------------------------------------------------------------ spaces and arguments
    def _spaces(self):
        ufl = self.ufl
        from utils import MixedElement
        self.args = []          # per number: the Argument objects occurring (ME: one; MFS: one per part)
        self.parts = []         # per number: list of (expr for sub-function i, shape)
        self.raw = []           # per number: (mixed argument, [(offset, shape)]) for ME, None for MFS
        self.spaces = []
        for num, names in enumerate(self.sub_names):
            els = [self.pool[nm] for nm in names]
            if self.kind == "ME":
                W = ufl.FunctionSpace(self.mesh, MixedElement(els))
                a = ufl.Argument(W, num)
                self.spaces.append(W)
                self.args.append([a])
                subs = ufl.split(a)
                subs = subs if isinstance(subs, (tuple, list)) else (subs,)
                if len(els) == 1:
                    subs = (a,) if not isinstance(subs, tuple) else subs
                self.parts.append([(s, tuple(s.ufl_shape)) for s in subs])
                offs, off = [], 0
                for e in els:
                    sh = tuple(ufl.FunctionSpace(self.mesh, e).value_shape)
                    size = 1
                    for d in sh:
                        size *= d
                    offs.append((off, sh))
                    off += size
                self.raw.append((a, offs))
            else:
                Vs = [ufl.FunctionSpace(self.mesh, e) for e in els]
                W = ufl.MixedFunctionSpace(*Vs)
                self.spaces.append(W)
                as_ = [ufl.Argument(V, num, part=i) for i, V in enumerate(Vs)]
                self.args.append(as_)
                self.parts.append([(a, tuple(a.ufl_shape)) for a in as_])
                self.raw.append(None)

    # ------------------------------------------------------------------ coefficient expressions
    def coef(self, shape=(), depth=1):
        e = self.G.expr(tuple(shape), (), depth)
        return e

    def nonzero(self):
        c = self.coef((), 0)
        return c * c + 1

    def cond(self):
        ufl = self.ufl
        return self.rng.choice([ufl.lt, ufl.gt, ufl.le, ufl.ge])(self.coef((), 1), self.coef((), 0))

    def R(self, e, side):
        return e if side is None else e(side)

    # ------------------------------------------------------------------ linear leaves
    def leaf(self, num, side=None, want=None):
        """an expression linear in argument `num`; shape `want` if given (else any), built from ONE sub-function"""
        ufl, rng = self.ufl, self.rng
        parts = self.parts[num]
        cands = list(range(len(parts)))
        rng.shuffle(cands)
        for i in cands:
            p, sh = parts[i]
            e = self._leaf_from(p, sh, num, i, side, want)
            if e is not None:
                self.leaf_count += 1
                return e
        # fall back: build the wanted shape from scalar leaves
        if want:
            def build(s):
                if not s:
                    return self.leaf(num, side, ())
                return [build(s[1:]) for _ in range(s[0])]
            self.tags.add("list_of_leaves")
            return ufl.as_tensor(build(tuple(want)))
        return None

    def _leaf_from(self, p, sh, num, i, side, want):
        ufl, rng, g = self.ufl, self.rng, self.gdim
        opts = []
        rp = self.R(p, side)
        if want is None or tuple(want) == sh:
            opts += ["self", "self"]
        if want is None or tuple(want) == sh + (g,):
            opts += ["grad", "grad"]
            if rng.random() < 0.3:
                opts.append("nabla_grad_T")
        if sh and (want is None or tuple(want) == ()):
            opts += ["comp", "comp", "contract"]
        if want is None or tuple(want) == ():
            opts += ["dx"]
            if sh and sh[-1] == g:
                opts.append("div")
            if sh == (g,):
                opts.append("dotn")
        if len(sh) == 2 and sh[0] == sh[1] and (want is None or tuple(want) == sh):
            opts += ["sym", "T"]
        if len(sh) == 1 and (want is None or tuple(want) == (sh[0], g)):
            pass
        if self.raw[num] is not None and (want is None or tuple(want) == ()) and rng.random() < 0.35:
            opts += ["raw", "raw"]
        if not opts:
            return None
        o = rng.choice(opts)
        self.tags.add("leaf:" + o)
        if o == "self":
            return rp
        if o == "grad":
            return self.R(ufl.grad(p), side)
        if o == "nabla_grad_T":
            e = ufl.nabla_grad(p)
            if len(sh) == 1:
                return self.R(e.T, side)
            return self.R(ufl.grad(p), side)
        if o == "comp":
            idx = tuple(rng.randrange(d) for d in sh)
            return self.R(p[idx], side)
        if o == "contract":
            c = self.coef(sh, 0)
            if len(sh) == 1 and rng.random() < 0.5:
                j = ufl.Index()
                return self.R(p[j], side) * self.R(c[j], side)
            return ufl.inner(self.R(c, side), rp) if rng.random() < 0.5 else ufl.inner(rp, self.R(c, side))
        if o == "dx":
            d = rng.randrange(g)
            e = p.dx(d)
            if sh:
                e = e[tuple(rng.randrange(x) for x in sh)]
            return self.R(e, side)
        if o == "div":
            e = ufl.div(p)
            if e.ufl_shape:
                e = e[tuple(rng.randrange(x) for x in e.ufl_shape)]
            return self.R(e, side)
        if o == "dotn":
            c = self.coef((g,), 0)
            return ufl.dot(rp, self.R(c, side)) if rng.random() < 0.5 else ufl.dot(self.R(c, side), rp)
        if o == "sym":
            return self.R(rng.choice([ufl.sym, ufl.skew, ufl.dev])(p), side)
        if o == "T":
            return self.R(p.T, side)
        if o == "raw":
            a, offs = self.raw[num]
            n = a.ufl_shape[0]
            r = rng.random()
            if r < 0.6:
                return self.R(a[rng.randrange(n)], side)
            if r < 0.8:
                return self.R(ufl.grad(a)[rng.randrange(n), rng.randrange(g)], side)
            c = self.coef((n,), 0) if (n,) in self.G.coeffs else ufl.as_vector([self.coef((), 0) for _ in range(n)])
            return ufl.inner(self.R(a, side), self.R(c, side))
        return None

    # ------------------------------------------------------------------ linear scalar expressions
    def lin(self, num, depth, side=None):
        """scalar expression, linear in argument `num`"""
        ufl, rng = self.ufl, self.rng
        if depth <= 0:
            e = self.leaf(num, side, ())
            return e
        r = rng.random()
        d = depth - 1
        if r < 0.16:
            self.tags.add("lin:sum")
            a, b = self.lin(num, d, side), self.lin(num, d, side)
            return a + b if rng.random() < 0.7 else a - b
        if r < 0.32:
            self.tags.add("lin:scale")
            c = self.R(self.coef((), 1), side)
            a = self.lin(num, d, side)
            return c * a if rng.random() < 0.5 else a * c
        if r < 0.38:
            self.tags.add("lin:div")
            return self.lin(num, d, side) / self.R(self.nonzero(), side)
        if r < 0.46:
            self.tags.add("lin:conditional")
            return ufl.conditional(self.R_cond(side), self.lin(num, d, side), self.lin(num, d, side))
        if r < 0.52:
            self.tags.add("lin:variable")
            return ufl.variable(self.lin(num, d, side))
        if r < 0.62:
            self.tags.add("lin:list_index")
            n = rng.choice([2, 3])
            xs = [self.lin(num, d, side) for _ in range(n)]
            T = ufl.as_vector(xs)
            if rng.random() < 0.5:
                return T[rng.randrange(n)]
            j = ufl.Index()
            cv = self.coef((n,), 0)
            return T[j] * self.R(cv[j], side)
        if r < 0.72:
            self.tags.add("lin:tensor_contract")
            sh = rng.choice([(2,), (self.gdim,), (2, 2), (self.gdim, self.gdim)])
            T = self.lin_tensor(num, sh, d, side)
            c = self.R(self.coef(sh, 0), side)
            q = rng.random()
            if q < 0.4:
                return ufl.inner(T, c) if rng.random() < 0.5 else ufl.inner(c, T)
            if q < 0.6 and len(sh) == 1:
                return ufl.dot(T, c)
            if q < 0.8 and len(sh) == 2 and sh[0] == sh[1]:
                return ufl.tr(T) + ufl.tr(ufl.dot(T, c))
            idx = tuple(rng.randrange(x) for x in sh)
            return T[idx]
        if r < 0.78:
            self.tags.add("lin:neg")
            return -self.lin(num, d, side)
        if r < 0.83:
            self.tags.add("lin:conj")
            return ufl.conj(self.lin(num, d, side))
        if r < 0.88:
            self.tags.add("lin:ct_sum_index")
            # index a component tensor of a sum of tensors with fixed indices
            sh = (2, 2)
            T1 = self.lin_tensor(num, sh, 0, side)
            T2 = self.lin_tensor(num, sh, 0, side)
            i, j = ufl.indices(2)
            B = ufl.as_tensor((T1 + T2)[i, j] * self.R(self.coef((), 0), side), (i, j))
            return B[rng.randrange(2), rng.randrange(2)]
        return self.leaf(num, side, ())

    def R_cond(self, side):
        ufl = self.ufl
        a, b = self.R(self.coef((), 1), side), self.R(self.coef((), 0), side)
        return self.rng.choice([ufl.lt, ufl.gt, ufl.le, ufl.ge])(a, b)

    def lin_tensor(self, num, sh, depth, side=None):
        """tensor-valued expression of shape sh, linear in argument `num`"""
        ufl, rng = self.ufl, self.rng
        sh = tuple(sh)
        if not sh:
            return self.lin(num, depth, side)
        r = rng.random()
        d = depth - 1
        if depth <= 0 or r < 0.3:
            e = self.leaf(num, side, sh)
            if e is not None:
                return e
        if r < 0.5:
            self.tags.add("tensor:list")
            return ufl.as_tensor([self.lin_tensor(num, sh[1:], d, side) for _ in range(sh[0])])
        if r < 0.62:
            self.tags.add("tensor:scale")
            return self.R(self.coef((), 0), side) * self.lin_tensor(num, sh, d, side)
        if r < 0.72:
            self.tags.add("tensor:sum")
            return self.lin_tensor(num, sh, d, side) + self.lin_tensor(num, sh, d, side)
        if r < 0.8 and len(sh) == 2:
            self.tags.add("tensor:outer")
            if rng.random() < 0.5:
                return ufl.outer(self.R(self.coef((sh[0],), 0), side), self.lin_tensor(num, (sh[1],), d, side))
            return ufl.outer(self.lin_tensor(num, (sh[0],), d, side), self.R(self.coef((sh[1],), 0), side))
        if r < 0.88 and len(sh) == 2:
            self.tags.add("tensor:transpose")
            return self.lin_tensor(num, (sh[1], sh[0]), d, side).T
        if r < 0.94:
            self.tags.add("tensor:conditional")
            return ufl.conditional(self.R_cond(side), self.lin_tensor(num, sh, d, side), self.lin_tensor(num, sh, d, side))
        self.tags.add("tensor:component_tensor")
        idx = ufl.indices(len(sh))
        return ufl.as_tensor(self.lin_tensor(num, sh, d, side)[idx] * self.R(self.coef((), 0), side), idx)

    # ------------------------------------------------------------------ integrands
    def integrand(self, depth, side=None):
        ufl, rng = self.ufl, self.rng
        if self.arity == 1:
            return self.lin(0, depth, side)
        return self.bil(depth, side)

    def side2(self, side):
        """in interior facet integrals every leaf picks its own side"""
        if side is None:
            return None
        return self.rng.choice(["+", "-"])

    def bil(self, depth, side=None):
        ufl, rng = self.ufl, self.rng
        r = rng.random()
        d = depth - 1
        if depth <= 0 or r < 0.3:
            self.tags.add("bil:product")
            return self.lin(1, max(d, 0), self.side2(side)) * self.lin(0, max(d, 0), self.side2(side))
        if r < 0.5:
            self.tags.add("bil:inner")
            sh = rng.choice([(2,), (self.gdim,), (2, 2), (self.gdim, self.gdim), (2, self.gdim)])
            a, b = self.lin_tensor(1, sh, d, self.side2(side)), self.lin_tensor(0, sh, d, self.side2(side))
            q = rng.random()
            if q < 0.6:
                return ufl.inner(a, b)
            if q < 0.8 and len(sh) == 1:
                return ufl.dot(a, b)
            idx = ufl.indices(len(sh))
            return a[idx] * b[idx]
        if r < 0.62:
            self.tags.add("bil:sum")
            return self.bil(d, side) + self.bil(d, side)
        if r < 0.72:
            self.tags.add("bil:scale")
            return self.R(self.coef((), 1), self.side2(side)) * self.bil(d, side)
        if r < 0.8:
            self.tags.add("bil:conditional")
            return ufl.conditional(self.R_cond(self.side2(side)), self.bil(d, side), self.bil(d, side))
        if r < 0.86:
            self.tags.add("bil:variable")
            return ufl.variable(self.bil(d, side))
        if r < 0.93:
            self.tags.add("bil:matvec")
            n, m = rng.choice([2, self.gdim]), rng.choice([2, self.gdim])
            A = self.lin_tensor(1, (n, m), d, self.side2(side))
            w = self.R(self.coef((m,), 0), self.side2(side))
            b = self.lin_tensor(0, (n,), d, self.side2(side))
            return ufl.dot(ufl.dot(A, w), b) if rng.random() < 0.5 else ufl.inner(A * w, b)
        self.tags.add("bil:list_index")
        xs = [self.bil(d, side) for _ in range(2)]
        return ufl.as_vector(xs)[rng.randrange(2)]

    def measure(self):
        ufl, rng = self.ufl, self.rng
        r = rng.random()
        if r < 0.45:
            return ufl.dx, None
        if r < 0.55:
            return ufl.dx(rng.choice([1, 2])), None
        if r < 0.63:
            return ufl.dx(metadata={"quadrature_degree": rng.choice([1, 3])}), None
        if r < 0.75:
            return ufl.ds, None
        if r < 0.8:
            return ufl.ds(rng.choice([1, 3])), None
        if r < 0.95:
            return ufl.dS, "S"
        return ufl.dS(2), "S"

    def form(self, n_int=None, depth=None):
        rng = self.rng
        n_int = n_int or rng.choice([1, 2, 2, 3])
        F = None
        for _ in range(n_int):
            dm, s = self.measure()
            side = None if s is None else "+"
            for _try in range(6):
                try:
                    e = self.integrand(depth if depth is not None else rng.choice([0, 1, 1, 2, 2, 3]), side)
                    if e is None:
                        continue
                    I = e * dm
                    break
                except Exception:   # generator rejected by a UFL constructor check
                    self.rejected = getattr(self, "rejected", 0) + 1
                    I = None
            if I is None:
                continue
            F = I if F is None else F + I
        return F
