"""C26 Reference cell topology is internally consistent — translator tie + `decide` over the whole table."""
import itertools
import common
from common import Prop, Witness, LEAN, write_if_changed
from translate import cells


def python_oracle():
    """The property read literally on the live objects; returns a list of (what, data)."""
    import ufl.cell as C
    bad = []
    names = list(C._sub_entity_celltypes)
    def fvec(c):
        return [c.num_sub_entities(d) for d in range(c.topological_dimension + 1)]
    for n in names:
        c = C.Cell(n)
        td = c.topological_dimension
        f = fvec(c)
        if sum((-1) ** d * k for d, k in enumerate(f)) != 1:
            bad.append(("Euler relation fails for cell %s: f-vector %s" % (n, f), dict(cell=n, fvector=f)))
        for d in range(0, td + 1):
            ents = c.sub_entities(d)
            if len(ents) != c.num_sub_entities(d):
                bad.append(("cell %s: %d sub-entities of dim %d but num_sub_entities says %d" % (n, len(ents), d, c.num_sub_entities(d)), dict(cell=n, dim=d)))
            for e in ents:
                if e.topological_dimension != d:
                    bad.append(("cell %s: sub-entity %s listed at dimension %d has tdim %d" % (n, e.cellname, d, e.topological_dimension), dict(cell=n, dim=d, sub=e.cellname)))
                fe = fvec(e)
                if sum((-1) ** k * v for k, v in enumerate(fe)) != 1:
                    bad.append(("cell %s: sub-entity %s has inconsistent counts %s" % (n, e.cellname, fe), dict(cell=n, sub=e.cellname)))
        for k, (num, ents) in enumerate([(c.num_facets, c.facets), (c.num_ridges, c.ridges), (c.num_peaks, c.peaks)], 1):
            dd = td - k
            want = c.sub_entities(dd) if dd >= 0 else ()
            if tuple(e.cellname for e in ents) != tuple(e.cellname for e in want) or num != len(want):
                bad.append(("cell %s: %s are not the entities of dimension tdim-%d" % (n, ["facets", "ridges", "peaks"][k - 1], k), dict(cell=n, k=k)))
        if td >= 2 and sum(e.num_facets for e in c.facets) != 2 * c.num_ridges:
            bad.append(("cell %s: facets' facet counts %d != 2 * ridges %d" % (n, sum(e.num_facets for e in c.facets), c.num_ridges), dict(cell=n)))
    cellsl = [C.Cell(n) for n in names]
    tdim = {n: C.Cell(n).topological_dimension for n in names}
    for k in (1, 2, 3):
        for fs in itertools.product(names, repeat=k):
            if sum(tdim[f] for f in fs) <= 3:
                cellsl.append(C.TensorProductCell(*[C.Cell(f) for f in fs]))
    for p in cellsl[len(names):]:
        fv = [1]
        for f in p.sub_cells:
            g = fvec(f)
            new = [0] * (len(fv) + len(g) - 1)
            for i, a in enumerate(fv):
                for j, b in enumerate(g):
                    new[i + j] += a * b
            fv = new
        if p.topological_dimension != len(fv) - 1:
            bad.append(("product %s: tdim %d != sum of factor dims" % (p.cellname, p.topological_dimension), dict(cell=p.cellname)))
        for d in range(0, len(fv)):
            try:
                got = p.num_sub_entities(d)
            except NotImplementedError:
                continue
            if got != fv[d]:
                bad.append(("product %s: num_sub_entities(%d) = %d, product polytope has %d" % (p.cellname, d, got, fv[d]), dict(cell=p.cellname, dim=d)))
    # strict total order
    for a in cellsl:
        if a < a:
            bad.append(("cell order not irreflexive: %s < itself" % a.cellname, dict(a=repr(a))))
    for a, b in itertools.combinations(cellsl, 2):
        if (a < b) == (b < a):
            bad.append(("cell order not total/antisymmetric on %r, %r: a<b=%s b<a=%s" % (a, b, a < b, b < a), dict(a=repr(a), b=repr(b))))
    lt = {(i, j): cellsl[i] < cellsl[j] for i in range(len(cellsl)) for j in range(len(cellsl))}
    n = len(cellsl)
    for i in range(n):
        for j in range(n):
            if lt[i, j]:
                for k in range(n):
                    if lt[j, k] and not lt[i, k]:
                        bad.append(("cell order not transitive: %r < %r < %r" % (cellsl[i], cellsl[j], cellsl[k]), dict(a=repr(cellsl[i]), b=repr(cellsl[j]), c=repr(cellsl[k]))))
                        break
    return bad, len(cellsl)


class C26(Prop):
    pid = "C26"
    lean_modules = ["UflVerif.Props.C26"]
    min_theorems = 9
    trusted = ["translator harness/translate/cells.py: reads ufl.cell._sub_entity_celltypes and calls the live Cell/TensorProductCell API; Gen/Cells.lean is data only",
               "modelled rather than verified: nothing — the property's domain is the finite table, enumerated completely (tensor products restricted to <= 3 named factors)"]
    assumptions = ["tensor product cells: products of 1..3 named cells with total dimension <= 3 (66 cells); dimensions where num_sub_entities raises NotImplementedError are outside the claim",
                   "CellSequence is not a cell with topology (all its queries raise) and is outside the property"]

    def regenerate(self, ctx):
        text, self.stats = cells.render()
        p = LEAN / "UflVerif/Gen/Cells.lean"
        return [(p.relative_to(LEAN), write_if_changed(p, text))]

    def correspondence(self, ctx, ev):
        st = getattr(self, "stats", {})
        n = st.get("ordered", 0)
        ev.cov["exhaustive"] = True
        ev.cov["evaluations"] = st.get("named", 0) + st.get("products", 0) + n * n
        ev.cov["distinct_nontrivial"] = st.get("named", 0) + st.get("products", 0)
        ev.cov["rule"] = ("translator tie: every named cell (table row + every API query for dims -1..5) and every tensor product of <=3 named "
                          "factors with tdim<=3 is observed from the live objects; the full truth table of < and == over all %d cells is emitted; "
                          "each distinct cell is one non-trivial case" % n)
        ev.cov["samples"] = [{"cell": "prism", "table_row_2": ["triangle", "quadrilateral", "quadrilateral", "quadrilateral", "triangle"]},
                             {"order_head": "first cells in implementation order", "n_cells": n}]
        return []

    def oracle(self, ctx, ev):
        bad, n = python_oracle()
        ev.cov["oracle_cells"] = n
        return [Witness(what=w, key="C26:" + w, data=d) for w, d in bad]

    def search(self, ctx, fails):
        return None   # the oracle above already enumerates the whole finite domain

    def replay(self, ctx, data):
        bad, _ = python_oracle()
        for w, d in bad:
            if "C26:" + w == data.get("key"):
                return Witness(w, "C26:" + w, d)
        return Witness(bad[0][0], "C26:" + bad[0][0], bad[0][1]) if bad else None


PROP = C26()
