"""C19 DAG traversal and mapping visit every distinct node correctly.
Ties: (T) Gen/Dispatch.lean regenerated from the live algorithm classes; (C) correspondence of unique pre/post traversal,
cut-off traversal, map_expr_dag (MultiFunction and plain function) and DAGTraverser memoisation against the Lean model
(Drivers/C19.lean) on random expression DAGs with controlled sharing."""
import random
import common
from common import Prop, Witness, Failure, LEAN, write_if_changed, run_cmd
from translate import dispatch


def make_pool():
    import ufl
    from utils import LagrangeElement
    mesh = ufl.Mesh(LagrangeElement(ufl.triangle, 1, (2,)))
    V = ufl.FunctionSpace(mesh, LagrangeElement(ufl.triangle, 1))
    W = ufl.FunctionSpace(mesh, LagrangeElement(ufl.triangle, 1, (2,)))
    f, g = ufl.Coefficient(V), ufl.Coefficient(V)
    w = ufl.Coefficient(W)
    return [f, g, w[0], w[1], ufl.as_ufl(2), ufl.as_ufl(0.5), ufl.SpatialCoordinate(mesh)[0]]


def gen_expr(rng, pool0, nops):
    """random scalar expression DAG; operands are drawn from everything built so far, so the same
    sub-expression (same or equal object) recurs at different depths."""
    import ufl
    pool = list(pool0)
    for _ in range(nops):
        k = rng.random()
        a = rng.choice(pool[-6:] if rng.random() < 0.6 else pool)
        b = rng.choice(pool)
        try:
            if k < 0.25:
                e = a + b
            elif k < 0.45:
                e = a * b
            elif k < 0.55:
                e = a / (b + 3)
            elif k < 0.65:
                e = ufl.sin(a)
            elif k < 0.72:
                e = ufl.exp(a)
            elif k < 0.8:
                e = a ** 2
            elif k < 0.88:
                e = ufl.conditional(ufl.lt(a, b), a, b)
            elif k < 0.94:
                e = ufl.cos(b) - a
            else:
                # rebuild an equal but distinct object of something in the pool
                e = type(a)(*a.ufl_operands) if not a._ufl_is_terminal_ else a
        except Exception:
            continue
        if isinstance(e, ufl.core.expr.Expr) and e.ufl_shape == () and not e.ufl_free_indices:
            pool.append(e)
    return pool[-1]


class Labels:
    def __init__(self):
        self.ids = {}

    def of(self, o):
        key = type(o).__name__ if not o._ufl_is_terminal_ else "T:" + repr(o)
        if key not in self.ids:
            self.ids[key] = len(self.ids)
        return self.ids[key]

    def ser(self, o):
        return "(" + " ".join([str(self.of(o))] + [self.ser(c) for c in o.ufl_operands]) + ")"


def impl_answers(e, lab, cut_types, modes):
    """run the real code; returns dict request-name -> (request line, answer)"""
    from ufl.corealg.traversal import unique_post_traversal, unique_pre_traversal, cutoff_unique_post_traversal
    from ufl.corealg.map_dag import map_expr_dag
    from ufl.corealg.multifunction import MultiFunction
    from ufl.corealg.dag_traverser import DAGTraverser
    from ufl.core.expr import Expr
    from functools import singledispatchmethod
    tree = lab.ser(e)
    out = {}
    out["post"] = ("post " + tree, " ".join(lab.ser(x) for x in unique_post_traversal(e)))
    out["pre"] = ("pre " + tree, " ".join(lab.ser(x) for x in unique_pre_traversal(e)))
    cutoff = [False] * Expr._ufl_num_typecodes_
    for c in cut_types:
        cutoff[c._ufl_typecode_] = True
    cut_labels = sorted({lab.of(x) for x in unique_pre_traversal(e) if cutoff[x._ufl_typecode_]})
    cl = ",".join(map(str, cut_labels)) or "-"
    if cut_labels:
        out["cutpost"] = ("cutpost %s %s" % (cl, tree), " ".join(lab.ser(x) for x in cutoff_unique_post_traversal(e, cutoff)))
    ns = {"expr": lambda self, o, *ops: "<%d%s>" % (lab.of(o), "".join(" " + x for x in ops)),
          "terminal": lambda self, o, *ops: "<%d>" % lab.of(o)}
    if cut_labels:   # cut-off handlers take (self, o) only
        for c in cut_types:
            ns[c._ufl_handler_name_] = lambda self, o: "<%d>" % lab.of(o)
    MF = type("MF", (MultiFunction,), ns)
    out["map"] = ("map %s %s" % (cl, tree), map_expr_dag(MF(), e))
    out["mapfn"] = ("map - " + tree, map_expr_dag(lambda o, *ops: "<%d%s>" % (lab.of(o), "".join(" " + x for x in ops)), e))
    M = {1: {"scale": 2}, 2: {"shift": 2}, 3: {}, 4: {"scale": 2, "shift": 1}, 5: {"shift": 1, "scale": 2}}

    class T(DAGTraverser):
        @singledispatchmethod
        def process(self, o, **kw):
            raise AssertionError

        @process.register(Expr)
        def _(self, o, **kw):
            l = lab.of(o)
            rs = []
            for i, op in enumerate(o.ufl_operands):
                m = modes[(l % 4) * 2 + i % 2]
                rs.append(self(op, **(kw if m == 0 else M[min(m, 5)])))
            return "<%d|scale=%s,shift=%s%s>" % (l, kw.get("scale", "-"), kw.get("shift", "-"), "".join(" " + r for r in rs))
    out["dag"] = ("dag %s %s" % (",".join(map(str, modes)), tree), T()(e))
    return out


def py_oracle(e, lab, answers, modes):
    """the property read literally, on the implementation's own outputs"""
    bad = []
    from ufl.corealg.traversal import pre_traversal
    distinct = set(pre_traversal(e))
    from ufl.corealg.traversal import unique_post_traversal, unique_pre_traversal
    for name, fn in (("unique_post_traversal", unique_post_traversal), ("unique_pre_traversal", unique_pre_traversal)):
        seq = list(fn(e))
        if len(seq) != len(set(seq)):
            bad.append("%s yields a subexpression twice" % name)
        if set(seq) != distinct:
            bad.append("%s misses or invents subexpressions (%d vs %d distinct)" % (name, len(set(seq)), len(distinct)))
        if name == "unique_post_traversal":
            pos = {x: i for i, x in enumerate(seq)}
            for x in seq:
                if any(pos.get(c, 10**9) > pos[x] for c in x.ufl_operands):
                    bad.append("unique_post_traversal yields a user before one of its operands")
                    break
    # a visited set owned by the caller and shared by several traversals (the pattern of map_expr_dags): the second traversal yields
    # exactly the nodes the first one did not, and the set ends up holding every node
    from ufl.corealg.traversal import cutoff_unique_post_traversal
    from ufl.core.expr import Expr
    if e.ufl_operands:
        first = e.ufl_operands[-1]
        for name, fn in (("unique_post_traversal", unique_post_traversal),
                         ("cutoff_unique_post_traversal", lambda x, v: cutoff_unique_post_traversal(x, [False] * Expr._ufl_num_typecodes_, v))):
            shared = set()
            s1 = list(fn(first, shared))
            s2 = list(fn(e, shared))
            if set(s1) != set(pre_traversal(first)):
                bad.append("%s with a caller-supplied visited set misses nodes of the first expression" % name)
            if set(s2) != distinct - set(s1) or len(s2) != len(set(s2)):
                bad.append("%s with a caller-supplied visited set shared by two traversals yields nodes of the first traversal again (or misses new ones)" % name)
            if shared != distinct:
                bad.append("%s does not record the visited nodes in the caller's set" % name)
    # DAGTraverser.postorder handlers with keyword arguments: the context given at the root reaches every node
    from ufl.corealg.dag_traverser import DAGTraverser
    from ufl.core.operator import Operator
    from ufl.core.terminal import Terminal
    from functools import singledispatchmethod

    class TP(DAGTraverser):
        @singledispatchmethod
        def process(self, o, **kw):
            raise AssertionError

        @process.register(Expr)
        @DAGTraverser.postorder
        def _(self, o, *ops, **kw):
            return "<%d|%s%s>" % (lab.of(o), kw.get("scale", "-"), "".join(" " + x for x in ops))

    class TC(DAGTraverser):
        @singledispatchmethod
        def process(self, o, **kw):
            raise AssertionError

        @process.register(Operator)
        @DAGTraverser.postorder_only_children([0])
        def _(self, o, *ops, **kw):
            return "<%d|%s%s>" % (lab.of(o), kw.get("scale", "-"), "".join(" " + x for x in ops))

        @process.register(Terminal)
        def _(self, o, **kw):
            return "<%d|%s>" % (lab.of(o), kw.get("scale", "-"))

    def recp(o, sc, only0):
        ops = o.ufl_operands[:1] if only0 else o.ufl_operands
        return "<%d|%s%s>" % (lab.of(o), sc, "".join(" " + recp(c, sc, only0) for c in ops))
    for sc in (3, "-"):
        kw = {} if sc == "-" else {"scale": sc}
        if TP()(e, **kw) != recp(e, sc, False):
            bad.append("DAGTraverser.postorder: the result with keyword context %s differs from plain recursion over the tree" % (kw,))
        if e.ufl_operands and TC()(e, **kw) != recp(e, sc, True):
            bad.append("DAGTraverser.postorder_only_children: the result with keyword context %s differs from plain recursion over the tree" % (kw,))

    def rec(o):
        return "<%d%s>" % (lab.of(o), "".join(" " + rec(c) for c in o.ufl_operands))
    if answers["mapfn"][1] != rec(e):
        bad.append("map_expr_dag(function) differs from recursive application to the tree")
    M = {1: {"scale": 2}, 2: {"shift": 2}, 3: {}, 4: {"scale": 2, "shift": 1}, 5: {"shift": 1, "scale": 2}}
    def recd(o, kw):
        l = lab.of(o)
        rs = [recd(op, kw if modes[(l % 4) * 2 + i % 2] == 0 else M[min(modes[(l % 4) * 2 + i % 2], 5)]) for i, op in enumerate(o.ufl_operands)]
        return "<%d|scale=%s,shift=%s%s>" % (l, kw.get("scale", "-"), kw.get("shift", "-"), "".join(" " + r for r in rs))
    if answers["dag"][1] != recd(e, {}):
        bad.append("memoised DAGTraverser result differs from plain recursion over the tree")
    return bad


def dispatch_oracle():
    """nearest-ancestor dispatch read literally on live instances of every algorithm class"""
    from translate.dispatch import all_subclasses
    from ufl.core.expr import Expr
    from ufl.corealg.multifunction import MultiFunction
    from ufl.algorithms.transformer import Transformer
    bad = []
    for base in (MultiFunction, Transformer):
        order = [base] + all_subclasses(base)
        for A in order + order[::-1]:      # both instantiation orders: parents first, then children first
            inst = object.__new__(A)
            try:
                base.__init__(inst)
            except Exception as e:  # noqa
                bad.append(("%s cannot build its handler table: %s" % (A.__name__, type(e).__name__), dict(alg=A.__name__)))
                continue
            for c in Expr._ufl_all_classes_:
                want = None
                for k in c.mro():
                    hn = vars(k).get("_ufl_handler_name_")
                    if hn and hasattr(inst, hn):
                        want = hn
                        break
                if want is None:
                    want = "ufl_type"
                try:
                    got = inst._handlers[c._ufl_typecode_]
                except IndexError:
                    bad.append(("%s has no table entry for type %s" % (A.__name__, c.__name__), dict(alg=A.__name__, type=c.__name__)))
                    continue
                got = got[0] if isinstance(got, tuple) else got
                if got != getattr(inst, want):
                    bad.append(("%s dispatches type %s to %s, nearest ancestor handler is '%s'" % (A.__name__, c.__name__, getattr(got, "__name__", got), want),
                                dict(alg=A.__name__, type=c.__name__, nearest=want)))
                    break
    return bad


class C19(Prop):
    pid = "C19"
    lean_modules = ["UflVerif.Props.C19", "UflVerif.Props.C19Dispatch"]
    min_theorems = 9
    trusted = ["translator harness/translate/dispatch.py: reads each algorithm class's own `_handlers_cache` table / singledispatch registry and the live MROs",
               "correspondence harness/props/c19.py + Drivers/C19.lean: expressions are abstracted to labelled trees (label = operator type or terminal repr), "
               "structural equality of trees standing for ufl `==`/hash — that abstraction is part of the trusted base (C13 is the property about `==`/hash)",
               "modelled rather than verified: the iterative stack loops of traversal.py are modelled by structural recursion (post) and a fuelled worklist (pre); "
               "functools.singledispatch's C3 resolution is only checked against the regenerated table"]
    assumptions = ["handlers are deterministic functions of (node, processed operands[, keyword context])",
                   "`visited`/`vcache`/`rcache` start empty (the default); shared caches across calls are covered only by the soundness invariant CacheOK for DAGTraverser"]

    def regenerate(self, ctx):
        text, self.stats = dispatch.render()
        p = LEAN / "UflVerif/Gen/Dispatch.lean"
        return [(p.relative_to(LEAN), write_if_changed(p, text))]

    def correspondence(self, ctx, ev):
        import ufl.classes as C
        rng = random.Random(ctx.seed * 104729 + 19)
        n = 250 if ctx.quick else 3000
        pool = make_pool()
        reqs, answers, cases, self.bad = [], [], [], []
        cut_choices = [[C.Sin], [C.Division], [C.Conditional], [C.Sum, C.Exp], [C.Power, C.Indexed], []]
        shared_cases = 0
        for i in range(n):
            e = gen_expr(rng, pool, rng.randint(3, 14))
            if i == 0:   # corpus: sharing at two depths under one user, deeper occurrence first
                import ufl
                r = ufl.sin(pool[0]); e = ufl.exp(r) / r
            if i == 1:
                import ufl
                q = pool[0] * pool[1]; e = ufl.sin(q) + ufl.cos(q)
            lab = Labels()
            modes = [rng.choice([0, 0, 1, 2, 3, 4, 5]) for _ in range(8)]
            if i == 1:
                modes = [1, 2, 1, 2, 1, 2, 1, 2]
            cut = rng.choice(cut_choices)
            a = impl_answers(e, lab, cut, modes)
            for w in py_oracle(e, lab, a, modes):
                self.bad.append((w, dict(expr=repr(e), modes=modes)))
            from ufl.corealg.traversal import pre_traversal
            nodes = list(pre_traversal(e))
            if len(nodes) > len(set(nodes)) + 1:
                shared_cases += 1
            for k, (rq, ans) in a.items():
                reqs.append(rq); answers.append(ans); cases.append((k, rq))
        rc, out = run_cmd(["lake", "env", "lean", "--run", "Drivers/C19.lean"], cwd=LEAN, input="\n".join(reqs) + "\n", timeout=3000)
        model = out.splitlines()
        fails = []
        if rc != 0 or len(model) != len(reqs):
            fails.append(Failure("correspondence", "C19 driver", "exit %d, %d replies for %d requests: %s" % (rc, len(model), len(reqs), out[-300:])))
        else:
            for (k, rq), ia, ma in zip(cases, answers, model):
                if ia != ma and len(fails) < 10:
                    fails.append(Failure("correspondence", k, "request: %s | impl: %s | model: %s" % (rq[:300], ia[:300], ma[:300]), case=rq))
        ev.cov["evaluations"] = len(reqs)
        ev.cov["distinct_nontrivial"] = len({rq for k, rq in cases if k == "post" and rq.count("(") >= 6})
        ev.cov["cases_with_shared_subexpressions"] = shared_cases
        ev.cov["traces_validated_against_impl"] = len(reqs)
        st = getattr(self, "stats", {})
        ev.cov["dispatch_tables"] = st
        ev.cov["rule"] = ("random scalar expression DAGs (3..14 operator applications over 7 leaves; operands drawn from all earlier sub-expressions, "
                          "equal-but-distinct objects rebuilt) x {unique post, unique pre, cut-off post, map_expr_dag with MultiFunction (+cut-off handlers), "
                          "map_expr_dag with plain function, DAGTraverser with 8-entry keyword-context table}; non-trivial = distinct tree with >= 6 nodes; "
                          "plus the translator tie over %s algorithm classes x %s types" % (st.get("algs"), st.get("types")))
        ev.cov["samples"] = [dict(request=rq[:200], reply=a[:200]) for (k, rq), a in list(zip(cases, answers))[:6]]
        return fails

    def oracle(self, ctx, ev):
        seen, out = set(), []
        for w, d in dispatch_oracle()[:5]:
            out.append(Witness(what=w, key="C19:" + w, data=d))
        for w, d in getattr(self, "bad", []):
            if w not in seen:
                seen.add(w)
                out.append(Witness(what=w + " on " + d["expr"][:200], key="C19:" + w, data=d))
        return out

    def search(self, ctx, fails):
        return None

    def replay(self, ctx, data):
        return None


PROP = C19()
