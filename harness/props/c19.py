"""C19 DAG traversal and mapping visit every distinct node correctly.
Ties: (T) Gen/Dispatch.lean regenerated from the live algorithm classes; (C) correspondence of unique pre/post traversal,
cut-off traversal, map_expr_dag (MultiFunction and plain function) and DAGTraverser memoisation against the Lean model
(Drivers/C19.lean) on random expression DAGs with controlled sharing; (C') the same for state shared between calls: traversals with a
caller-owned visited set, sequences sharing one set, map_expr_dags calls sharing vcache/rcache, DAGTraverser under keyword arguments with
the postorder decorators (groups of expressions over one pool, Model/TraversalShared.lean, Props/C19Shared.lean)."""
import random
import common
from common import Prop, Witness, Failure, LEAN, write_if_changed, run_cmd
from translate import dispatch


def make_pool():
    import ufl
    from utils import LagrangeElement
    mesh = ufl.Mesh(LagrangeElement(ufl.triangle, 1, (2,)))
    V = ufl.FunctionSpace(mesh, LagrangeElement(ufl.triangle, 1))
    W = ufl.FunctionSpace(mesh, LagrangeElement(ufl.triangle, 1, (2,)))
    f, g = ufl.Coefficient(V), ufl.Coefficient(V)
    w = ufl.Coefficient(W)
    return [f, g, w[0], w[1], ufl.as_ufl(2), ufl.as_ufl(0.5), ufl.SpatialCoordinate(mesh)[0]]


def gen_expr(rng, pool0, nops):
    """random scalar expression DAG; operands are drawn from everything built so far, so the same
    sub-expression (same or equal object) recurs at different depths."""
    return gen_pool(rng, pool0, nops)[-1]


def gen_pool(rng, pool0, nops):
    """the growing pool of gen_expr (leaves first, then every expression built)"""
    import ufl
    pool = list(pool0)
    for _ in range(nops):
        k = rng.random()
        a = rng.choice(pool[-6:] if rng.random() < 0.6 else pool)
        b = rng.choice(pool)
        try:
            if k < 0.25:
                e = a + b
            elif k < 0.45:
                e = a * b
            elif k < 0.55:
                e = a / (b + 3)
            elif k < 0.65:
                e = ufl.sin(a)
            elif k < 0.72:
                e = ufl.exp(a)
            elif k < 0.8:
                e = a ** 2
            elif k < 0.88:
                e = ufl.conditional(ufl.lt(a, b), a, b)
            elif k < 0.94:
                e = ufl.cos(b) - a
            else:
                # rebuild an equal but distinct object of something in the pool
                e = type(a)(*a.ufl_operands) if not a._ufl_is_terminal_ else a
        except Exception:
            continue
        if isinstance(e, ufl.core.expr.Expr) and e.ufl_shape == () and not e.ufl_free_indices:
            pool.append(e)
    return pool


class Labels:
    def __init__(self):
        self.ids = {}

    def of(self, o):
        key = type(o).__name__ if not o._ufl_is_terminal_ else "T:" + repr(o)
        if key not in self.ids:
            self.ids[key] = len(self.ids)
        return self.ids[key]

    def ser(self, o):
        return "(" + " ".join([str(self.of(o))] + [self.ser(c) for c in o.ufl_operands]) + ")"


def impl_answers(e, lab, cut_types, modes):
    """run the real code; returns dict request-name -> (request line, answer)"""
    from ufl.corealg.traversal import unique_post_traversal, unique_pre_traversal, cutoff_unique_post_traversal
    from ufl.corealg.map_dag import map_expr_dag
    from ufl.corealg.multifunction import MultiFunction
    from ufl.corealg.dag_traverser import DAGTraverser
    from ufl.core.expr import Expr
    from functools import singledispatchmethod
    tree = lab.ser(e)
    out = {}
    out["post"] = ("post " + tree, " ".join(lab.ser(x) for x in unique_post_traversal(e)))
    out["pre"] = ("pre " + tree, " ".join(lab.ser(x) for x in unique_pre_traversal(e)))
    cutoff = [False] * Expr._ufl_num_typecodes_
    for c in cut_types:
        cutoff[c._ufl_typecode_] = True
    cut_labels = sorted({lab.of(x) for x in unique_pre_traversal(e) if cutoff[x._ufl_typecode_]})
    cl = ",".join(map(str, cut_labels)) or "-"
    if cut_labels:
        out["cutpost"] = ("cutpost %s %s" % (cl, tree), " ".join(lab.ser(x) for x in cutoff_unique_post_traversal(e, cutoff)))
    ns = {"expr": lambda self, o, *ops: "<%d%s>" % (lab.of(o), "".join(" " + x for x in ops)),
          "terminal": lambda self, o, *ops: "<%d>" % lab.of(o)}
    if cut_labels:   # cut-off handlers take (self, o) only
        for c in cut_types:
            ns[c._ufl_handler_name_] = lambda self, o: "<%d>" % lab.of(o)
    MF = type("MF", (MultiFunction,), ns)
    out["map"] = ("map %s %s" % (cl, tree), map_expr_dag(MF(), e))
    out["mapfn"] = ("map - " + tree, map_expr_dag(lambda o, *ops: "<%d%s>" % (lab.of(o), "".join(" " + x for x in ops)), e))
    M = {1: {"scale": 2}, 2: {"shift": 2}, 3: {}, 4: {"scale": 2, "shift": 1}, 5: {"shift": 1, "scale": 2}}

    class T(DAGTraverser):
        @singledispatchmethod
        def process(self, o, **kw):
            raise AssertionError

        @process.register(Expr)
        def _(self, o, **kw):
            l = lab.of(o)
            rs = []
            for i, op in enumerate(o.ufl_operands):
                m = modes[(l % 4) * 2 + i % 2]
                rs.append(self(op, **(kw if m == 0 else M[min(m, 5)])))
            return "<%d|scale=%s,shift=%s%s>" % (l, kw.get("scale", "-"), kw.get("shift", "-"), "".join(" " + r for r in rs))
    out["dag"] = ("dag %s %s" % (",".join(map(str, modes)), tree), T()(e))
    return out


def py_oracle(e, lab, answers, modes):
    """the property read literally, on the implementation's own outputs"""
    bad = []
    from ufl.corealg.traversal import pre_traversal
    distinct = set(pre_traversal(e))
    from ufl.corealg.traversal import unique_post_traversal, unique_pre_traversal
    for name, fn in (("unique_post_traversal", unique_post_traversal), ("unique_pre_traversal", unique_pre_traversal)):
        seq = list(fn(e))
        if len(seq) != len(set(seq)):
            bad.append("%s yields a subexpression twice" % name)
        if set(seq) != distinct:
            bad.append("%s misses or invents subexpressions (%d vs %d distinct)" % (name, len(set(seq)), len(distinct)))
        if name == "unique_post_traversal":
            pos = {x: i for i, x in enumerate(seq)}
            for x in seq:
                if any(pos.get(c, 10**9) > pos[x] for c in x.ufl_operands):
                    bad.append("unique_post_traversal yields a user before one of its operands")
                    break
    # a visited set owned by the caller and shared by several traversals (the pattern of map_expr_dags): the second traversal yields
    # exactly the nodes the first one did not, and the set ends up holding every node
    from ufl.corealg.traversal import cutoff_unique_post_traversal
    from ufl.core.expr import Expr
    if e.ufl_operands:
        first = e.ufl_operands[-1]
        for name, fn in (("unique_post_traversal", unique_post_traversal),
                         ("cutoff_unique_post_traversal", lambda x, v: cutoff_unique_post_traversal(x, [False] * Expr._ufl_num_typecodes_, v))):
            shared = set()
            s1 = list(fn(first, shared))
            s2 = list(fn(e, shared))
            if set(s1) != set(pre_traversal(first)):
                bad.append("%s with a caller-supplied visited set misses nodes of the first expression" % name)
            if set(s2) != distinct - set(s1) or len(s2) != len(set(s2)):
                bad.append("%s with a caller-supplied visited set shared by two traversals yields nodes of the first traversal again (or misses new ones)" % name)
            if shared != distinct:
                bad.append("%s does not record the visited nodes in the caller's set" % name)
    # DAGTraverser.postorder handlers with keyword arguments: the context given at the root reaches every node
    from ufl.corealg.dag_traverser import DAGTraverser
    from ufl.core.operator import Operator
    from ufl.core.terminal import Terminal
    from functools import singledispatchmethod

    class TP(DAGTraverser):
        @singledispatchmethod
        def process(self, o, **kw):
            raise AssertionError

        @process.register(Expr)
        @DAGTraverser.postorder
        def _(self, o, *ops, **kw):
            return "<%d|%s%s>" % (lab.of(o), kw.get("scale", "-"), "".join(" " + x for x in ops))

    class TC(DAGTraverser):
        @singledispatchmethod
        def process(self, o, **kw):
            raise AssertionError

        @process.register(Operator)
        @DAGTraverser.postorder_only_children([0])
        def _(self, o, *ops, **kw):
            return "<%d|%s%s>" % (lab.of(o), kw.get("scale", "-"), "".join(" " + x for x in ops))

        @process.register(Terminal)
        def _(self, o, **kw):
            return "<%d|%s>" % (lab.of(o), kw.get("scale", "-"))

    def recp(o, sc, only0):
        ops = o.ufl_operands[:1] if only0 else o.ufl_operands
        return "<%d|%s%s>" % (lab.of(o), sc, "".join(" " + recp(c, sc, only0) for c in ops))
    for sc in (3, "-"):
        kw = {} if sc == "-" else {"scale": sc}
        if TP()(e, **kw) != recp(e, sc, False):
            bad.append("DAGTraverser.postorder: the result with keyword context %s differs from plain recursion over the tree" % (kw,))
        if e.ufl_operands and TC()(e, **kw) != recp(e, sc, True):
            bad.append("DAGTraverser.postorder_only_children: the result with keyword context %s differs from plain recursion over the tree" % (kw,))

    def rec(o):
        return "<%d%s>" % (lab.of(o), "".join(" " + rec(c) for c in o.ufl_operands))
    if answers["mapfn"][1] != rec(e):
        bad.append("map_expr_dag(function) differs from recursive application to the tree")
    M = {1: {"scale": 2}, 2: {"shift": 2}, 3: {}, 4: {"scale": 2, "shift": 1}, 5: {"shift": 1, "scale": 2}}
    def recd(o, kw):
        l = lab.of(o)
        rs = [recd(op, kw if modes[(l % 4) * 2 + i % 2] == 0 else M[min(modes[(l % 4) * 2 + i % 2], 5)]) for i, op in enumerate(o.ufl_operands)]
        return "<%d|scale=%s,shift=%s%s>" % (l, kw.get("scale", "-"), kw.get("shift", "-"), "".join(" " + r for r in rs))
    if answers["dag"][1] != recd(e, {}):
        bad.append("memoised DAGTraverser result differs from plain recursion over the tree")
    return bad


# ---------------------------------------------------------------------------------------------------------------------
# state shared between calls: caller-owned visited sets, map_expr_dags with shared vcache/rcache, DAGTraverser with kwargs
# ---------------------------------------------------------------------------------------------------------------------
M_KW = {0: {}, 1: {"scale": 2}, 2: {"shift": 2}, 3: {}, 4: {"scale": 2, "shift": 1}, 5: {"shift": 1, "scale": 2}}


def split_trees(s):
    out, depth, start = [], 0, None
    for i, ch in enumerate(s):
        if ch == "(":
            if depth == 0:
                start = i
            depth += 1
        elif ch == ")":
            depth -= 1
            if depth == 0:
                out.append(s[start:i + 1])
    return out


def norm_vis(reply):
    """'<yields> # <visited list>' -> the visited part as a sorted set (the model keeps a list, the code a set)"""
    if " # " not in reply:
        return reply
    left, right = reply.split(" # ", 1)
    return left + " # " + " ".join(sorted(set(split_trees(right))))


def gen_group(rng, pool0, nops, k):
    """k roots over ONE growing pool: the expressions share sub-DAGs; a root may be repeated, may be a sub-expression
    of an earlier root, or may contain an earlier root"""
    from ufl.corealg.traversal import pre_traversal
    pool = gen_pool(rng, pool0, nops)
    built = pool[len(pool0):] or pool
    roots = []
    for _ in range(k):
        u = rng.random()
        if roots and u < 0.12:
            roots.append(rng.choice(roots))
        elif roots and u < 0.32:
            roots.append(rng.choice(list(pre_traversal(rng.choice(roots)))))
        else:
            roots.append(rng.choice(built[-5:] if rng.random() < 0.6 else built))
    if rng.random() < 0.45:
        # smaller expressions first and no repeats: then (almost always) no root is a sub-expression of an earlier one
        uniq = []
        for r in sorted(roots, key=lambda e: len(list(pre_traversal(e)))):
            if r not in uniq:
                uniq.append(r)
        if len(uniq) >= 2:
            roots = uniq
    return roots, pool


def distinct_nodes(e):
    from ufl.corealg.traversal import pre_traversal
    return set(pre_traversal(e))


def is_closed(V):
    return all(c in V for v in V for c in v.ufl_operands)


def shared_cases(rng, roots, pool, lab, cut_types, directed=None):
    """run the real code on one group of expressions; returns (cases, bad, stats) with cases = [(kind, request, impl answer)]"""
    from ufl.corealg.traversal import (unique_post_traversal, unique_pre_traversal, cutoff_unique_post_traversal, pre_traversal)
    from ufl.corealg.map_dag import map_expr_dags
    from ufl.corealg.multifunction import MultiFunction
    from ufl.corealg.dag_traverser import DAGTraverser
    from ufl.core.expr import Expr
    from ufl.core.terminal import Terminal
    from functools import singledispatchmethod
    import ufl.classes as C
    cases, bad, stats = [], [], {}
    ser = lab.ser
    for r in roots:
        ser(r)                       # assign labels in a fixed order
    cutoff = [False] * Expr._ufl_num_typecodes_
    for c in cut_types:
        cutoff[c._ufl_typecode_] = True
    allnodes = set()
    for r in roots:
        allnodes |= distinct_nodes(r)
    cut_labels = sorted({lab.of(x) for x in allnodes if cutoff[x._ufl_typecode_]})
    cl = ",".join(map(str, cut_labels)) or "-"
    is_cut = lambda x: cutoff[x._ufl_typecode_]
    nocut = [False] * Expr._ufl_num_typecodes_

    def note(k):
        stats[k] = stats.get(k, 0) + 1

    # ---- 1a. one post-order traversal with an arbitrary caller-owned set -------------------------------------------
    t = roots[-1]
    others = sorted(allnodes, key=ser)
    for variant in range(3):
        mode = rng.choice(["closed", "subset", "subset+root", "foreign"]) if directed is None else directed[variant % len(directed)]
        if mode == "closed":
            V = set(unique_post_traversal(roots[0]))
            if rng.random() < 0.5 and len(roots) > 2:
                V |= set(unique_post_traversal(roots[1]))
        else:
            V = {x for x in others if rng.random() < 0.3}
            if mode == "subset+root":
                V.add(t)
            if mode == "foreign":
                V |= {x for x in pool if rng.random() < 0.2}
        rev = variant % 2 if directed is None else variant % 2
        use_cut = rev == 1 and rng.random() < 0.7
        cutarr, cll = (cutoff, cl) if use_cut else (nocut, "-")
        cutp = is_cut if use_cut else (lambda x: False)
        vis = set(V)
        if rev:
            ys = list(cutoff_unique_post_traversal(t, cutarr, vis))
            name = "cutoff_unique_post_traversal"
        else:
            ys = list(unique_post_traversal(t, vis))
            name = "unique_post_traversal"
        Vl = sorted(V, key=ser)
        rq = "postv %s %d %s" % (cll, rev, " | ".join([ser(t)] + [ser(v) for v in Vl]))
        cases.append(("postv", rq, " ".join(ser(y) for y in ys) + " # " + " ".join(sorted({ser(v) for v in vis}))))
        note("postv:" + mode + (":root-in-set" if t in V else ""))
        # the statement of C19_post_visited read on the implementation's output
        pos = {y: i for i, y in enumerate(ys)}
        if len(ys) != len(set(ys)):
            bad.append("%s(e, visited) yields a node twice" % name)
        if not ys or ys[-1] != t:
            bad.append("%s(e, visited) does not yield the root last" % name)
        if any(y in V for y in ys[:-1]):
            bad.append("%s(e, visited) yields a node that was in the caller's visited set" % name)
        if vis != V | set(ys):
            bad.append("%s(e, visited): the caller's set is not the initial set plus the yielded nodes" % name)
        if any((c not in V) and pos.get(c, 10**9) > pos[y] for y in ys if not cutp(y) for c in y.ufl_operands):
            bad.append("%s(e, visited) yields a user before an operand that was not in the caller's set" % name)
        reach, todo = {t}, [t]
        while todo:
            n = todo.pop()
            if not cutp(n):
                for c in n.ufl_operands:
                    if c not in V and c not in reach:
                        reach.add(c); todo.append(c)
        if set(ys) != reach:
            bad.append("%s(e, visited) does not yield exactly the nodes reachable through operands outside the caller's set" % name)
        if not use_cut and is_closed(V) and set(ys) != {t} | (distinct_nodes(t) - V):
            bad.append("%s(e, visited) with an operand-closed set does not yield exactly the not yet visited subexpressions" % name)

    # ---- 1b. unique_pre_traversal with a caller-owned set ----------------------------------------------------------
    V = set(unique_pre_traversal(roots[0])) if rng.random() < 0.4 else {x for x in others if rng.random() < 0.3}
    vis = set(V)
    ys = list(unique_pre_traversal(t, vis))
    cases.append(("prev", "prev " + " | ".join([ser(t)] + [ser(v) for v in sorted(V, key=ser)]), " ".join(ser(y) for y in ys)))
    if len(ys) != len(set(ys)) or ys[0] != t or any(y in V for y in ys[1:]) or vis != V | set(ys):
        bad.append("unique_pre_traversal(e, visited): duplicate / root not first / initially visited node yielded / caller's set not updated")
    if is_closed(V) and set(ys) != {t} | (distinct_nodes(t) - V):
        bad.append("unique_pre_traversal(e, visited) with an operand-closed set does not yield exactly the not yet visited subexpressions")

    # ---- 1c. a sequence of traversals sharing one set --------------------------------------------------------------
    for rev in (0, 1):
        use_cut = rev == 1 and rng.random() < 0.5
        cutarr, cll = (cutoff, cl) if use_cut else (nocut, "-")
        shared, yss = set(), []
        already = []
        for r in roots:
            already.append(r in shared)
            yss.append(list(cutoff_unique_post_traversal(r, cutarr, shared) if rev else unique_post_traversal(r, shared)))
        rq = "seq %s %d %s" % (cll, rev, " | ".join(ser(r) for r in roots))
        cases.append(("seq", rq, " | ".join(" ".join(ser(y) for y in ys) for ys in yss) + " # " + " ".join(sorted({ser(v) for v in shared}))))
        flat = [y for ys in yss for y in ys]
        name = "cutoff_unique_post_traversal" if rev else "unique_post_traversal"
        if not use_cut:
            if set(flat) != allnodes:
                bad.append("%s over several expressions sharing one visited set misses or invents subexpressions" % name)
            if shared != allnodes:
                bad.append("%s over several expressions: the shared set does not end up holding every node" % name)
        indep = not any(roots[j] in distinct_nodes(roots[i]) for j in range(len(roots)) for i in range(j))
        if indep:
            note("seq:independent-roots")
            if len(flat) != len(set(flat)):
                bad.append("%s over several expressions sharing one visited set lists a node twice although no expression is a subexpression of an earlier one" % name)
        else:
            note("seq:root-already-visited")
        # in every case a repeated entry is the root of a traversal that started with its root already in the set
        seen = set()
        for ys, was, r in zip(yss, already, roots):
            for y in ys:
                if y in seen and not (y == r and was):
                    bad.append("%s over several expressions sharing one visited set repeats a node that is not an already visited root" % name)
                seen.add(y)

    # ---- 2. map_expr_dags over two groups sharing vcache / rcache ---------------------------------------------------
    k1 = rng.randint(1, max(1, len(roots) - 1))
    g1, g2 = roots[:k1], (roots[k1:] or roots[-1:])
    for hk in (0, 1):
        compress = rng.random() < 0.6
        lf = (lambda o: lab.of(o)) if hk == 0 else (lambda o: lab.of(o) % 2)
        use_cut = bool(cut_labels) and rng.random() < 0.6
        if use_cut:
            ns = {"expr": lambda self, o, *ops: "<%d%s>" % (lf(o), "".join(" " + x for x in ops)),
                  "terminal": lambda self, o, *ops: "<%d>" % lf(o)}
            for c in cut_types:
                ns[c._ufl_handler_name_] = lambda self, o: "<%d>" % lf(o)
            F = type("MF", (MultiFunction,), ns)()
        elif rng.random() < 0.5:
            F = type("MF", (MultiFunction,), {"expr": lambda self, o, *ops: "<%d%s>" % (lf(o), "".join(" " + x for x in ops))})()
        else:
            F = lambda o, *ops: "<%d%s>" % (lf(o), "".join(" " + x for x in ops))
        vc, rc = {}, {}
        r1 = map_expr_dags(F, g1, compress=compress, vcache=vc, rcache=rc)
        r2 = map_expr_dags(F, g2, compress=compress, vcache=vc, rcache=rc)
        rq = "maps %s %d %d %s || %s" % (cl if use_cut else "-", int(compress), hk, " | ".join(ser(r) for r in g1), " | ".join(ser(r) for r in g2))
        cases.append(("maps", rq, " | ".join(r1) + " || " + " | ".join(r2) + " # %d %d" % (len(vc), len(rc))))
        note("maps:" + ("cut" if use_cut else "nocut") + (":compress" if compress else ""))

        def rec(o):
            if use_cut and is_cut(o):
                return "<%d>" % lf(o)
            return "<%d%s>" % (lf(o), "".join(" " + rec(c) for c in o.ufl_operands))
        if list(r1) + list(r2) != [rec(e) for e in g1 + g2]:
            bad.append("map_expr_dags over several expressions with shared vcache/rcache differs from the per-expression recursion over the tree")

    # ---- 3. DAGTraverser with keyword arguments, decorators, two root calls on one traverser ------------------------
    arity = {C.Sum: 2, C.Product: 2, C.Division: 2, C.Power: 2, C.Conditional: 3, C.LT: 2, C.Sin: 1, C.Cos: 1, C.Exp: 1, C.Indexed: 2}
    table = {}
    for typ, ar in arity.items():
        u = rng.random()
        if u < 0.45:
            continue                                          # default: the @postorder rule registered for Expr
        if u < 0.75:
            table[typ] = ("C", [rng.randrange(ar) for _ in range(rng.randint(0, 3))])
        else:
            table[typ] = ("X", [(rng.randrange(ar), rng.choice([0, 0, 1, 2, 3, 4, 5])) for _ in range(rng.randint(0, 3))])

    def fmt(o, kw, ops):
        return "<%d|scale=%s,shift=%s%s>" % (lab.of(o), kw.get("scale", "-"), kw.get("shift", "-"), "".join(" " + r for r in ops))

    def make_method(kind):
        if kind[0] == "C":
            @DAGTraverser.postorder_only_children(list(kind[1]))
            def m(self, o, *ops, **kw):
                return fmt(o, kw, ops)
            return m

        def mx(self, o, **kw):
            return fmt(o, kw, [self(o.ufl_operands[i], **(kw if mm == 0 else M_KW[mm])) for i, mm in kind[1]])
        return mx

    class T(DAGTraverser):
        @singledispatchmethod
        def process(self, o, **kw):
            raise AssertionError

        @process.register(Expr)
        @DAGTraverser.postorder
        def _(self, o, *ops, **kw):
            return fmt(o, kw, ops)

        @process.register(Terminal)
        def _(self, o, **kw):
            return fmt(o, kw, ())
        for _typ, _kind in table.items():
            process.register(_typ)(make_method(_kind))

    def recd(o, kw):
        kind = table.get(type(o))
        if kind is None:
            return fmt(o, kw, [recd(c, kw) for c in o.ufl_operands])
        if kind[0] == "C":
            return fmt(o, kw, [recd(o.ufl_operands[i], kw) for i in kind[1]])
        return fmt(o, kw, [recd(o.ufl_operands[i], kw if mm == 0 else M_KW[mm]) for i, mm in kind[1]])
    spec = []
    for typ, kind in table.items():
        l = lab.ids.get(typ.__name__)
        if l is None:
            continue
        ent = [(i, 0) for i in kind[1]] if kind[0] == "C" else kind[1]
        spec.append("%d:%s" % (l, ",".join("%d.%d" % im for im in ent)))
    for rep in range(2):
        t1, t2 = (roots[0], roots[-1]) if rep == 0 else (t, t)
        m1, m2 = rng.choice([1, 2, 3, 4, 5]), rng.choice([1, 2, 3, 4, 5])
        compress = rng.random() < 0.5
        tr = T(compress=compress)
        a1 = tr(t1, **M_KW[m1])
        a2 = tr(t2, **M_KW[m2])
        rq = "dagk %d %s %d %d %s | %s" % (int(compress), ";".join(spec) or "-", m1, m2, ser(t1), ser(t2))
        cases.append(("dagk", rq, "%s | %s # %d %d" % (a1, a2, len(tr._visited_cache), len(tr._result_cache))))
        note("dagk:" + ("same-root" if t1 == t2 else "two-roots") + (":kw-differ" if M_KW[m1] != M_KW[m2] else ""))
        if a1 != recd(t1, M_KW[m1]) or a2 != recd(t2, M_KW[m2]):
            bad.append("DAGTraverser with keyword arguments (postorder / postorder_only_children / explicit rules, two root calls on one "
                       "traverser) differs from plain recursion with the same keyword arguments at every node")
    stats["dagk:rules"] = stats.get("dagk:rules", 0) + len(spec)
    return cases, bad, stats


def integrand_oracle(roots, pool):
    """map_integrand_dags = map_expr_dag per integrand (fresh caches for every integrand): compare with the recursion over the tree"""
    import ufl
    from ufl.algorithms.map_integrands import map_integrand_dags
    from ufl.corealg.multifunction import MultiFunction
    f, g = pool[0], pool[1]

    class Swap(MultiFunction):
        expr = MultiFunction.reuse_if_untouched

        def coefficient(self, o):
            return g if o == f else o

    def rec(o):
        if o._ufl_is_terminal_:
            return g if o == f else o
        ops = [rec(c) for c in o.ufl_operands]
        return o if all(a == b for a, b in zip(ops, o.ufl_operands)) else o._ufl_expr_reconstruct_(*ops)
    es = [e for e in roots if not e._ufl_is_terminal_]
    if not es:
        return []
    form = None
    mesh = ufl.domain.extract_unique_domain(f)
    for i, e in enumerate(es):
        itg = e * ufl.dx(i + 1, domain=mesh)
        form = itg if form is None else form + itg
    for compress in (True, False):
        out = map_integrand_dags(Swap(), form, compress=compress)
        a, b = form.integrals(), out.integrals()
        if len(a) != len(b):
            continue
        if any(y.integrand() != rec(x.integrand()) for x, y in zip(a, b)):
            return ["map_integrand_dags over a form with several integrals differs from the per-integrand recursion over the tree"]
    return []


def dispatch_oracle():
    """nearest-ancestor dispatch read literally on live instances of every algorithm class"""
    from translate.dispatch import all_subclasses
    from ufl.core.expr import Expr
    from ufl.corealg.multifunction import MultiFunction
    from ufl.algorithms.transformer import Transformer
    bad = []
    for base in (MultiFunction, Transformer):
        order = [base] + all_subclasses(base)
        for A in order + order[::-1]:      # both instantiation orders: parents first, then children first
            inst = object.__new__(A)
            try:
                base.__init__(inst)
            except Exception as e:  # noqa
                bad.append(("%s cannot build its handler table: %s" % (A.__name__, type(e).__name__), dict(alg=A.__name__)))
                continue
            for c in Expr._ufl_all_classes_:
                want = None
                for k in c.mro():
                    hn = vars(k).get("_ufl_handler_name_")
                    if hn and hasattr(inst, hn):
                        want = hn
                        break
                if want is None:
                    want = "ufl_type"
                try:
                    got = inst._handlers[c._ufl_typecode_]
                except IndexError:
                    bad.append(("%s has no table entry for type %s" % (A.__name__, c.__name__), dict(alg=A.__name__, type=c.__name__)))
                    continue
                got = got[0] if isinstance(got, tuple) else got
                if got != getattr(inst, want):
                    bad.append(("%s dispatches type %s to %s, nearest ancestor handler is '%s'" % (A.__name__, c.__name__, getattr(got, "__name__", got), want),
                                dict(alg=A.__name__, type=c.__name__, nearest=want)))
                    break
    return bad


class C19(Prop):
    pid = "C19"
    lean_modules = ["UflVerif.Props.C19", "UflVerif.Props.C19Shared", "UflVerif.Props.C19Dispatch"]
    min_theorems = 27
    trusted = ["translator harness/translate/dispatch.py: reads each algorithm class's own `_handlers_cache` table / singledispatch registry and the live MROs",
               "correspondence harness/props/c19.py + Drivers/C19.lean: expressions are abstracted to labelled trees (label = operator type or terminal repr), "
               "structural equality of trees standing for ufl `==`/hash — that abstraction is part of the trusted base (C13 is the property about `==`/hash)",
               "modelled rather than verified: the iterative stack loops of traversal.py are modelled by structural recursion (post) and a fuelled worklist (pre); "
               "a DAGTraverser rule is modelled by the list of self(operand i, **kw) calls it makes plus a combine function (rules that call self on "
               "nodes other than their operands are outside the model); Python dict/set semantics of visited/vcache/rcache are modelled by association lists; "
               "functools.singledispatch's C3 resolution is only checked against the regenerated table"]
    assumptions = ["handlers are deterministic functions of (node, processed operands[, keyword context])",
                   "a caller-supplied `vcache` / DAGTraverser visited cache only holds results of the same function (empty, or left by earlier calls): "
                   "hypotheses `hvc` of C19_map_dags_shared_cache and CacheOK2 of C19_dag_kwargs; `visited` and `rcache` are arbitrary",
                   "`==` on handler results is structural equality (so the object `compress` substitutes has the same value)",
                   "postorder_only_children indices are within the operand range (the code raises IndexError otherwise; the model skips them)"]

    def regenerate(self, ctx):
        text, self.stats = dispatch.render()
        p = LEAN / "UflVerif/Gen/Dispatch.lean"
        return [(p.relative_to(LEAN), write_if_changed(p, text))]

    def correspondence(self, ctx, ev):
        import ufl.classes as C
        rng = random.Random(ctx.seed * 104729 + 19)
        n = 250 if ctx.quick else 3000
        pool = make_pool()
        reqs, answers, cases, self.bad = [], [], [], []
        cut_choices = [[C.Sin], [C.Division], [C.Conditional], [C.Sum, C.Exp], [C.Power, C.Indexed], []]
        n_shared = 0
        for i in range(n):
            e = gen_expr(rng, pool, rng.randint(3, 14))
            if i == 0:   # corpus: sharing at two depths under one user, deeper occurrence first
                import ufl
                r = ufl.sin(pool[0]); e = ufl.exp(r) / r
            if i == 1:
                import ufl
                q = pool[0] * pool[1]; e = ufl.sin(q) + ufl.cos(q)
            lab = Labels()
            modes = [rng.choice([0, 0, 1, 2, 3, 4, 5]) for _ in range(8)]
            if i == 1:
                modes = [1, 2, 1, 2, 1, 2, 1, 2]
            cut = rng.choice(cut_choices)
            a = impl_answers(e, lab, cut, modes)
            for w in py_oracle(e, lab, a, modes):
                self.bad.append((w, dict(expr=repr(e), modes=modes)))
            from ufl.corealg.traversal import pre_traversal
            nodes = list(pre_traversal(e))
            if len(nodes) > len(set(nodes)) + 1:
                n_shared += 1
            for k, (rq, ans) in a.items():
                reqs.append(rq); answers.append(ans); cases.append((k, rq))
        # --- shared state: caller-owned visited sets, map_expr_dags with shared caches, DAGTraverser with kwargs ---
        import ufl
        rng2 = random.Random(ctx.seed * 104729 + 1919)
        ng = 70 if ctx.quick else 900
        sstats, cross_shared = {}, 0
        kinds = {}
        for gi in range(ng):
            roots, gpool = gen_group(rng2, pool, rng2.randint(4, 14), rng2.randint(2, 4))
            directed = None
            if gi == 0:      # the witness of C19_shared_visited_sequence_root_repeat on the real classes: sin(f) then f
                roots, directed = [ufl.sin(pool[0]), pool[0]], ["subset+root", "closed", "subset"]
            if gi == 1:      # the same expression twice; equal but distinct objects
                q = pool[0] * pool[1]
                roots, directed = [ufl.exp(q) + ufl.sin(q), ufl.exp(pool[0] * pool[1]) + ufl.sin(q)], ["closed", "subset+root", "foreign"]
            if gi == 2:      # second root contains the first twice, at two depths
                r = ufl.sin(pool[0]) * pool[1]
                roots, directed = [r, ufl.exp(r) / r, r + pool[2]], ["closed", "closed", "subset"]
            lab = Labels()
            sc, sbad, st = shared_cases(rng2, roots, gpool, lab, rng2.choice(cut_choices), directed)
            for w in sbad + integrand_oracle(roots, pool):
                self.bad.append((w, dict(expr=" ; ".join(repr(r) for r in roots), modes=[])))
            for k, v in st.items():
                sstats[k] = sstats.get(k, 0) + v
            ds = [distinct_nodes(r) for r in roots]
            if any(len(ds[i] & ds[j]) > 1 for i in range(len(ds)) for j in range(i)):
                cross_shared += 1
            for k, rq, ans in sc:
                reqs.append(rq); answers.append(ans); cases.append((k, rq))
                kinds[k] = kinds.get(k, 0) + 1
        rc, out = run_cmd(["lake", "env", "lean", "--run", "Drivers/C19.lean"], cwd=LEAN, input="\n".join(reqs) + "\n", timeout=3000)
        model = out.splitlines()
        fails = []
        if rc != 0 or len(model) != len(reqs):
            fails.append(Failure("correspondence", "C19 driver", "exit %d, %d replies for %d requests: %s" % (rc, len(model), len(reqs), out[-300:])))
        else:
            for (k, rq), ia, ma in zip(cases, answers, model):
                if k in ("postv", "seq"):
                    ma = norm_vis(ma)
                if ia != ma and len(fails) < 10:
                    fails.append(Failure("correspondence", k, "request: %s | impl: %s | model: %s" % (rq[:300], ia[:300], ma[:300]), case=rq))
        ev.cov["evaluations"] = len(reqs)
        ev.cov["distinct_nontrivial"] = len({rq for k, rq in cases if k == "post" and rq.count("(") >= 6})
        ev.cov["cases_with_shared_subexpressions"] = n_shared
        ev.cov["shared_state_groups"] = ng
        ev.cov["shared_state_groups_with_nodes_common_to_two_roots"] = cross_shared
        ev.cov["shared_state_requests"] = kinds
        ev.cov["shared_state_distribution"] = sstats
        ev.cov["traces_validated_against_impl"] = len(reqs)
        st = getattr(self, "stats", {})
        ev.cov["dispatch_tables"] = st
        ev.cov["rule"] = ("random scalar expression DAGs (3..14 operator applications over 7 leaves; operands drawn from all earlier sub-expressions, "
                          "equal-but-distinct objects rebuilt) x {unique post, unique pre, cut-off post, map_expr_dag with MultiFunction (+cut-off handlers), "
                          "map_expr_dag with plain function, DAGTraverser with 8-entry keyword-context table}; non-trivial = distinct tree with >= 6 nodes; "
                          "plus groups of 2..4 roots over one pool (repeated roots, roots that are sub-expressions of earlier roots, roots containing earlier "
                          "roots) x {post-order / cut-off post-order / pre-order with a caller-owned visited set that is operand-closed, an arbitrary subset, "
                          "contains the root, or contains foreign nodes; sequences sharing one set; two map_expr_dags calls sharing vcache and rcache "
                          "(function / MultiFunction / cut-off handlers, compress on/off, injective and non-injective handler); one DAGTraverser called on two "
                          "roots under two keyword contexts with @postorder, @postorder_only_children(random indices) and explicit kwargs-changing rules}; "
                          "plus the translator tie over %s algorithm classes x %s types" % (st.get("algs"), st.get("types")))
        ev.cov["samples"] = [dict(request=rq[:200], reply=a[:200]) for (k, rq), a in list(zip(cases, answers))[:6]]
        return fails

    def oracle(self, ctx, ev):
        seen, out = set(), []
        for w, d in dispatch_oracle()[:5]:
            out.append(Witness(what=w, key="C19:" + w, data=d))
        for w, d in getattr(self, "bad", []):
            if w not in seen:
                seen.add(w)
                out.append(Witness(what=w + " on " + d["expr"][:200], key="C19:" + w, data=d))
        return out

    def search(self, ctx, fails):
        return None

    def replay(self, ctx, data):
        return None


PROP = C19()
