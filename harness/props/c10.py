"""C10 Index rewriting passes are value-preserving and hygienic.
Tie (correspondence): the Lean models `renumber`, `rct`, `expand` (Model/IndexPasses.lean, Drivers/C10.lean) are compared
tree-for-tree (exact index numbers for renumber_indices) with renumber_indices / remove_component_tensors / expand_indices on
generated index-notation expressions with a high index re-use rate, variables, zeros with free indices, nested component
tensors, plus directed shadowing / capture / variable-revisit cases.
Oracle: value, shape and free indices of the implementation's output against its input through the denotational `eval`
(exact rationals), for closed and open expressions."""
import itertools, random
from fractions import Fraction
import common
from common import Prop, Witness, Failure
import uflio, gen, leandrv
from props.c05 import canon, _V
from props.c24 import parse_reply

leandrv.EXES["C10"] = "c10drv"


def comps(shape):
    return list(itertools.product(*[range(n) for n in shape]))


class C10(Prop):
    pid = "C10"
    lean_modules = ["UflVerif.Props.C10", "UflVerif.Props.C10Rename", "UflVerif.Props.C10Subst", "UflVerif.Props.C10Expand"]
    min_theorems = 28
    trusted = ["correspondence harness/props/c10.py + Drivers/C10.lean; value oracle through Drivers/Expr.lean `eval`",
               "modelled rather than verified: map_expr_dag memoisation (results are functions of structure, C19), object identity in reuse_if_untouched modelled by structural equality, "
               "IndexExpander.form_argument's symmetry mapping (elements with symmetry are not generated), float literal folding exact"]
    assumptions = ["expand_indices: closed scalar expressions (what the function accepts); remove_component_tensors / renumber_indices: any well-formed expression"]

    # ---------------- generation
    def directed(self, rng, G, kind):
        import ufl
        C = G.coeffs
        f, g, h = rng.choice(C[(2,)]), rng.choice(C[(2,)]), rng.choice(C[(2,)])
        A = rng.choice(C[(2, 2)])
        i, j = G.idxpool[0], G.idxpool[2]          # both of extent 2
        if kind == "var_revisit":        # one tensor-valued variable read at two components
            v = ufl.variable(rng.choice([g, 2 * g + f, A * g]))
            return v[0] + 2 * v[1] * v[rng.randrange(2)]
        if kind == "var_revisit_idx":    # ... and under an index sum
            v = ufl.variable(A)
            return v[i, j] * v[j, i] + v[0, 1]
        if kind == "capture":            # the replacement index is bound inside the tensor body
            S = A[i, j] * g[j]
            return ufl.as_vector(S, i)[j] * f[j]
        if kind == "capture_open":
            S = A[i, j] * g[j]
            return ufl.as_vector(S, i)[j]
        if kind == "shadow_fixed":       # the tensor's own index object is bound again inside and read at a fixed component
            s = f[i] * h[i]
            return ufl.as_vector(s * g[i], i)[rng.randrange(2)]
        if kind == "shadow_free":
            s = f[i] * h[i]
            return ufl.as_vector(s * g[i], i)[j] * g[j]
        if kind == "zero_fi":            # zeros carrying free indices in both branches of a conditional
            Z = 0 * A[i, j]
            e = ufl.conditional(ufl.lt(f[0], g[1]), Z, A[j, i])
            return ufl.as_tensor(e, (j, i))[rng.randrange(2), rng.randrange(2)] + ufl.as_tensor(e, (i, j))[0, 1]
        if kind == "ct_twice":           # one component tensor read through several different index tuples
            k, l = G.idxpool[1], G.idxpool[3]
            T = ufl.as_tensor(A[i, j] * g[j] + f[i], (i,)) if rng.random() < 0.5 else ufl.as_tensor(2 * A[i, j] + A[j, i] * g[i], (i, j))
            if len(T.ufl_shape) == 1:
                return T[0] - 3 * T[1] + T[i] * f[i]
            return T[0, 1] - 3 * T[1, 0] + T[i, j] * A[i, j] - 2 * T[j, i] * A[i, j]
        if kind == "zero_fi2":           # a zero with two free indices of different extent, bound in both orders
            M = rng.choice(C[(2, 3)])
            a, b = G.idxpool[0], G.idxpool[1]          # extents 2 and 3
            Z = 0 * M[a, b]
            e = ufl.conditional(ufl.lt(f[0], g[1]), Z, 3 * M[a, b])
            t1 = ufl.as_tensor(e, (b, a))
            t2 = ufl.as_tensor(e, (a, b))
            return t1[2, 1] + t2[1, 2] + ufl.as_tensor(ufl.conditional(ufl.gt(f[1], 0), M[a, b], Z), (b, a))[rng.randrange(3), rng.randrange(2)]
        if kind == "zero_fi2_open":
            M = rng.choice(C[(3, 2)])
            a, b = G.idxpool[1], G.idxpool[0]          # extents 3 and 2; a is met first although its count is larger
            Z = 0 * M[a, b]
            return ufl.conditional(ufl.lt(f[0], g[1]), Z, 3 * M[a, b])
        if kind == "two_binders":        # two component tensors binding DIFFERENT indices over a shared body, read through the SAME index tuple
            body = (2 * A[i, j] + f[i] * g[j])
            rows, cols = ufl.as_tensor(body, (i,)), ufl.as_tensor(body, (j,))      # free j resp. free i
            l = G.idxpool[2] if G.idxdim[G.idxpool[2]] == 2 else G.idxpool[0]
            if rng.random() < 0.5:
                return rows[0] * g[j] + cols[0] * f[i]
            T1, T2 = ufl.as_tensor(body * h[j], (i,)), ufl.as_tensor(body * h[i], (j,))
            return T1[0] + 3 * T2[0] if rng.random() < 0.5 else ufl.as_tensor(T1[1], (j,))[0] - ufl.as_tensor(T2[1], (i,))[1]
        if kind == "capture_ct_dot":     # a nested component tensor that SURVIVES (branch of a tensor-valued conditional) binds the index the outer one is read with
            inner_t = ufl.as_vector(f[j] * h[i], j)
            e = ufl.conditional(ufl.lt(f[0], g[1]), inner_t, h[i] * g)
            body = e[0] + 2 * e[1]
            if rng.random() < 0.5:
                return ufl.as_vector(body, i)[j] * g[j]
            return ufl.as_vector(body, i)[j]
        if kind == "nested_ct":
            T = ufl.as_tensor(ufl.as_tensor(A[i, j] * 2, (j, i))[i, j] + A[i, j], (i, j))
            return T[j, i] * A[i, j]
        return G.expr((), (), 2)

    KINDS = ["var_revisit", "var_revisit_idx", "capture", "capture_open", "shadow_fixed", "shadow_free", "zero_fi", "nested_ct", "ct_twice", "zero_fi2", "zero_fi2_open", "two_binders", "capture_ct_dot"]

    def gen_case(self, rng, k):
        G = gen.Gen(rng, gdim=2, math=(k % 3 == 0), compound=False, derivs=False, reuse=0.9, tensor_cond=(k % 5 == 0))
        if k % 4 == 0:
            kind = self.KINDS[(k // 4) % len(self.KINDS)]
            try:
                return G, self.directed(rng, G, kind), kind
            except Exception:
                self.directed_failed = getattr(self, "directed_failed", 0) + 1
        fi = () if k % 3 else (G.index(),)
        sh = rng.choice([(), (), (2,), (2, 2)])
        return G, G.expr(sh, fi, rng.randint(1, 4)), "random"

    def passes(self):
        from ufl.algorithms import expand_indices
        from ufl.algorithms.renumbering import renumber_indices
        from ufl.algorithms.remove_component_tensors import remove_component_tensors
        return {"renumber": renumber_indices, "rct": remove_component_tensors, "expand": expand_indices}

    def close(self, G, e):
        """bind the free indices (in a fixed order) so that the result is a closed tensor"""
        import ufl
        if not e.ufl_free_indices:
            return e
        idx = [i for i in G.idxdim if i.count() in e.ufl_free_indices]
        idx.sort(key=lambda i: i.count(), reverse=(len(str(e)) % 2 == 0))      # either binder order
        if e.ufl_shape:
            extra = tuple(ufl.Index() for _ in e.ufl_shape)
            return ufl.as_tensor(e[extra], tuple(idx) + extra)
        return ufl.as_tensor(e, tuple(idx))

    def correspondence(self, ctx, ev):
        rng = random.Random(ctx.seed * 3001 + 10)
        n = 240 if ctx.quick else 4000
        P = self.passes()
        reqs, meta, memo = [], [], {}
        self.keep, self.bad = [], []
        evreqs, evmeta = [], []
        hist = {}
        for k in range(n):
            G, e, kind = self.gen_case(rng, k)
            self.keep.append((G, e))
            hist[kind] = hist.get(kind, 0) + 1
            for name, fn in P.items():
                x = e
                if name == "expand":
                    if e.ufl_shape or e.ufl_free_indices:
                        continue
                try:
                    r = fn(x)
                    impl = "(ok %s)" % uflio.ser(r, memo)
                except Exception as ex:  # noqa
                    r, impl = None, "(raises %s)" % type(ex).__name__
                self.keep.append(r)
                reqs.append("(%s %s)" % (name, uflio.ser(x, memo)))
                meta.append((k, name, kind, x, r, impl))
                if r is None:
                    self.bad.append(("%s raises %s on a well-formed expression" % (name, impl[8:-1]), dict(kind="raise:" + name, case=kind, expr=str(x)[:300], seed=ctx.seed, k=k)))
                    continue
                # ---- oracle: shape / free indices / value
                if name != "expand":
                    if tuple(r.ufl_shape) != tuple(x.ufl_shape):
                        self.bad.append(("%s changed the shape %s -> %s" % (name, x.ufl_shape, r.ufl_shape), dict(kind="shape:" + name, case=kind, expr=str(x)[:300], seed=ctx.seed, k=k)))
                        continue
                    same_fi = (sorted(r.ufl_index_dimensions) == sorted(x.ufl_index_dimensions)) if name == "renumber" else \
                        (dict(zip(r.ufl_free_indices, r.ufl_index_dimensions)) == dict(zip(x.ufl_free_indices, x.ufl_index_dimensions)))
                    if not same_fi:
                        self.bad.append(("%s changed the free indices %s -> %s" % (name, dict(zip(x.ufl_free_indices, x.ufl_index_dimensions)), dict(zip(r.ufl_free_indices, r.ufl_index_dimensions))),
                                         dict(kind="fi:" + name, case=kind, expr=str(x)[:300], seed=ctx.seed, k=k)))
                        continue
                venv = gen.ValueEnv(rng, G)
                w = venv.wire()
                if name == "renumber" and x.ufl_free_indices:
                    try:
                        xc = self.close(G, x)
                        rc = P["renumber"](xc)
                    except Exception:
                        continue
                    self.keep += [xc, rc]
                    comp = rng.choice(comps(xc.ufl_shape))
                    evmeta.append((k, name, kind, x, len(evreqs), comp))
                    evreqs.append("(eval %s %s %s ())" % (uflio.ser(xc, memo), uflio.nats(comp), w))
                    evreqs.append("(eval %s %s %s ())" % (uflio.ser(rc, memo), uflio.nats(comp), w))
                    continue
                ienv = "(" + " ".join("(%d %d)" % (c, rng.randrange(d)) for c, d in zip(x.ufl_free_indices, x.ufl_index_dimensions)) + ")"
                comp = rng.choice(comps(x.ufl_shape))
                evmeta.append((k, name, kind, x, len(evreqs), comp))
                evreqs.append("(eval %s %s %s %s)" % (uflio.ser(x, memo), uflio.nats(comp), w, ienv))
                evreqs.append("(eval %s %s %s %s)" % (uflio.ser(r, memo), uflio.nats(comp if name != "expand" else ()), w, ienv))
        replies = leandrv.run_driver("C10", reqs)
        # the plain-tree pass the value theorem C10_rct_plain_value is about: how often is it literally the implementation's output?
        plain_reqs = [rq.replace("(rct ", "(rctPlain ", 1) for rq in reqs if rq.startswith("(rct ")]
        plain_rep = leandrv.run_driver("C10", plain_reqs)
        rct_rep = [rep for rq, rep in zip(reqs, replies) if rq.startswith("(rct ")]
        ev.cov["rct_plain_tree_equals_rebuilt_tree"] = sum(1 for a, b in zip(plain_rep, rct_rep) if canon(a) == canon(b))
        ev.cov["rct_cases"] = len(plain_reqs)
        fails, unsupported, distinct, changed = [], 0, set(), 0
        for (k, name, kind, x, r, impl), rq, rep in zip(meta, reqs, replies):
            if rep == "(unsupported)":
                unsupported += 1
                continue
            a = "(raises)" if impl.startswith("(raises") else impl
            if r is not None and not (r == x):
                changed += 1
                if rq.count("(O ") >= 3:
                    distinct.add(rq)
            if canon(a) != canon(rep) and len(fails) < 10:
                fails.append(Failure("correspondence", name, "case %d [%s]: %s | impl: %s | model: %s" % (k, kind, str(x)[:200], (str(r)[:250] if r is not None else impl), rep[:300]), case=rq[:3000]))
        vals = [parse_reply(v) for v in leandrv.run_driver("Expr", evreqs)]
        nval = 0
        for (k, name, kind, x, i0, comp) in evmeta:
            a, b = vals[i0], vals[i0 + 1]
            if a[0] not in ("ok", "okf") or b[0] not in ("ok", "okf"):
                continue
            nval += 1
            same = (_V(a[1]) == _V(b[1])) if (a[0] == "ok" and b[0] == "ok") else (abs(a[2] - b[2]) <= 1e-9 * max(1.0, abs(a[2]), abs(b[2])) or (a[2] != a[2] and b[2] != b[2]))
            if not same:
                self.bad.append(("%s changed the value of component %s from %s to %s" % (name, list(comp), a[1] if a[0] == "ok" else a[2], b[1] if b[0] == "ok" else b[2]),
                                 dict(kind="value:" + name, case=kind, expr=str(x)[:300], seed=ctx.seed, k=k)))
        ev.cov["evaluations"] = len(reqs)
        ev.cov["distinct_nontrivial"] = len(distinct)
        ev.cov["pass_changed_the_expression"] = changed
        ev.cov["value_checks"] = nval
        ev.cov["unsupported_skipped"] = unsupported
        ev.cov["traces_validated_against_impl"] = len(reqs) - unsupported
        ev.cov["case_kinds"] = hist
        ev.cov["directed_constructions_failed"] = getattr(self, "directed_failed", 0)
        ev.cov["rule"] = ("generated index-notation expressions (index re-use rate 0.9 from a pool of 4 Index objects, variables, conditionals with zero branches, nested component tensors) and 11 directed "
                          "kinds (variable read at several components, capture, shadowing, zeros with free indices); each through renumber_indices, remove_component_tensors and (closed scalars) expand_indices; "
                          "non-trivial = distinct request with >= 3 operator nodes whose output differs from its input")
        ev.cov["samples"] = [dict(pass_=m[1], kind=m[2], expr=str(m[3])[:120], result=str(m[4])[:120]) for m in meta[:4]]
        return fails

    def oracle(self, ctx, ev):
        out, seen = [], set()
        for w, d in getattr(self, "bad", []):
            key = "C10:%s:%s" % (d["kind"], d["case"])
            if key in seen:
                continue
            seen.add(key)
            out.append(Witness(what=w + " :: " + d["expr"][:160], key=key, data=d))
        return out[:6]

    def replay(self, ctx, data):
        d = data.get("data", {})
        c2 = common.Ctx(pid="C10", tier="quick", seed=int(d.get("seed", 0)))
        ev = common.Evidence(c2)
        self.correspondence(c2, ev)
        for w in self.oracle(c2, ev):
            if w.key == data.get("key"):
                return w
        return None


PROP = C10()
