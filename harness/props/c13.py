"""C13 Structural equality, hashing, repr and pickling are consistent.
Tie: (T) translator — for every class and every constructor field two live objects differing in exactly that field (and one
equal copy) are observed: which of ==, hash, repr, signature data, shape see the difference -> Gen/EqFields.lean, checked by
`decide`; (C) oracle on generated expression pairs: == ⇒ hash/repr equal, comparisons do not change repr/hash/str, pickle and
eval(repr(.)) round trips; the generic lifting from terminals to expressions is proved in Props/C13.lean."""
import pickle, random, itertools, copy
import common
from common import Prop, Witness, Failure, LEAN, write_if_changed
from translate import leanfmt as L
import gen
import leandrv
import c13lib

leandrv.EXES["C13"] = "c13drv"


def namespace():
    import ufl, ufl.classes, utils, ufl.pullback, ufl.sobolevspace, ufl.cell
    ns = {}
    ns.update(vars(ufl)); ns.update(vars(ufl.classes)); ns.update(vars(ufl.pullback)); ns.update(vars(ufl.sobolevspace))
    ns["utils"] = utils
    ns["inf"] = float("inf")
    return ns


def kinds():
    """kind -> (make(fields) -> object, base fields, {field: alternative value})"""
    import ufl, ufl.classes as C
    from utils import FiniteElement
    def LagrangeElement(cell, degree, shape=()):      # the base class itself, so that eval(repr(.)) gives the same type
        return FiniteElement("Lagrange", cell, degree, shape, ufl.identity_pullback, ufl.H1)
    def mesh(deg=1, uid=1000, cell="triangle", gdim=2):
        cl = getattr(ufl, cell)
        return ufl.Mesh(LagrangeElement(cl, deg, (gdim,)), ufl_id=uid)
    def space(deg=1, shape=(), uid=1000):
        return ufl.FunctionSpace(mesh(uid=uid), LagrangeElement(ufl.triangle, deg, shape))
    f = ufl.Coefficient(space(), count=900)
    g = ufl.Coefficient(space(), count=901)
    K = {}
    K["Coefficient"] = (lambda d: ufl.Coefficient(space(d["degree"], d["shape"], d["mesh"]), count=d["count"]),
                        dict(degree=1, shape=(), mesh=1000, count=7), dict(degree=2, shape=(2,), mesh=1001, count=8))
    K["Argument"] = (lambda d: ufl.Argument(space(d["degree"], d["shape"], d["mesh"]), d["number"], d["part"]),
                     dict(degree=1, shape=(), mesh=1000, number=0, part=None), dict(degree=2, shape=(2,), mesh=1001, number=1, part=0))
    K["Constant"] = (lambda d: ufl.Constant(mesh(uid=d["mesh"]), d["shape"], count=d["count"]),
                     dict(mesh=1000, shape=(), count=5), dict(mesh=1001, shape=(2,), count=6))
    for name in ["SpatialCoordinate", "FacetNormal", "CellVolume", "Jacobian", "JacobianInverse", "JacobianDeterminant", "Circumradius", "FacetArea", "CellDiameter", "QuadratureWeight"]:
        K[name] = ((lambda nm: lambda d: getattr(C, nm)(mesh(d["degree"], d["mesh"])))(name), dict(degree=1, mesh=1000), dict(degree=2, mesh=1001))
    K["IntValue"] = (lambda d: C.IntValue(d["value"]), dict(value=3), dict(value=4))
    K["FloatValue"] = (lambda d: C.FloatValue(d["value"]), dict(value=0.5), dict(value=0.25))
    K["ComplexValue"] = (lambda d: C.ComplexValue(complex(d["re"], d["im"])), dict(re=1.0, im=2.0), dict(re=1.5, im=3.0))
    K["Zero"] = (lambda d: C.Zero(d["shape"], d["fi"], d["fid"]), dict(shape=(2,), fi=(3,), fid=(2,)), dict(shape=(3,), fi=(4,), fid=(3,)))
    K["Identity"] = (lambda d: C.Identity(d["dim"]), dict(dim=2), dict(dim=3))
    K["PermutationSymbol"] = (lambda d: C.PermutationSymbol(d["dim"]), dict(dim=2), dict(dim=3))
    K["MultiIndex"] = (lambda d: C.MultiIndex((C.FixedIndex(d["fixed"]), C.Index(d["index"]))), dict(fixed=0, index=5), dict(fixed=1, index=6))
    K["Label"] = (lambda d: C.Label(d["count"]), dict(count=3), dict(count=4))
    K["Variable"] = (lambda d: C.Variable(f if d["expr"] == 0 else g, C.Label(d["label"])), dict(expr=0, label=11), dict(expr=1, label=12))
    K["Mesh"] = (lambda d: mesh(d["degree"], d["id"], d["cell"]), dict(degree=1, id=1000, cell="triangle"), dict(degree=2, id=1001, cell="quadrilateral"))
    K["FunctionSpace"] = (lambda d: space(d["degree"], d["shape"], d["mesh"]), dict(degree=1, shape=(), mesh=1000), dict(degree=2, shape=(2,), mesh=1001))
    K["Grad"] = (lambda d: C.Grad(f if d["operand"] == 0 else g), dict(operand=0), dict(operand=1))
    K["Indexed"] = (lambda d: C.Indexed(ufl.Coefficient(space(1, (2,)), count=950), C.MultiIndex((C.FixedIndex(d["k"]),))), dict(k=0), dict(k=1))
    K["PositiveRestricted"] = (lambda d: (f if d["operand"] == 0 else g)("+"), dict(operand=0), dict(operand=1))
    dxs = {"dx": ufl.dx, "ds": ufl.ds}
    K["Integral"] = (lambda d: ((f if d["integrand"] == 0 else g) * dxs[d["type"]](domain=mesh(uid=d["mesh"]), subdomain_id=d["sub"], metadata=d["md"])).integrals()[0],
                     dict(integrand=0, type="dx", mesh=1000, sub=1, md={"quadrature_degree": 2}),
                     dict(integrand=1, type="ds", mesh=1001, sub=2, md={"quadrature_degree": 3}))
    K["Form"] = (lambda d: (f if d["integrand"] == 0 else g) * ufl.dx(domain=mesh(), metadata={"quadrature_degree": d["qd"]}) + (g * ufl.ds(domain=mesh()) if d["second"] else 0 * f * ufl.dx(domain=mesh())),
                 dict(integrand=0, qd=2, second=False), dict(integrand=1, qd=3, second=True))
    return K


def sigdata(o):
    try:
        import ufl
        if isinstance(o, ufl.Form):
            return o.signature()
        if isinstance(o, ufl.classes.Integral):
            return ufl.Form([o]).signature()
        if isinstance(o, ufl.core.expr.Expr) and hasattr(o, "ufl_shape") and not isinstance(o, (ufl.classes.MultiIndex, ufl.classes.Label)):
            m = ufl.Mesh(__import__("utils").FiniteElement("Lagrange", ufl.triangle, 1, (2,), ufl.identity_pullback, ufl.H1), ufl_id=4242)
            e = o
            while e.ufl_shape:
                e = e[(0,) * len(e.ufl_shape)]
            if e.ufl_free_indices:
                return None
            return (e * ufl.dx(m)).signature()
    except Exception:
        return None
    return None


def shape_of(o):
    try:
        return (tuple(o.ufl_shape), tuple(o.ufl_free_indices))
    except Exception:
        return None


def hsh(o):
    try:
        return hash(o)
    except TypeError:
        return "unhashable"


def observe():
    ns = namespace()
    rows, kinfo = [], []
    for name, (make, base, alt) in kinds().items():
        o1 = make(base)
        o1c = make(dict(base))
        try:
            pk = pickle.loads(pickle.dumps(o1)) == o1
        except Exception:
            pk = False
        try:
            er = eval(repr(o1), dict(ns)) == o1
        except Exception:
            er = False
        kinfo.append(dict(kind=name, copyEq=bool(o1 == o1c), copyHash=hsh(o1) == hsh(o1c), copyRepr=repr(o1) == repr(o1c), pickleEq=bool(pk), evalReprEq=bool(er)))
        for fld, v in alt.items():
            d2 = dict(base); d2[fld] = v
            try:
                o2 = make(d2)
            except Exception:
                continue
            s1, s2 = sigdata(o1), sigdata(o2)
            try:
                rt = bool(pickle.loads(pickle.dumps(o2)) == o2) and bool(eval(repr(o2), dict(ns)) == o2)
            except Exception:
                rt = False
            rows.append(dict(kind=name, field=fld, altRoundTrip=rt, eqSees=not bool(o1 == o2), hashSees=hsh(o1) != hsh(o2), reprSees=repr(o1) != repr(o2),
                             sigSees=(s1 is not None and s2 is not None and s1 != s2), shapeSees=shape_of(o1) != shape_of(o2)))
    return rows, kinfo


def render():
    rows, kinfo = observe()
    out = [L.header("(harness/props/c13.py)", "near-miss observation table: which observers see a change of each constructor field, per class."),
           "namespace UflVerif.Gen.EqFields\n",
           "structure Row where\n  kind : String\n  field : String\n  altRoundTrip : Bool\n  eqSees : Bool\n  hashSees : Bool\n  reprSees : Bool\n  sigSees : Bool\n  shapeSees : Bool\n",
           "structure Kind where\n  kind : String\n  copyEq : Bool\n  copyHash : Bool\n  copyRepr : Bool\n  pickleEq : Bool\n  evalReprEq : Bool\n",
           "def rows : List Row := [\n  " + ",\n  ".join("{ kind := %s, field := %s, altRoundTrip := %s, eqSees := %s, hashSees := %s, reprSees := %s, sigSees := %s, shapeSees := %s }" % (
               L.s(r["kind"]), L.s(r["field"]), L.b(r["altRoundTrip"]), L.b(r["eqSees"]), L.b(r["hashSees"]), L.b(r["reprSees"]), L.b(r["sigSees"]), L.b(r["shapeSees"])) for r in rows) + "]\n",
           "def kinds : List Kind := [\n  " + ",\n  ".join("{ kind := %s, copyEq := %s, copyHash := %s, copyRepr := %s, pickleEq := %s, evalReprEq := %s }" % (
               L.s(k["kind"]), L.b(k["copyEq"]), L.b(k["copyHash"]), L.b(k["copyRepr"]), L.b(k["pickleEq"]), L.b(k["evalReprEq"])) for k in kinfo) + "]\n",
           "end UflVerif.Gen.EqFields\n"]
    return "\n".join(out), rows, kinfo


def deep_copy(e):
    if e._ufl_is_terminal_:
        return e
    return e._ufl_expr_reconstruct_(*[deep_copy(o) for o in e.ufl_operands])


class C13(Prop):
    pid = "C13"
    lean_modules = ["UflVerif.Props.C13", "UflVerif.Props.C13Eq", "UflVerif.Props.C13Value"]
    min_theorems = 25
    trusted = ["translator harness/props/c13.py: constructs the near-miss objects through the public constructors and observes ==, hash, repr, signature, shape, pickle, eval(repr)",
               "modelled rather than verified: pickle and eval(repr(.)) are observed only (per class on the table objects and on generated expressions); "
               "the element class is the test suite's utils.FiniteElement (third-party elements define their own ==/hash/repr)"]
    assumptions = ["the generic theorems take the terminals' consistency (TermsOK, TermEquiv) as hypothesis; it is discharged per class and field by the regenerated observation table "
                   "(two values per field), not for all field values"]

    def regenerate(self, ctx):
        text, self.rows, self.kinfo = render()
        p = LEAN / "UflVerif/Gen/EqFields.lean"
        return [(p.relative_to(LEAN), write_if_changed(p, text))]

    def correspondence(self, ctx, ev):
        """oracle on expressions: == ⇒ hash & repr equal; comparisons are pure; pickle / eval(repr) round trips"""
        import ufl
        rng = random.Random(ctx.seed * 1009 + 13)
        n = 60 if ctx.quick else 600
        ns = namespace()
        self.bad = []
        pairs_checked = eq_pairs = 0
        distinct = set()
        for k in range(n):
            G = gen.Gen(rng, gdim=rng.choice([2, 3]), math=True, compound=(k % 2 == 0), derivs=(k % 3 == 0), reuse=0.8, base_elements=True)
            sh = rng.choice([(), (), (2,), (2, 2)])
            pool = [G.expr(sh, (), rng.randint(1, 3)) for _ in range(3)]
            pool += [deep_copy(pool[0]), deep_copy(pool[1])]
            try:
                pool.append(type(pool[0])(*pool[0].ufl_operands) if not pool[0]._ufl_is_terminal_ else pool[0])
            except Exception:
                pass
            snap = [(repr(e), hash(e), str(e)) for e in pool]
            for (i, a), (j, b) in itertools.product(enumerate(pool), repeat=2):
                pairs_checked += 1
                e = bool(a == b)
                if e:
                    eq_pairs += 1
                    if hash(a) != hash(b) or repr(a) != repr(b):
                        self.bad.append(("a == b but hash/repr differ", dict(kind="eq-hash-repr", a=repr(a)[:300], b=repr(b)[:300])))
                    if a.ufl_shape != b.ufl_shape or a.ufl_free_indices != b.ufl_free_indices:
                        self.bad.append(("a == b but shape/free indices differ", dict(kind="eq-shape", a=repr(a)[:300], b=repr(b)[:300])))
                if e != bool(b == a):
                    self.bad.append(("== is not symmetric", dict(kind="symm", a=repr(a)[:300], b=repr(b)[:300])))
                if repr(a) == repr(b) and not e:
                    self.bad.append(("identical repr but not ==", dict(kind="repr-eq", a=repr(a)[:300])))
            for e0, (r0, h0, s0) in zip(pool, snap):
                if (repr(e0), hash(e0), str(e0)) != (r0, h0, s0):
                    self.bad.append(("comparison changed repr/hash/str of an expression", dict(kind="impure", a=r0[:300])))
            for a, b, c in itertools.permutations(pool, 3):
                if a == b and b == c and not a == c:
                    self.bad.append(("== is not transitive", dict(kind="trans", a=repr(a)[:200])))
            for e0 in pool[:2]:
                distinct.add(repr(e0))
                try:
                    if not pickle.loads(pickle.dumps(e0)) == e0:
                        self.bad.append(("pickle round trip gives an unequal expression", dict(kind="pickle", a=repr(e0)[:300])))
                except Exception as ex:  # noqa
                    self.bad.append(("pickle round trip raises %s" % type(ex).__name__, dict(kind="pickle", a=repr(e0)[:300])))
                try:
                    if not eval(repr(e0), dict(ns)) == e0:
                        self.bad.append(("eval(repr(e)) != e", dict(kind="evalrepr", a=repr(e0)[:300])))
                except Exception as ex:  # noqa
                    self.bad.append(("eval(repr(e)) raises %s" % type(ex).__name__, dict(kind="evalrepr", a=repr(e0)[:300])))
        # forms
        import ufl
        for k in range(n // 3):
            G = gen.Gen(rng, gdim=2, math=False, compound=False, reuse=0.5, base_elements=True)
            a = G.expr((), (), 2)
            md = rng.choice([None, {"quadrature_degree": 2}])
            F1 = a * ufl.dx(domain=G.mesh, metadata=md) if md else a * ufl.dx(domain=G.mesh)
            F2 = deep_copy(a) * ufl.dx(domain=G.mesh, metadata=dict(md)) if md else deep_copy(a) * ufl.dx(domain=G.mesh)
            F3 = a * ufl.dx(domain=G.mesh, metadata={"quadrature_degree": 3})
            if not (F1 == F2) or hash(F1) != hash(F2) or repr(F1) != repr(F2) or F1.signature() != F2.signature():
                self.bad.append(("equal forms differ in ==/hash/repr/signature", dict(kind="form-eq", a=repr(F1)[:300])))
            if F1 == F3 and (repr(F1) != repr(F3) or F1.signature() != F3.signature()):
                self.bad.append(("forms with different metadata are == but differ in repr/signature", dict(kind="form-md", a=repr(F1)[:300])))
        # -- histories: fresh (never hashed) objects compared first; metadata written in another key order; pickling must not touch other objects
        nhist = 0
        for k in range(n):
            G = gen.Gen(rng, gdim=2, math=False, compound=False, reuse=0.5, base_elements=True)
            def fresh_items(m):
                return [G.expr((), (), rng.randint(0, 1)) for _ in range(m)]
            items = fresh_items(4)
            m1 = rng.randint(1, 3)
            build = lambda its: ufl.as_vector(list(its)) if rng.random() < 2 else None
            # two freshly built, never hashed list tensors, one a proper prefix of the other (also nested one level)
            for nested in (False, True):
                def mk(its):
                    v = ufl.classes.ListTensor(*[ufl.as_ufl(x) for x in its])
                    return ufl.classes.ListTensor(v, v) if nested else v
                try:
                    A, B = mk(items[:m1]), mk(items[:m1 + 1])
                except Exception:
                    continue
                if nested:
                    A = ufl.classes.ListTensor(ufl.classes.ListTensor(*items[:m1]), ufl.classes.ListTensor(*items[:m1]))
                    B = ufl.classes.ListTensor(ufl.classes.ListTensor(*items[:m1 + 1]), ufl.classes.ListTensor(*items[:m1 + 1]))
                shA, shB = A.ufl_shape, B.ufl_shape
                nhist += 1
                first = bool(A == B) if k % 2 == 0 else bool(B == A)
                if first or bool(A == B) or bool(B == A):
                    self.bad.append(("two freshly built expressions of different shape compare equal before either was hashed", dict(kind="fresh-eq", a=repr(A)[:200], b=repr(B)[:200])))
                if A.ufl_shape != shA or B.ufl_shape != shB or len(A.ufl_operands) == len(B.ufl_operands) and not nested:
                    self.bad.append(("comparing two fresh expressions changed the operands / shape of one of them", dict(kind="fresh-impure", a=repr(A)[:200])))
            # metadata with the same items written in another order
            a = G.expr((), (), 1)
            kv = [("quadrature_degree", rng.randint(1, 4)), ("quadrature_rule", "default"), ("optimize", True)][:rng.randint(2, 3)]
            md1, md2 = dict(kv), dict(reversed(kv))
            F1, F2 = a * ufl.dx(domain=G.mesh, metadata=md1), a * ufl.dx(domain=G.mesh, metadata=md2)
            I1, I2 = F1.integrals()[0], F2.integrals()[0]
            nhist += 1
            if I1 == I2 and hash(I1) != hash(I2):
                self.bad.append(("two integrals are == but have different hashes (metadata with the same items in another order)", dict(kind="integral-eq-hash", a=repr(md1), b=repr(md2))))
            if bool(I1 == I2) != bool(F1 == F2) or (F1 == F2 and (hash(F1) != hash(F2) or F1.signature() != F2.signature())):
                self.bad.append(("forms whose integrals are pairwise equal are not equal / differ in hash or signature (metadata key order)", dict(kind="form-md-order", a=repr(md1), b=repr(md2))))
            # pickling an object must not change any OTHER object: zeros with free indices vs the plain zeros of the same shape
            from ufl.classes import Zero
            sh = rng.choice([(), (2,), (2, 2)])
            plain = [Zero(sh), ufl.as_ufl(0), ufl.zero(*sh) if sh else ufl.zero()]
            snapz = [(repr(z), hash(z), str(z), z.ufl_free_indices) for z in plain]
            ii = ufl.Index()
            zfi = Zero(sh, (ii.count(),), (2,))
            w = G.coeffs[(2,)][0] if (2,) in G.coeffs else None
            objs = [zfi] + ([0 * w[ii]] if w is not None else []) + [a]
            for o in objs:
                nhist += 1
                try:
                    back = pickle.loads(pickle.dumps(o))
                except Exception as ex:  # noqa
                    self.bad.append(("pickle round trip raises %s" % type(ex).__name__, dict(kind="pickle", a=repr(o)[:300])))
                    continue
                if not back == o or repr(back) != repr(o) or back.ufl_free_indices != o.ufl_free_indices:
                    self.bad.append(("pickle round trip gives an unequal expression", dict(kind="pickle", a=repr(o)[:300])))
            plain2 = [Zero(sh), ufl.as_ufl(0), ufl.zero(*sh) if sh else ufl.zero()]
            if [(repr(z), hash(z), str(z), z.ufl_free_indices) for z in plain] != snapz or [(repr(z), hash(z), str(z), z.ufl_free_indices) for z in plain2] != snapz:
                self.bad.append(("unpickling a Zero with free indices changed the plain Zero of the same shape", dict(kind="pickle-impure", shape=list(sh))))
        ev.cov["history_checks"] = nhist
        ev.cov["evaluations"] = pairs_checked
        ev.cov["equal_pairs"] = eq_pairs
        ev.cov["distinct_nontrivial"] = len(distinct)
        ev.cov["table_rows"] = len(getattr(self, "rows", []))
        ev.cov["table_kinds"] = len(getattr(self, "kinfo", []))
        ev.cov["rule"] = ("(T) %d (class, field) near-miss rows over %d classes; (C) ordered pairs from pools of generated expressions with deep copies and shallow rebuilds: "
                          "==/hash/repr/shape consistency, symmetry, transitivity, purity of comparison, pickle and eval(repr) round trips; plus forms with equal/different metadata; "
                          "non-trivial = distinct expression repr" % (len(getattr(self, "rows", [])), len(getattr(self, "kinfo", []))))
        ev.cov["samples"] = [r for r in getattr(self, "rows", [])[:4]]
        return self.tie_state(ctx, ev)

    # ---- tie of the state model of expr_equals (Model/ExprEq.lean, c13drv) ---------------------------------------------
    def _pools(self, ctx, rng):
        """generated pools + directed pools from the table objects (two objects differing in one field, wrapped in operators)"""
        import ufl
        from ufl.classes import PositiveRestricted, Expr, MultiIndex, Label, Indexed, Variable, Sum
        n = 70 if ctx.quick else 1200
        for k in range(n):
            G = gen.Gen(rng, gdim=rng.choice([2, 3]), math=(k % 2 == 0), compound=(k % 3 == 0), derivs=(k % 4 == 0), reuse=0.8,
                        base_elements=True, with_args=(k % 5 == 0))
            sh = rng.choice([(), (), (2,), (2, 2)])
            nan = (k % 7 == 3)
            yield ("gen%d" % k, c13lib.make_pool(G, rng, sh, rng.randint(1, 3), nan=nan))
        f = ufl.Coefficient(ufl.FunctionSpace(ufl.Mesh(__import__("utils").LagrangeElement(ufl.triangle, 1, (2,)), ufl_id=77),
                                              __import__("utils").LagrangeElement(ufl.triangle, 1, (2,))), count=970)
        for name, (make, base, alt) in kinds().items():
            o1 = make(base)
            if not isinstance(o1, Expr):
                continue
            for fld, v in alt.items():
                d2 = dict(base); d2[fld] = v
                try:
                    o1, o1c, o2 = make(base), make(dict(base)), make(d2)
                except Exception:
                    continue
                if isinstance(o1, MultiIndex):
                    wrap = lambda t: Indexed(ufl.outer(f, f), t)
                elif isinstance(o1, Label):
                    wrap = lambda t: Variable(f, t)
                else:
                    wrap = lambda t: PositiveRestricted(t)
                try:
                    pool = [("t", wrap(o1)), ("copy", wrap(o1c)), ("alt", wrap(o2)), ("t2", wrap(o1))]
                    if not isinstance(o1, (MultiIndex, Label)):
                        pool += [("term", o1), ("termcopy", o1c), ("termalt", o2)]
                        if o1.ufl_shape == () and o2.ufl_shape == ():
                            pool += [("sum", Sum(wrap(o1), f[0])), ("sumalt", Sum(wrap(o2), f[0]))]
                except Exception:
                    continue
                yield ("table:%s.%s" % (name, fld), pool)

    def tie_state(self, ctx, ev):
        import ufl
        from ufl.classes import Variable
        rng = random.Random(ctx.seed * 7919 + 1313)
        reqs, cases = [], []
        labels = {}
        for cname, pool in self._pools(ctx, rng):
            if len(pool) < 2:
                continue
            objs = [e for _, e in pool]
            states = c13lib.prehash(pool, rng)
            tags = c13lib.Tags()
            try:
                ws = [c13lib.wire(e, tags) for e in objs]
            except Exception as ex:  # noqa
                continue
            m = len(objs)
            hist = [(rng.randrange(m), rng.randrange(m)) for _ in range(rng.randint(4, 12))]
            if cname.startswith("table:"):
                hist = [(0, 1), (0, 2), (2, 0), (0, 3), (1, 0)] + hist
            reqs.append("(pool (objs %s) (hist %s))" % (" ".join(ws), " ".join("(%d %d)" % ij for ij in hist)))
            # the same history on the live objects
            outs = []
            for i, j in hist:
                a, b = objs[i], objs[j]
                r = bool(a == b)
                shared = (not a._ufl_is_terminal_) and (not b._ufl_is_terminal_) and a.ufl_operands is b.ufl_operands
                outs.append((r, shared, isinstance(a, Variable) or isinstance(b, Variable)))
            nan = any(c13lib.has_nan(e) for e in objs)
            mat = []
            for a in objs:
                for b in objs:
                    mat.append((bool(a == b), hash(a) == hash(b), repr(a) == repr(b),
                                (a.ufl_shape, a.ufl_free_indices, a.ufl_index_dimensions) == (b.ufl_shape, b.ufl_free_indices, b.ufl_index_dimensions)))
            cases.append((cname, pool, states, hist, outs, mat, nan, tags))
            for lab, _ in pool:
                labels[lab.split(":")[0] if not lab.startswith("near:") else lab] = labels.get(lab.split(":")[0] if not lab.startswith("near:") else lab, 0) + 1
        fails = []
        replies = leandrv.run_driver("C13", reqs)
        steps = eqpairs = nanpools = mism = 0
        nontrivial = set()
        import re
        for (cname, pool, states, hist, outs, mat, nan, tags), rep in zip(cases, replies):
            mm = re.match(r"\(r ?(.*)\) \(m (.*)\)$", rep)
            if not mm:
                fails.append(Failure("correspondence", "expr_equals-state", "driver reply: %s" % rep[:300], case=cname))
                continue
            rs = re.findall(r"\((\d) (\d)\)", mm.group(1))
            ms = re.findall(r"\((\d) (\d) (\d) (\d)\)", mm.group(2))
            desc = lambda: "; ".join("%d:%s[%s] %s" % (i, lab, st, repr(e)[:120]) for i, ((lab, e), st) in enumerate(zip(pool, states)))
            for k, ((i, j), (r, shared, isvar), (mr, ms_)) in enumerate(zip(hist, outs, rs)):
                steps += 1
                if r != (mr == "1") or (not isvar and shared != (ms_ == "1")):
                    fails.append(Failure("correspondence", "expr_equals-state",
                                         "case %s step %d: pool[%d] == pool[%d]: impl (%s, operands shared %s) model (%s, %s) | history %s | pool %s" % (
                                             cname, k, i, j, r, shared, mr, ms_, hist[:k + 1], desc()), case=cname))
                    break
            if nan:
                nanpools += 1
                continue
            n = len(pool)
            for idx, ((e, h, r, sf), (me, mh, mr, mx)) in enumerate(zip(mat, ms)):
                i, j = divmod(idx, n)
                if e:
                    eqpairs += 1
                    if i != j and pool[i][1] is not pool[j][1]:
                        nontrivial.add(repr(pool[i][1]))
                bad = None
                if e != (me == "1"):
                    bad = "== after the history is %s, structural == of the model is %s" % (e, me)
                elif h != (mh == "1"):
                    bad = "hash equality %s, model %s" % (h, mh)
                elif r != (mr == "1"):
                    bad = "repr equality %s, model %s" % (r, mr)
                elif e and (mx != "1" or not sf):
                    bad = "== expressions with different derived data / shape / free indices (auxAgree %s, same shape+indices %s)" % (mx, sf)
                if bad:
                    mism += 1
                    fails.append(Failure("correspondence", "expr_equals-matrix", "case %s pair (%d, %d): %s | impl (==, hash==, repr==) = %s, model = %s | pool %s" % (
                        cname, i, j, bad, (e, h, r), (me, mh, mr), desc()), case=cname))
                    self.last_bad_pool = (cname, i, j, pool)
                    self.bad.append((bad, dict(kind="state-" + bad.split(" ")[0], a=repr(pool[i][1])[:300], b=repr(pool[j][1])[:300])))
                    break
        ev.cov["state_pools"] = len(cases)
        ev.cov["state_history_steps"] = steps
        ev.cov["state_equal_pairs"] = eqpairs
        ev.cov["state_pools_with_nan"] = nanpools
        ev.cov["state_pool_entry_kinds"] = dict(sorted(labels.items()))
        ev.cov["traces_validated_against_impl"] = steps
        ev.cov["evaluations"] += steps + sum(len(c[5]) for c in cases)
        ev.cov["distinct_nontrivial"] += len(nontrivial)
        ev.cov["rule"] += ("; (S) state tie: %d pools (base, unshared rebuild, shallow rebuild, pickle copy, sub-object, one-field near misses of one terminal "
                           "occurrence, reversed operands, unrelated; mixed fresh/partly/fully hashed), a random comparison history per pool run on the live objects "
                           "and on Model/ExprEq.lean (outcome and operand-tuple sharing per step), then ==/hash/repr matrices against eqE/hashE/reprE" % len(cases))
        return fails[:20]

    def oracle(self, ctx, ev):
        out, seen = [], set()
        for r in getattr(self, "rows", []):
            if (r["hashSees"] or r["reprSees"] or r["sigSees"] or r["shapeSees"]) and not r["eqSees"]:
                w = "two %s objects differing only in `%s` are == although %s differ" % (r["kind"], r["field"], "/".join(
                    n for n, f in (("hash", "hashSees"), ("repr", "reprSees"), ("signature", "sigSees"), ("shape", "shapeSees")) if r[f]))
                out.append(Witness(what=w, key="C13:%s.%s" % (r["kind"], r["field"]), data=r))
        for r in getattr(self, "rows", []):
            if r["eqSees"] and not r["reprSees"]:
                out.append(Witness(what="two %s objects differing in `%s` are != but have the same repr (eval(repr(.)) cannot round-trip)" % (r["kind"], r["field"]),
                                   key="C13:repr:%s.%s" % (r["kind"], r["field"]), data=r))
            if not r["altRoundTrip"]:
                out.append(Witness(what="%s with `%s` changed does not survive pickle / eval(repr(.))" % (r["kind"], r["field"]),
                                   key="C13:roundtrip:%s.%s" % (r["kind"], r["field"]), data=r))
        for k in getattr(self, "kinfo", []):
            for f in ("copyEq", "copyHash", "copyRepr", "pickleEq", "evalReprEq"):
                if not k[f]:
                    out.append(Witness(what="%s: an equal copy fails %s" % (k["kind"], f), key="C13:%s.%s" % (k["kind"], f), data=k))
        out += self.nan_witness()
        for w, d in getattr(self, "bad", []):
            if d["kind"] in seen:
                continue
            seen.add(d["kind"])
            out.append(Witness(what=w + " :: " + d.get("a", "")[:200], key="C13:" + d["kind"], data=d))
        return out


    def nan_witness(self):
        """replay of C13_eq_equivalence_counterexample on the implementation"""
        import ufl
        from ufl.classes import FloatValue, Sum
        from utils import LagrangeElement
        m = ufl.Mesh(LagrangeElement(ufl.triangle, 1, (2,)), ufl_id=4243)
        f = ufl.Coefficient(ufl.FunctionSpace(m, LagrangeElement(ufl.triangle, 1)), count=980)
        try:
            n, n2 = FloatValue(float("nan")), FloatValue(float("nan"))
            e1, e2, e3 = Sum(n, f), Sum(n, f), Sum(n2, f)
            obs = dict(lit_eq_itself=bool(n == n), e1_eq_e1=bool(e1 == e1), e1_eq_rebuild_sharing_literal=bool(e1 == e2),
                       e1_eq_same_structure_other_nan_object=bool(e1 == e3), same_repr=repr(e1) == repr(e3), same_hash=hash(e1) == hash(e3),
                       pickle_round_trip_eq=bool(pickle.loads(pickle.dumps(e1)) == e1))
        except Exception as ex:  # a tree that rejects NaN literals has no such expressions
            return []
        if obs["lit_eq_itself"] and obs["e1_eq_same_structure_other_nan_object"] and obs["pickle_round_trip_eq"]:
            return []
        return [Witness(what="FloatValue(nan) != FloatValue(nan): == is not reflexive on a NaN literal, and an expression containing one is == to a rebuild sharing the "
                             "literal object but != to its pickle round trip / to the same structure with another NaN object (equal repr and hash)",
                        key="C13:nan-literal", data=obs)]


PROP = C13()
